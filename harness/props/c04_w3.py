"""C04, wave 3: presentations with re-ordered axes, 4-D realignment histories, interpolator
histories, resampling between spaces of different dimension, VolumeImg crops / pads / 4-D data.
Mixed into the C04 check (harness/props/C04.py)."""
from __future__ import annotations

import warnings
from fractions import Fraction

import numpy as np

from harness.util import Snapshot, errname, fr, frs
from harness.props.c04_lib import (INT_DTYPES, LAYOUTS, MODES, SRC_DTYPES, F, H, all_idx, base_array, cs_ext_index,
                                   cs_glue, cs_glue4, cs_lib, ext_exact, ext_index, f_apply, f_comp, f_ident, f_inv,
                                   inside, is_exact, lay_out, make_typed, scale_of, tofloat)

XYZ_NAMES = ["scanner-x=L->R", "scanner-y=P->A", "scanner-z=I->S"]


def aff_txt(M):
    return " ".join(frs(row) for row in M)


# ----------------------------------------------------------------------
# images whose axes as_xyz_image has to re-order
# ----------------------------------------------------------------------
def present_raw(aff, codes, q):
    """the xyz-level affine `aff` ([A|b], rows x, y, z) as an image lists it when its i-th world
    name is the letter codes[i] and its j-th array axis is the xyz-level axis q[j]"""
    raw = [[aff[codes[i]][q[j]] for j in range(3)] + [aff[codes[i]][3]] for i in range(3)]
    return {"aff": raw, "codes": list(codes), "q": list(q)}


def raw_image(obj, raw):
    from nipy.core.api import AffineTransform, CoordinateSystem, Image
    return Image(obj, AffineTransform(CoordinateSystem(list("ijk"), "voxels"),
                                      CoordinateSystem([XYZ_NAMES[c] for c in raw["codes"]], "scanner"),
                                      H(raw["aff"])))


def observed_axes(raw, rawshape):
    """array-axis order as_xyz_image chooses for this affine (it depends on io_orientation, a
    parameter of the model): observed axis j = raw axis r2o[j]; None when it refuses"""
    from nipy.core.image.image_spaces import as_xyz_image
    try:
        x = as_xyz_image(raw_image(np.zeros(rawshape), raw))
    except Exception:   # noqa
        return None
    return ["ijk".index(a) for a in x.coordmap.function_domain.coord_names]


# ----------------------------------------------------------------------
# 4-D realignment: capturing glue, independent time-series oracle
# ----------------------------------------------------------------------
def cs_capture_glue(log):
    """(_cspline_sample3d, _cspline_transform, _cspline_sample4d) as the .pyx defines them, on the C
    of the tree under test; every sampling call appends (X, Y, Z, T|None) to `log`"""
    from harness.props.c04_lib import CS_MODES
    lib = cs_lib()

    def cs_tr(x):
        x = np.asarray(x)
        cc = np.zeros(x.shape, dtype=np.double)
        lib.cubic_spline_transform(cc, x)
        return cc

    def cs_s3(Rr, Cc, X=0, Y=0, Z=0, mx="zero", my="zero", mz="zero"):
        X, Y, Z = (np.reshape(a, Rr.shape).astype(np.double) for a in (X, Y, Z))
        log.append((X.ravel().copy(), Y.ravel().copy(), Z.ravel().copy(), None, (mx, my, mz)))
        it = np.nditer(Rr, flags=["multi_index"], op_flags=["readwrite"])
        m = [CS_MODES[mx], CS_MODES[my], CS_MODES[mz]]
        for r in it:
            k = it.multi_index
            r[...] = lib.cubic_spline_sample3d(float(X[k]), float(Y[k]), float(Z[k]), Cc, *m)
        return Rr

    def cs_s4(Rr, Cc, X=0, Y=0, Z=0, T=0, mx="zero", my="zero", mz="zero", mt="zero"):
        X, Y, Z, T = (np.reshape(a, Rr.shape).astype(np.double) for a in (X, Y, Z, T))
        log.append((X.ravel().copy(), Y.ravel().copy(), Z.ravel().copy(), T.ravel().copy(), (mx, my, mz, mt)))
        it = np.nditer(Rr, flags=["multi_index"], op_flags=["readwrite"])
        m = [CS_MODES[mx], CS_MODES[my], CS_MODES[mz], CS_MODES[mt]]
        for r in it:
            k = it.multi_index
            r[...] = lib.cubic_spline_sample4d(float(X[k]), float(Y[k]), float(Z[k]), float(T[k]), Cc, *m)
        return Rr

    return cs_s3, cs_tr, cs_s4


def slice_time_list(c):
    """the per-slice acquisition times the case describes (exact fractions), None = synchronous 0"""
    n = c["sshape"][c["ax"]]
    tr = Fraction(c["tr"])
    m = c["stmode"]
    if m == "zero":
        return [Fraction(0)] * n
    if m == "sync":
        return [tr / 4] * n
    base = [tr * k / 8 for k in range(n)]
    if m == "desc":
        base = base[::-1]
    elif m == "inter":
        base = base[0::2] + base[1::2]
    return base


def series_at(series, T, clamp):
    """cubic spline (whole-sample symmetric ends, as cubic_spline_transform) of a time series at
    grid time T — computed with scipy.ndimage, independently of cubic_spline.c"""
    from scipy.ndimage import map_coordinates
    nt = len(series)
    if clamp:
        T = min(max(T, 0.0), nt - 1.0)
    if nt == 1:
        return float(series[0])
    return float(map_coordinates(np.asarray(series, float), [[T]], order=3, mode="mirror")[0])


# ----------------------------------------------------------------------
# translator: constants / guards of the source text -> lean/NipyVerif/Gen/C04Consts.lean
# ----------------------------------------------------------------------
def translate_consts(repo, tiebroken):
    import os
    import re

    def text(rel):
        with open(os.path.join(repo, rel)) as fh:
            return fh.read()

    def one(pat, src, what):
        found = re.findall(pat, src)
        if not found or len(set(found)) != 1:
            raise tiebroken(f"C04 translator: cannot read {what} ({len(found)} candidates: {sorted(set(found))[:3]})")
        return found[0]

    it = text("nipy/algorithms/interpolation.py")
    rr = text("nipy/algorithms/registration/resample.py")
    cc = text("nipy/algorithms/registration/cubic_spline.c")
    pad = int(one(r"n_prepad_if_needed\s*=\s*(\d+)", it, "n_prepad_if_needed"))
    above = int(one(r"if self\.order > (\d+):", it, "the pre-filter order guard of _buildknots"))
    modes = one(r"if self\.mode in \(([^)]*)\):", it, "the pre-pad mode tuple of _buildknots")
    modes = re.findall(r"'([^']*)'", modes)
    sc = one(r"if \(interp_order, mode, cval\) == \((\d+), '([^']*)', ([-0-9.]+)\):", rr, "the short-cut guard")
    c23 = one(r"y = (0\.6+7?) - aux \+ 0\.5\*absx\*aux;", cc, "the 2/3 literal of cubic_spline_basis")
    if not modes:
        raise tiebroken("C04 translator: empty pre-pad mode tuple")
    num, den = c23.replace("0.", ""), 10 ** (len(c23) - 2)
    out = ["/- GENERATED by harness/props/c04_w3.py from /repo: nipy/algorithms/interpolation.py",
           "   (n_prepad_if_needed and the guards of _buildknots), nipy/algorithms/registration/resample.py (the",
           "   cubic-spline short-cut guard), nipy/algorithms/registration/cubic_spline.c (the 2/3 literal).",
           "   Do not edit. -/", "namespace NipyVerif.C04.Src", "",
           f"def nPrepadIfNeeded : Nat := {pad}",
           f"def prefilterOrderAbove : Nat := {above}",
           "def prepadModes : List String := [" + ", ".join('"%s"' % m_ for m_ in modes) + "]",
           f"def shortcutOrder : Nat := {int(sc[0])}",
           f'def shortcutMode : String := "{sc[1]}"',
           "def shortcutCval : Rat := " + (str(Fraction(sc[2]).numerator) if Fraction(sc[2]).denominator == 1 else
                                           f"{Fraction(sc[2]).numerator} / {Fraction(sc[2]).denominator}"),
           f"def c23 : Rat := {int(num)} / {den}",
           "", "end NipyVerif.C04.Src", ""]
    return [("NipyVerif/Gen/C04Consts.lean", "\n".join(out))]


class W3Mixin:
    """generators / runners of the wave-3 case kinds; mixed into C04"""

    # ---- 4-D realignment: one Image4d / one algorithm object, several operations ------------
    def _gen_realign4(self, rng):
        sshape = [rng.choice([3, 4, 5]), rng.choice([3, 4]), rng.choice([2, 3, 4])]
        nt = rng.choice([2, 3, 4, 5])
        d = [Fraction(rng.choice([1, 2, 0.5, 3])) for _ in range(3)]
        aff = [[d[j] * int(i == j) for j in range(3)] + [Fraction(rng.randrange(-6, 7))] for i in range(3)]
        big = rng.random() < 0.3

        def shift():
            if rng.random() < 0.4:
                return [0, 0, 0]
            return [rng.choice([0, 0, 1, -1, 2] + ([-4, 3, 6] if big else [])) for _ in range(3)]
        init = [shift() for _ in range(nt)]
        pool = [shift() for _ in range(4)]
        steps = []
        for _ in range(rng.choice([2, 3, 4])):
            r = rng.random()
            tin = rng.random() < 0.6
            if r < 0.45:
                steps.append({"op": "r4d", "tin": tin})
            elif r < 0.6:
                steps.append({"op": "hl", "tin": tin})
            else:
                ops = []
                for _ in range(rng.choice([1, 3, 5, 8])):
                    k = rng.choice(["r", "r", "s", "s", "e"])
                    t = rng.randrange(nt)
                    ops.append([k, t] if k == "r" else [k, t, rng.randrange(1, 5)])
                steps.append({"op": "alg", "tin": tin, "ops": ops})
        return {"kind": "realign4", "sshape": sshape, "nt": nt, "aff": tofloat(aff), "ax": rng.choice([2, 2, 0, 1]),
                "dir": rng.choice([1, 1, -1]), "tr": rng.choice([1.0, 2.0, 0.5]),
                "stmode": rng.choice(["zero", "sync", "asc", "asc", "desc", "inter"]),
                "init": init, "pool": pool, "steps": steps, "lazy": rng.random() < 0.4,
                "dseed": rng.randrange(10 ** 6), "sdtype": rng.choice(["float64", "float64", "int16", "uint8", "float32"]),
                "stscalar": rng.random() < 0.5}

    def _run_realign4(self, c):
        from nipy.algorithms.registration import groupwise_registration as G
        from nipy.algorithms.registration.affine import Rigid
        from nipy.core.image.image_spaces import make_xyz_image, xyz_affine
        sshape, nt, ax, dirn = list(c["sshape"]), c["nt"], c["ax"], c["dir"]
        aff = F(c["aff"])
        affInv = f_inv(aff)
        tr = float(c["tr"])
        sdt = c.get("sdtype", "float64")
        arr4 = make_typed(c["dseed"], sshape + [nt], sdt)
        data = np.asarray(arr4, float)
        st = slice_time_list(c)
        n = sshape[ax]
        if c["stmode"] in ("zero", "sync") and c.get("stscalar"):
            st_arg = float(st[0])
        else:
            st_arg = [float(x) for x in st]
        sc = scale_of(data)
        tol = 1e-7 * sc

        def shift_of(t, tid):
            return c["init"][t] if tid == 0 else c["pool"][tid - 1]

        def param_of(s):
            r = Rigid()
            tw = np.array([float(aff[i][i] * s[i]) for i in range(3)])
            return np.concatenate([tw / r.precond[:3], np.zeros(3)])

        def rigid(s):
            r = Rigid()
            if any(s):
                r.param = param_of(s)
            return r

        def source():
            return (lambda: arr4.copy()) if c.get("lazy") else arr4.copy()

        def expected(s, t, tin, full):
            """value every grid point should hold for scan t under the whole-voxel shift s; None where
            the property makes no claim (outside the field of view under the `reflect` modes)"""
            out = []
            for v in all_idx(sshape):
                p = tuple(v[i] + s[i] for i in range(3))
                if not inside(p, sshape):
                    out.append(0.0 if full else None)
                    continue
                if not tin:
                    out.append(float(data[p + (t,)]))
                    continue
                sl = (n - 1 - p[ax]) if dirn < 0 else p[ax]
                T = float((Fraction(t) * Fraction(c["tr"]) - st[sl]) / Fraction(c["tr"]))
                out.append(series_at(data[p], T, clamp=full))
            return out

        log = []
        cs_s3, cs_tr, cs_s4 = cs_capture_glue(log)
        saved = (G._cspline_sample3d, G._cspline_transform, G._cspline_sample4d)
        G._cspline_sample3d, G._cspline_transform, G._cspline_sample4d = cs_s3, cs_tr, cs_s4
        tags = ["realign4", f"ax={ax}", f"dir={dirn}", "st=" + c["stmode"], "lazy" if c.get("lazy") else "array",
                "sdtype=" + sdt]
        fail = None
        lines, impl = [], []
        Ts = {}

        def t_aff(s):
            key = tuple(s)
            if key not in Ts:
                Ts[key] = F(np.array(rigid(s).as_affine(), float)[:3].tolist())
            return Ts[key]
        try:
            im4d = G.Image4d(source(), H(aff), tr=tr, slice_times=st_arg, slice_info=(ax, dirn))
            for step in c["steps"]:
                tin = step["tin"]
                tags.append(step["op"] + ("+t" if tin else "-t"))
                if step["op"] == "r4d":
                    res = np.asarray(G.resample4d(im4d, [rigid(s) for s in c["init"]], time_interp=tin), float)
                    for t in range(nt):
                        fail = fail or self._check_expected(
                            f"resample4d(time_interp={tin}) on a re-used Image4d, scan {t}, whole-voxel shift "
                            f"{c['init'][t]}, slice axis {ax} direction {dirn}, slice times {c['stmode']}, tr {tr}, "
                            f"image data {sdt}", res[..., t], expected(c["init"][t], t, tin, True), tol,
                            "the voxel's time series at the acquisition time of its slice (0 outside)", sc)
                elif step["op"] == "hl":
                    rl = G.Realign4d(make_xyz_image(arr4.copy(), H(aff), "scanner"), tr=tr,
                                     slice_times=(st_arg if tin else None), slice_info=(ax, dirn))
                    rl._transforms = [[rigid(s) for s in c["init"]]]
                    him = rl.resample(0)
                    hres = np.asarray(him.get_fdata(), float)
                    if not np.array_equal(np.array(xyz_affine(him), float), H(aff)):
                        fail = fail or "Realign4d.resample: the resampled run does not carry the run's affine"
                    for t in range(nt):
                        fail = fail or self._check_expected(
                            f"Realign4d(slice_times={'given' if tin else None}).resample(0), scan {t}, shift "
                            f"{c['init'][t]}, slice axis {ax} direction {dirn}, slice times {c['stmode']}",
                            hres[..., t], expected(c["init"][t], t, tin, True), tol,
                            "the voxel's time series at the acquisition time of its slice (0 outside)", sc)
                else:
                    res_ = self._alg_history(G, im4d, c, step, rigid, param_of, shift_of, expected, log, data, aff,
                                             affInv, t_aff, st, tol, sc)
                    fail = fail or res_[0]
                    lines += res_[1]
                    impl += res_[2]
            # the slice-timing formula itself
            zs = [Fraction(k, 4) for k in (-5, -4, -1, 0, 1, 2, 3, 5, 6, 4 * n - 4, 4 * n - 3, 4 * n, 4 * n + 2)]
            ts = [Fraction(0), Fraction(c["tr"]), Fraction(c["tr"]) * 5 / 2]
            im4d.get_fdata()
            got = [float(im4d.scanner_time(np.array([float(z)]), float(t))[0]) for z in zs for t in ts]
            lines.append(f"stime {dirn} {fr(c['tr'])} {n} {frs(st)} {len(zs)} {frs(zs)} {len(ts)} {frs(ts)}")
            impl.append(("rats", got, 1e-9))
        except Exception as e:   # noqa
            return {"lines": [], "impl": [], "nontrivial": True, "tags": tags + ["raised"],
                    "oracle": f"4-D realignment resampling raised {type(e).__name__}: {e} (slice axis {ax}, slice "
                              f"times {c['stmode']}, steps {[s_['op'] for s_ in c['steps']]}, image data {sdt})"}
        finally:
            G._cspline_sample3d, G._cspline_transform, G._cspline_sample4d = saved
        return {"lines": lines, "impl": impl, "oracle": fail, "nontrivial": True, "tags": tags, "mutated": None}

    def _alg_history(self, G, im4d, c, step, rigid, param_of, shift_of, expected, log, data, aff, affInv, t_aff, st,
                     tol, sc):
        """operations on one Realign4dAlgorithm object; returns (oracle failure, lines, impl)"""
        sshape, nt, ax, dirn = list(c["sshape"]), c["nt"], c["ax"], c["dir"]
        tin = step["tin"]
        fail = None
        alg = G.Realign4dAlgorithm(im4d, transforms=[rigid(s) for s in c["init"]], time_interp=tin,
                                   subsampling=(1, 1, 1), borders=(0, 0, 0))
        cur = [0] * nt                # identifier of the current transform of each scan
        col = [None] * nt             # identifier the column was sampled with
        calls = {}
        for op in step["ops"]:
            before = np.array(alg.data)
            k, t = op[0], op[1]
            n0 = len(log)
            if k == "r":
                alg.resample(t)
                col[t] = cur[t]
            elif k == "s":
                alg.set_transform(t, param_of(shift_of(t, op[2])))
                cur[t] = col[t] = op[2]
            else:
                alg.transforms[t].param = param_of(shift_of(t, op[2]))
                cur[t] = op[2]
            if len(log) > n0:
                calls[t] = log[-1]
            after = np.array(alg.data)
            keep = [u for u in range(nt) if not (u == t and k in "rs")]
            if fail is None and not np.array_equal(before[:, keep], after[:, keep]):
                fail = (f"Realign4dAlgorithm: operation {op} changed working-array columns of other scans "
                        f"(time_interp={tin})")
        work = np.array(alg.data)
        xyz = np.array(alg.xyz)
        # which transform does every column reflect?  (fresh objects of the real code as the yardstick)
        accept = []
        for t in range(nt):
            ids = sorted({0, cur[t]} | {op[2] for op in step["ops"] if len(op) > 2 and op[1] == t})
            ok = ["z"] if not work[:, t].any() else []
            for tid in ids:
                trs = [rigid(s) for s in c["init"]]
                trs[t] = rigid(shift_of(t, tid))
                fresh = G.Realign4dAlgorithm(G.Image4d(np.asarray(data).astype(np.float64), H(aff), tr=float(c["tr"]),
                                                       slice_times=[float(x) for x in st], slice_info=(ax, dirn)),
                                             transforms=trs, time_interp=tin, subsampling=(1, 1, 1), borders=(0, 0, 0))
                fresh.resample(t)
                if np.allclose(fresh.data[:, t], work[:, t], rtol=0, atol=tol):
                    ok.append(f"{tid}" + ("=" if tid == cur[t] else "!"))
            accept.append(ok)
        lines = ["alghist " + str(nt) + " " + str(len(step["ops"])) + " " +
                 " ".join(" ".join(map(str, op)) for op in step["ops"])]
        impl = [("prov", accept)]
        # the columns themselves
        for t in range(nt):
            if col[t] is None:
                if fail is None and work[:, t].any():
                    fail = f"Realign4dAlgorithm: column {t} of the working array is not zero before any resample({t})"
                continue
            s = shift_of(t, col[t])
            exp = expected(s, t, tin, False)
            # the working grid is the full grid here (subsampling 1, no borders), C order
            fail = fail or self._check_expected(
                f"Realign4dAlgorithm(time_interp={tin}).resample({t}) after {step['ops']}, whole-voxel shift {s}, "
                f"slice axis {ax} direction {dirn}, slice times {c['stmode']}", work[:, t], exp, tol,
                "the voxel's time series at the acquisition time of its slice", sc)
            M = t_aff(s)
            if t in calls:
                X, Y, Z, T, _ = calls[t]
                pts = " ".join(" ".join(str(int(a)) for a in v) for v in xyz)
                if tin:
                    lines.append(f"realign4 {aff_txt(affInv)} {aff_txt(aff)} {aff_txt(M)} {dirn} {ax} {fr(c['tr'])} "
                                 f"{len(st)} {frs(st)} {t} 2 {' '.join(map(str, sshape))} {nt} "
                                 f"{frs(data.ravel().tolist())} {len(xyz)} {pts}")
                    impl.append(("r4", np.array([X, Y, Z, T]).T.tolist(), work[:, t].tolist(), tol))
        return fail, lines, impl

    # ---- ImageInterpolator: one object, several operations ---------------------------------------
    def _gen_ihist(self, rng):
        n = rng.choice([2, 3, 3])
        sshape = self._shape(rng, n)
        from harness.props.C04 import pick_mode, pick_sdtype, rand_dyadic_affine
        src = rand_dyadic_affine(rng, n)
        mode = rng.choice(["constant", "grid-constant", "grid-constant", "nearest"] + MODES)
        order = rng.choice([0, 1, 2, 3, 3, 4, 5])
        container = rng.choice(["array", "array", "memmap", "F", "readonly", "proxy"])

        def pts():
            out = []
            reach = rng.choice([2, 6, 15])
            for _ in range(rng.choice([1, 4, 9])):
                if rng.random() < 0.75:
                    v = [Fraction(rng.randrange(-reach, s + reach)) for s in sshape]
                else:
                    v = [Fraction(rng.randrange(-2, 2 * s + 2)) / 2 for s in sshape]
                out.append([float(x) for x in f_apply(src, v)])
            return out
        ops = [["ev", pts()]]
        for _ in range(rng.choice([1, 2, 4, 6])):
            r = rng.random()
            if r < 0.3:
                ops.append(["cv", rng.choice([0.0, -3.0, 50.0, -7.5, 2.5])])
            elif r < 0.5 and container in ("array", "memmap", "F"):
                ops.append(["im", rng.randrange(10 ** 6)])
            elif r < 0.58:
                ops.append(["so", rng.choice([0, 1, 3, 5])])
            elif r < 0.66:
                ops.append(["sm", rng.choice(MODES)])
            else:
                ops.append(["ev", pts()])
        ops.append(["ev", pts()])
        return {"kind": "ihist", "n": n, "sshape": sshape, "src": tofloat(src), "order": order, "mode": mode,
                "cval": rng.choice([0.0, -3.0, 50.0, -7.5]), "dseed": rng.randrange(10 ** 6),
                "sdtype": pick_sdtype(rng), "container": container, "ops": ops}

    def _run_ihist(self, c):
        import tempfile
        from nipy.core.api import AffineTransform, CoordinateSystem, Image
        import nipy.algorithms.interpolation as I
        n, sshape = c["n"], c["sshape"]
        src = F(c["src"])
        srcInv = f_inv(src)
        mode, order, sdt = c["mode"], c["order"], c.get("sdtype", "float64")
        arr = make_typed(c["dseed"], sshape, sdt)
        if c["container"] == "memmap":
            obj = np.memmap(tempfile.TemporaryFile(), dtype=arr.dtype, mode="w+", shape=tuple(sshape))
            obj[...] = arr
        else:
            obj = lay_out(arr, {"array": "C"}.get(c["container"], c["container"]))
        data0 = np.array(arr, dtype=float)      # a copy: the caller's array is edited below
        cur = data0.copy()
        versions = [data0]
        img = Image(obj, AffineTransform(CoordinateSystem(list("ijk"[:n]), "v"),
                                         CoordinateSystem(list("xyz"[:n]), "w"), H(src)))
        cap = {}
        o_mc = I.map_coordinates

        def mc(inp, coords, **kw):
            cap["mc"] = (np.array(coords, float), tuple(inp.shape))
            return o_mc(inp, coords, **kw)

        tags = ["ihist", f"order={order}", "mode=" + mode, "container=" + c["container"], "sdtype=" + sdt]
        sc = scale_of(data0)
        tol = 1e-7 * sc
        cval = c["cval"]
        fail = None
        obs = []
        optxt = []
        I.map_coordinates = mc
        try:
            interp = I.ImageInterpolator(img, order=order, mode=mode, cval=cval)
            for op in c["ops"]:
                if op[0] == "ev":
                    p = np.array(op[1], float).T
                    raw = np.asarray(interp.evaluate(p.copy()))
                    vals = np.asarray(raw, float)
                    coords, kshape = cap["mc"]
                    obs.append(("ev", raw.dtype.name, list(kshape), coords.T.ravel().tolist(), vals.ravel().tolist(), tol))
                    optxt.append(f"ev {len(op[1])} {' '.join(frs(q) for q in op[1])}")
                    if fail is None:
                        fail = self._ihist_oracle(c, op[1], vals.ravel(), srcInv, versions, cval, tol, sc)
                elif op[0] == "cv":
                    interp.cval = op[1]
                    cval = op[1]
                    obs.append(("ok",)); optxt.append(f"cv {fr(op[1])}")
                    tags.append("cval-edit")
                elif op[0] == "im":
                    new = make_typed(op[1], sshape, sdt)
                    obj[...] = new                       # the caller edits the array it handed over
                    cur = np.array(new, dtype=float)
                    versions.append(cur)
                    obs.append(("ok",)); optxt.append(f"im {frs(cur.ravel().tolist())}")
                    tags.append("image-edit")
                else:
                    name = "order" if op[0] == "so" else "mode"
                    try:
                        setattr(interp, name, op[1])
                        obs.append(("str", "accepted"))
                    except Exception as e:   # noqa
                        obs.append(("err", errname(e)))
                    optxt.append(f"{op[0]} {op[1]}")
                    tags.append("readonly-edit")
        except Exception as e:   # noqa
            return {"lines": [], "impl": [], "nontrivial": True, "tags": tags + ["raised"],
                    "oracle": f"ImageInterpolator(order={order}, mode={mode}) history {[o[0] for o in c['ops']]} raised "
                              f"{type(e).__name__}: {e} (image data {sdt}, {c['container']})"}
        finally:
            I.map_coordinates = o_mc
        line = (f"ihist {n} {aff_txt(srcInv)} {aff_txt(src)} {order} {mode} {sdt} {' '.join(map(str, sshape))} "
                f"{frs(data0.ravel().tolist())} {fr(c['cval'])} {len(optxt)} {' '.join(optxt)}")
        return {"lines": [line], "impl": [("ihist", obs)], "oracle": fail, "nontrivial": True, "tags": tags,
                "mutated": None}

    def _ihist_oracle(self, c, pts, vals, srcInv, versions, cval, tol, sc):
        """property clauses on one `evaluate`: a world point that is a voxel centre returns that
        voxel's sample (of the image as it was at some moment since the interpolator was built —
        the property does not say which; the model does); outside, the *current* fill value for the
        filling modes"""
        from harness.props.c04_lib import LOOSE
        mode, order, sshape = c["mode"], c["order"], c["sshape"]
        who = (f"ImageInterpolator(order={order}, mode={mode}, image data {c.get('sdtype')} [{c['container']}]) after "
               f"{[o[0] if o[0] != 'cv' else 'cval=' + str(o[1]) for o in c['ops']]}")
        for p, got in zip(pts, vals):
            x = f_apply(srcInv, [Fraction(t) for t in p])
            if not all(t.denominator == 1 for t in x):
                continue
            q = tuple(int(t) for t in x)
            if inside(q, sshape):
                cands = {float(d_[q]) for d_ in versions}
                t_ = tol
                what = "the image sample there"
            else:
                e = [ext_index(mode, s, t) for s, t in zip(sshape, q)]
                if any(t is None for t in e):
                    cands = {float(cval)}
                    what = "the current fill value"
                else:
                    cands = {float(d_[tuple(e)]) for d_ in versions}
                    what = "the boundary-extended image sample"
                t_ = tol if (mode == "constant" or ext_exact(mode, order)) else max(tol, LOOSE * sc)
            if not any(abs(got - e_) <= t_ for e_ in cands):
                return (f"{who}: evaluate at world point {p} (voxel {q}) returns {got!r}, {what} is "
                        f"{sorted(cands)}")
        return None

    # ---- algorithms.resample.resample between spaces of different dimension ---------------------
    def _gen_resamplek(self, rng):
        from harness.props.C04 import pick_mode, pick_sdtype, rand_dyadic_affine
        n, m, k = rng.choice([(3, 3, 2), (3, 3, 2), (3, 3, 1), (2, 2, 1), (3, 4, 4), (3, 4, 4), (2, 3, 3), (2, 4, 4),
                              (2, 3, 2), (3, 4, 3), (3, 3, 3), (2, 2, 2), (3, 4, 2)])
        variant = rng.choice(["general", "general", "tgt-ident", "src-ident", "both-ident"]) if n == m == k \
            else rng.choice(["general", "general", "general", "src-ident"])
        sshape = self._shape(rng, n)
        src = f_ident(n) if variant in ("src-ident", "both-ident") else rand_dyadic_affine(rng, n)
        task = rng.choice(["lookup", "lookup", "lookup", "sub"])
        # Z' : image voxel <- world-like coordinates (integer steps along distinct axes, or a constant index)
        axes = list(range(m))
        rng.shuffle(axes)
        Zp = []
        den = 1 if task == "lookup" else rng.choice([2, 2, 4])
        for i in range(n):
            row = [Fraction(0)] * m
            if i < m and rng.random() < 0.9:
                row[axes[i]] = Fraction(rng.choice([1, 1, -1, 2]))
            off = Fraction(rng.randrange(-1 * den, sshape[i] * den + 1), den)
            if row[axes[i] if i < m else 0] < 0:
                off = Fraction(sshape[i] - 1) - Fraction(rng.randrange(0, den + 1), den)
            Zp.append(row + [off])
        # J : grid axis j -> world-like axis, the other coordinates constant
        emb = rng.sample(range(m), k)
        J = [[Fraction(int(emb[j] == i)) for j in range(k)] + [Fraction(0 if i in emb else rng.choice([0, 1, 2]))]
             for i in range(m)]
        W = f_ident(m) if variant in ("tgt-ident", "both-ident") else rand_dyadic_affine(rng, m)
        tgt = f_comp(W, J)
        mapping = f_comp(src, f_comp(Zp, f_inv(W)))
        if not (is_exact(tgt) and is_exact(mapping)):
            W = f_ident(m)
            tgt, mapping = f_comp(W, J), f_comp(src, Zp)
        if not is_exact(mapping):
            src = f_ident(n)
            mapping = [list(r) for r in Zp]
        tshape = [rng.choice([1, 2, 3, 4]) for _ in range(k)]
        order = rng.choice([0, 1, 1]) if task == "sub" else rng.choice([0, 1, 2, 3, 3, 5])
        return {"kind": "resamplek", "n": n, "m": m, "k": k, "variant": variant, "sshape": sshape, "tshape": tshape,
                "src": tofloat(src), "mapping": tofloat(mapping), "tgt": tofloat(tgt), "task": task,
                "mkind": rng.choice(["matrix", "pair", "affobj", "callable", "cmapobj"]), "order": order,
                "mode": pick_mode(rng), "cval": rng.choice([0.0, 0.0, -7.5, 100.0, 2.5]),
                "dseed": rng.randrange(10 ** 6), "sdtype": pick_sdtype(rng), "layout": rng.choice(LAYOUTS)}

    def _run_resamplek(self, c):
        from nipy.core.api import AffineTransform, CoordinateMap, CoordinateSystem, Image
        import nipy.algorithms.resample as R
        import nipy.algorithms.interpolation as I
        n, m, k, sshape, tshape = c["n"], c["m"], c["k"], c["sshape"], c["tshape"]
        src, mp, tgt = F(c["src"]), F(c["mapping"]), F(c["tgt"])
        srcInv = f_inv(src)
        M = f_comp(srcInv, f_comp(mp, tgt))
        mode, order, sdt, mk = c["mode"], c["order"], c.get("sdtype", "float64"), c["mkind"]
        arr = make_typed(c["dseed"], sshape, sdt)
        obj = lay_out(arr, c.get("layout", "C"))
        data = np.array(arr, dtype=np.float64)
        vcs = CoordinateSystem(list("ijkl"[:n]), "vox")
        swcs = CoordinateSystem(["w%d" % i for i in range(n)], "srcworld")
        twcs = CoordinateSystem(["u%d" % i for i in range(m)], "tgtworld")
        tvcs = CoordinateSystem(["t%d" % i for i in range(k)], "tvox")
        img = Image(obj, AffineTransform(vcs, swcs, H(src)))
        tcm = AffineTransform(tvcs, twcs, H(tgt))
        Mh = H(mp)                                         # (n+1) x (m+1)
        if mk == "matrix":
            mapping = Mh.copy()
        elif mk == "pair":
            mapping = (Mh[:n, :m].copy(), Mh[:n, m].copy())
        elif mk == "affobj":
            mapping = AffineTransform(twcs, swcs, Mh.copy())
        elif mk == "cmapobj":
            mapping = CoordinateMap(twcs, swcs, lambda x: np.dot(x, Mh[:n, :m].T) + Mh[:n, m])
        else:
            mapping = lambda x: np.dot(x, Mh[:n, :m].T) + Mh[:n, m]
        cap = {}
        o_at, o_mc = R.affine_transform, I.map_coordinates

        def at(inp, matrix, offset=0.0, **kw):
            cap["at"] = (np.array(matrix, float), np.array(offset, float))
            return o_at(inp, matrix, offset=offset, **kw)

        def mc(inp, coords, **kw):
            cap["mc"] = np.array(coords, float)
            return o_mc(inp, coords, **kw)

        snap = Snapshot(data=base_array(obj), taff=tcm.affine, saff=img.coordmap.affine)
        R.affine_transform, I.map_coordinates = at, mc
        tags = ["resamplek", f"dims={n}{m}{k}", "variant=" + c["variant"], "mapping=" + mk, "task=" + c["task"],
                f"order={order}", "mode=" + mode, "sdtype=" + sdt]
        try:
            out = R.resample(img, tcm, mapping, tuple(tshape), order=order, mode=mode, cval=c["cval"])
        except Exception as e:   # noqa
            return {"lines": [], "impl": [], "nontrivial": True, "tags": tags + ["raised"],
                    "oracle": f"resample of a {n}-D image (world {n}-D) onto a {k}-D grid in a {m}-D world raised "
                              f"{type(e).__name__}: {e} (mapping given as {mk}, order {order}, mode {mode}, image "
                              f"data {sdt}, {c.get('layout', 'C')})"}
        finally:
            R.affine_transform, I.map_coordinates = o_at, o_mc
        mut = snap.changed()
        raw = np.asarray(out.get_fdata())
        res = np.asarray(raw, float)
        lk = "callable" if mk in ("callable", "cmapobj") else mk
        head = f"resamplek {n} {m} {k} {lk} {aff_txt(srcInv)} {aff_txt(src)} {aff_txt(mp)} {aff_txt(tgt)}"
        lines, impl = [], []
        if "at" in cap:
            A, b = cap["at"]
            if A.ndim == 1:
                A = np.diag(A)
            lines.append(head + " mat")
            impl.append(("pathmat", "affine_transform", np.hstack([A, b.reshape(-1, 1)]).ravel().tolist()))
            pre = "affine_transform "
        else:
            pre = "interpolator "
            if "mc" in cap:
                lines.append(head + f" coords {order} {mode} {' '.join(map(str, tshape))}")
                impl.append(("pcoords", "interpolator ", cap["mc"].T.ravel().tolist()))
        lines.append(head + f" dtype {sdt} none {order}")
        impl.append(("dtype", pre, raw.dtype.name))
        fail = None
        if out.coordmap != tcm:
            fail = "resample: result coordmap differs from the target coordmap"
        elif list(res.shape) != list(tshape):
            fail = f"resample: result shape {res.shape} is not the requested shape {tuple(tshape)}"
        sc = scale_of(data)
        tol = 1e-7 * sc
        who = (f"resample({n}-D image, {k}-D grid in a {m}-D world, {c['variant']}, mapping as {mk}, order {order}, "
               f"mode {mode}, cval {c['cval']}, image data {sdt} [{c.get('layout', 'C')}])")
        if c["task"] == "lookup":
            exp = self._expect_lookup(M, tshape, data, c["cval"], mode, order)
            fail = fail or self._check_expected(who, res, exp, tol, "the source sample at the mapped grid point "
                                                "(boundary mode / fill value outside)", sc)
            lines.append(head + " " + self._lookup_tail(sdt, None, order, mode, tshape, data, c["cval"]))
            impl.append(("tvals", pre, raw.dtype.name, res.ravel().tolist(), tol, [], False))
        else:
            ref = self._generic_ref(data, M, tshape, order, mode, c["cval"], exact=True)
            fail = fail or self._check_expected(who, res, ref, 1e-6 * sc, "the source interpolated at the mapped "
                                                "location", sc)
            lines.append(head + " " + self._sub_tail(sdt, None, order, mode, tshape, data, c["cval"]))
            impl.append(("tvals", pre, raw.dtype.name, res.ravel().tolist(), tol, [], False))
        return {"lines": lines, "impl": impl, "oracle": fail, "nontrivial": True, "tags": tags, "mutated": mut}

    # ---- comparison of the wave-3 observation kinds ---------------------------------------------
    def _compare_w3(self, case, impl_obs, model_out):
        kind = impl_obs[0]
        if model_out.startswith(("error", "bad-op")):
            return f"model says {model_out}"
        if kind == "prov":
            toks = model_out.split()
            if len(toks) != len(impl_obs[1]):
                return f"column count impl={len(impl_obs[1])} model={len(toks)}"
            for t, (tok, ok) in enumerate(zip(toks, impl_obs[1])):
                if tok not in ok:
                    return f"column {t}: the object's column matches {ok}, the model says {tok}"
            return None
        if kind == "r4":
            coords, vals, tol = impl_obs[1], impl_obs[2], impl_obs[3]
            parts = model_out.split(" | ")
            if len(parts) != len(coords):
                return f"point count impl={len(coords)} model={len(parts)}"
            ax, nsl = case["ax"], case["sshape"][case["ax"]]
            for k, (part, cxyz, v) in enumerate(zip(parts, coords, vals)):
                toks = part.split()
                mc = [float(Fraction(x)) for x in toks[:4]]
                if any(abs(a - b) > 1e-9 * max(1.0, abs(b)) for a, b in zip(cxyz[:3], mc[:3])):
                    return f"grid point #{k}: coordinates impl={cxyz} model={mc}"
                if not (0 <= mc[ax] <= nsl - 1):
                    # outside the slice stack interp_slice_times jumps at whole stacks (it adds them in
                    # slice units): round-off in the slice coordinate decides the time there - no claim
                    continue
                if abs(cxyz[3] - mc[3]) > 1e-9 * max(1.0, abs(mc[3])):
                    return f"grid point #{k}: coordinates impl={cxyz} model={mc}"
                if toks[4] != "x" and abs(v - float(Fraction(toks[4]))) > tol:
                    return f"grid point #{k}: impl={v!r} model={float(Fraction(toks[4]))!r}"
            return None
        if kind == "pcoords":
            if not model_out.startswith(impl_obs[1]):
                return f"routine impl={impl_obs[1].strip()} model={model_out.split(' ', 1)[0]}"
            return self.compare(case, ("coords", impl_obs[2]), model_out[len(impl_obs[1]):])
        if kind == "ihist":
            parts = model_out.split(" ; ")
            if len(parts) != len(impl_obs[1]):
                return f"operation count impl={len(impl_obs[1])} model={len(parts)}"
            for k, (part, ob) in enumerate(zip(parts, impl_obs[1])):
                if ob[0] == "ok":
                    if part != "ok":
                        return f"operation #{k}: accepted by the object, model says {part}"
                elif ob[0] in ("err", "str"):
                    if part != ob[1]:
                        return f"operation #{k}: impl={ob[1]} model={part}"
                else:
                    d = self.compare(case, ("interp",) + tuple(ob[1:]), part)
                    if d:
                        return f"operation #{k} (evaluate): {d}"
            return None
        return "unknown observation kind"
