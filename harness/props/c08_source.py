"""C08 expression translator: the *expressions and tests* the property hinges on, regenerated from
/repo's text of nipy/algorithms/registration/{affine.py, transform.py, chain_transform.py} as Lean
terms over the model's types (`V3`, `M3`, `Aff`, `Vec12`, `Xf`) -> lean/NipyVerif/Gen/C08Source.lean.

Function bodies are translated statement by statement (assignment -> `let`, `if / elif / else` ->
`if … then … else …` with the rest of the body continued in both arms, sub-block assignment
`T[0:3, 0:3] = …` / `vec12[3:6] = …` -> record update), expressions operator by operator with the
type of every sub-term tracked (`np.dot` of two 3x3 -> `M3.mul`, scalar * matrix -> `M3.smul`, …).
Transcendental / LAPACK calls are *named leaves* (parameters of the generated definition); a leaf is
recognised by its exact source text, so an edit of a leaf's argument is a TieBroken as well.

`Props/C08Source.lean` proves that each generated definition is what the model implements
(`*_as_modelled`) and derives the property's clauses `*_from_source` from them, so an edit of a
source expression breaks a proof obligation (or the translator), and the check widens its search.
"""
from __future__ import annotations

import ast
import os
import re
from fractions import Fraction

from harness.core import REPO, TieBroken

AFF = "nipy/algorithms/registration/affine.py"
TRF = "nipy/algorithms/registration/transform.py"
CHAIN = "nipy/algorithms/registration/chain_transform.py"

LEAN_T = {"Q": "Rat", "V": "V3", "M": "M3", "A": "Aff", "B": "Bool", "N": "Nat", "L": "List Rat",
          "X": "Xf", "F": "V3 → V3", "W": "Vec12", "OA": "Option Aff", "MV": "M3 → V3"}


def _src(rel):
    try:
        return open(os.path.join(REPO, rel)).read()
    except OSError as e:
        raise TieBroken(f"cannot read {rel}: {e}")


def _tree(rel):
    try:
        return ast.parse(_src(rel))
    except SyntaxError as e:
        raise TieBroken(f"{rel} does not parse: {e}")


def _rat(x):
    if isinstance(x, bool):
        raise TieBroken("boolean where a number is expected")
    f = Fraction(x)
    if f.denominator == 1:
        return f"({f.numerator} : Rat)"
    return f"(({f.numerator} : Rat) / {f.denominator})"


def _func(tree, name, cls=None):
    body = tree.body
    if cls is not None:
        for n in body:
            if isinstance(n, ast.ClassDef) and n.name == cls:
                body = n.body
                break
        else:
            raise TieBroken(f"class {cls} not found")
    for n in body:
        if isinstance(n, ast.FunctionDef) and n.name == name:
            return n
    raise TieBroken(f"{cls + '.' if cls else ''}{name} not found")


def _strip_doc(body):
    if body and isinstance(body[0], ast.Expr) and isinstance(body[0].value, ast.Constant) \
            and isinstance(body[0].value.value, str):
        return body[1:]
    return body


def _slice_bounds(s):
    """a:b with constant (or omitted lower) bounds -> (a, b)"""
    if not isinstance(s, ast.Slice) or s.step is not None or s.upper is None:
        return None
    lo = 0 if s.lower is None else (s.lower.value if isinstance(s.lower, ast.Constant) else None)
    hi = s.upper.value if isinstance(s.upper, ast.Constant) else None
    if not isinstance(lo, int) or not isinstance(hi, int):
        return None
    return lo, hi


class Tr:
    """typed translation of one function body"""

    def __init__(self, where, env=None, leaves=None, consts=None):
        self.where = where
        self.env = dict(env or {})          # python name -> (lean term, type)
        self.leaves = dict(leaves or {})    # exact source text -> (lean term, type) | [(lean, type), …]
        self.consts = dict(consts or {})    # module constant -> lean term (type Q)
        self.used_leaves = set()

    def bad(self, node, why="not recognised"):
        txt = ast.unparse(node) if isinstance(node, ast.AST) else str(node)
        raise TieBroken(f"{self.where}: `{txt}` {why}")

    # ---------------------------------------------------------------- expressions
    def e(self, node):
        txt = ast.unparse(node)
        if txt in self.leaves and not isinstance(self.leaves[txt], list):
            self.used_leaves.add(txt)
            return self.leaves[txt]
        if isinstance(node, ast.Constant):
            if node.value is True:
                return "true", "B"
            if node.value is False:
                return "false", "B"
            if isinstance(node.value, (int, float)):
                return _rat(node.value), "Q"
            self.bad(node)
        if isinstance(node, ast.Name):
            if node.id in self.env:
                return self.env[node.id]
            if node.id in self.consts:
                return self.consts[node.id], "Q"
            self.bad(node, "is an unknown name")
        if isinstance(node, ast.UnaryOp):
            a, t = self.e(node.operand)
            if isinstance(node.op, ast.USub):
                if t == "Q":
                    return f"(-{a})", "Q"
                if t == "M":
                    return f"(M3.neg {a})", "M"
                if t == "V":
                    return f"(V3.neg {a})", "V"
            if isinstance(node.op, ast.Not) and t == "B":
                return f"(!{a})", "B"
            self.bad(node)
        if isinstance(node, ast.BinOp):
            if isinstance(node.op, ast.Pow):
                a, ta = self.e(node.left)
                if ta == "Q" and isinstance(node.right, ast.Constant) and isinstance(node.right.value, int) \
                        and node.right.value >= 0:
                    return f"({a} ^ {node.right.value})", "Q"
                self.bad(node)
            a, ta = self.e(node.left)
            b, tb = self.e(node.right)
            op = type(node.op)
            table = {
                (ast.Add, "Q", "Q"): (f"({a} + {b})", "Q"),
                (ast.Sub, "Q", "Q"): (f"({a} - {b})", "Q"),
                (ast.Mult, "Q", "Q"): (f"({a} * {b})", "Q"),
                (ast.Div, "Q", "Q"): (f"({a} / {b})", "Q"),
                (ast.Add, "M", "M"): (f"(M3.add {a} {b})", "M"),
                (ast.Add, "V", "V"): (f"(V3.add {a} {b})", "V"),
                (ast.Sub, "V", "V"): (f"(V3.sub {a} {b})", "V"),
                (ast.Mult, "Q", "M"): (f"(M3.smul {a} {b})", "M"),
                (ast.Mult, "Q", "V"): (f"(V3.smul {a} {b})", "V"),
                (ast.Div, "V", "Q"): (f"(V3.sdiv {a} {b})", "V"),
                (ast.Div, "M", "Q"): (f"(M3.sdiv {a} {b})", "M"),
            }
            if (op, ta, tb) in table:
                return table[(op, ta, tb)]
            self.bad(node, f"has no translation for operand types {ta}, {tb}")
        if isinstance(node, ast.Compare):
            if len(node.ops) != 1:
                self.bad(node)
            a, ta = self.e(node.left)
            rn = node.comparators[0]
            if ta == "N" and isinstance(rn, ast.Constant) and isinstance(rn.value, int) and rn.value >= 0:
                b, tb = str(rn.value), "N"
            else:
                b, tb = self.e(rn)
            sym = {ast.Gt: ">", ast.Lt: "<", ast.GtE: "≥", ast.LtE: "≤", ast.Eq: "="}.get(type(node.ops[0]))
            if sym is None or ta != tb or ta not in ("Q", "N"):
                self.bad(node)
            return f"(decide ({a} {sym} {b}))", "B"
        if isinstance(node, ast.Subscript):
            a, ta = self.e(node.value)
            if ta == "V" and isinstance(node.slice, ast.Constant) and node.slice.value in (0, 1, 2):
                return f"{a}.{'xyz'[node.slice.value]}", "Q"
            self.bad(node)
        if isinstance(node, ast.Lambda):
            if len(node.args.args) != 1 or node.args.defaults or node.args.vararg or node.args.kwarg:
                self.bad(node)
            nm = node.args.args[0].arg
            sub = Tr(self.where, self.env | {nm: (nm, "V")}, self.leaves, self.consts)
            body, tb = sub.e(node.body)
            self.used_leaves |= sub.used_leaves
            if tb != "V":
                self.bad(node)
            return f"(fun ({nm} : V3) => {body})", "F"
        if isinstance(node, ast.Call):
            return self.call(node)
        self.bad(node)

    def call(self, node):
        f = ast.unparse(node.func)
        args = node.args
        kw = {k.arg: k.value for k in node.keywords}
        if f == "np.eye" and len(args) == 1 and isinstance(args[0], ast.Constant):
            if args[0].value == 3 and not kw:
                return "M3.one", "M"
            if args[0].value == 4 and set(kw) <= {"dtype"}:
                return "Aff.one", "A"
        if f == "np.zeros" and len(args) == 1 and ast.unparse(args[0]) in ("(12,)", "12") and not kw:
            return "Vec12.zero", "W"
        if f == "np.dot" and len(args) == 2 and not kw:
            a, ta = self.e(args[0])
            b, tb = self.e(args[1])
            if (ta, tb) == ("M", "M"):
                return f"(M3.mul {a} {b})", "M"
            if (ta, tb) == ("A", "A"):
                return f"(Aff.mul {a} {b})", "A"
            if (ta, tb) == ("M", "V"):
                return f"(M3.mulVec {a} {b})", "V"
            self.bad(node, f"np.dot of {ta}, {tb}")
        if f == "np.array" and len(args) == 1 and not kw and isinstance(args[0], ast.List):
            rows = args[0].elts
            if len(rows) == 3 and all(isinstance(r, ast.List) and len(r.elts) == 3 for r in rows):
                ent = []
                for r in rows:
                    for x in r.elts:
                        a, t = self.e(x)
                        if t != "Q":
                            self.bad(node)
                        ent.append(a)
                return "(⟨" + ", ".join(ent) + "⟩ : M3)", "M"
            ent = []
            for x in rows:
                a, t = self.e(x)
                if t != "Q":
                    self.bad(node)
                ent.append(a)
            return "[" + ", ".join(ent) + "]", "L"
        if f in ("np.array", "np.asarray") and len(args) == 1 and not isinstance(args[0], ast.List) \
                and set(kw) <= {"copy", "dtype", "order"} and "dtype" in kw \
                and ast.unparse(kw["dtype"]) in ("'double'", "np.double", "float", "np.float64"):
            return self.e(args[0])          # conversion to a double array: the values are kept
        if f == "apply_affine" and len(args) == 2 and not kw:
            a, ta = self.e(args[0])
            b, tb = self.e(args[1])
            if (ta, tb) == ("A", "V"):
                return f"(Aff.apply {a} {b})", "V"
        if f == "np.diag" and len(args) == 1 and not kw:
            a, t = self.e(args[0])
            if t == "V":
                return f"(M3.diag {a})", "M"
        if f in ("np.maximum", "np.minimum") and len(args) == 2 and not kw:
            a, ta = self.e(args[0])
            b, tb = self.e(args[1])
            if (ta, tb) == ("Q", "Q"):
                return f"({'max' if f == 'np.maximum' else 'min'} {a} {b})", "Q"
        if f == "threshold" and len(args) == 2 and not kw:
            a, ta = self.e(args[0])
            b, tb = self.e(args[1])
            if tb == "Q" and ta == "Q":
                return f"(thresholdSrc {a} {b})", "Q"
            if tb == "Q" and ta == "V":
                return f"(thresholdVSrc {a} {b})", "V"
        if f == "spl.det" and len(args) == 1 and not kw:
            a, t = self.e(args[0])
            if t == "M":
                return f"(M3.det {a})", "Q"
        if f == "spl.inv" and len(args) == 1 and not kw:
            a, t = self.e(args[0])
            if t == "A":
                return f"(Aff.inv {a})", "OA"
        if f == "Transform" and len(args) == 1 and not kw:
            a, t = self.e(args[0])
            if t == "F":
                return f"(Xf.gen {a})", "X"
        # function-valued names (parameters of the generated definition)
        if f in self.env and self.env[f][1] in ("F", "MV") and len(args) == 1 and not kw:
            a, t = self.e(args[0])
            fn, ft = self.env[f]
            if ft == "F" and t == "V":
                return f"({fn} {a})", "V"
            if ft == "MV" and t == "M":
                return f"({fn} {a})", "V"
        # methods of transform objects
        if isinstance(node.func, ast.Attribute) and len(args) == 1 and not kw:
            o, to = self.e(node.func.value)
            if to == "X" and node.func.attr == "compose":
                a, t = self.e(args[0])
                if t == "X":
                    return f"(Xf.compose {o} {a})", "X"
            if to == "X" and node.func.attr == "apply":
                a, t = self.e(args[0])
                if t == "V":
                    return f"(Xf.app {o} {a})", "V"
        self.bad(node)

    # ---------------------------------------------------------------- statements
    def block(self, stmts, final):
        """Lean term of a statement list; `final()` gives the value when the list falls off its end"""
        if not stmts:
            return final(self)
        s, rest = stmts[0], stmts[1:]
        if isinstance(s, ast.Expr) and isinstance(s.value, ast.Constant) and isinstance(s.value.value, str):
            return self.block(rest, final)
        if isinstance(s, ast.Return):
            if s.value is None:
                self.bad(s)
            return self.e(s.value)[0]
        if isinstance(s, ast.If):
            c, tc = self.e(s.test)
            if tc != "B":
                self.bad(s.test)
            t1 = Tr(self.where, self.env, self.leaves, self.consts)
            t2 = Tr(self.where, self.env, self.leaves, self.consts)
            a = t1.block(list(s.body) + rest, final)
            b = t2.block(list(s.orelse) + rest, final)
            self.used_leaves |= t1.used_leaves | t2.used_leaves
            return f"(if {c} then {a} else {b})"
        if isinstance(s, ast.Assign) and len(s.targets) == 1:
            tg = s.targets[0]
            vtxt = ast.unparse(s.value)
            if isinstance(tg, ast.Tuple) and vtxt in self.leaves and isinstance(self.leaves[vtxt], list) \
                    and len(tg.elts) == len(self.leaves[vtxt]) and all(isinstance(x, ast.Name) for x in tg.elts):
                self.used_leaves.add(vtxt)
                out = ""
                for x, (ln, lt) in zip(tg.elts, self.leaves[vtxt]):
                    out += f"let {x.id} : {LEAN_T[lt]} := {ln}; "
                    self.env[x.id] = (x.id, lt)
                return f"({out}{self.block(rest, final)})"
            if isinstance(tg, ast.Name):
                v, t = self.e(s.value)
                self.env[tg.id] = (tg.id, t)
                return f"(let {tg.id} : {LEAN_T[t]} := {v}; {self.block(rest, final)})"
            if isinstance(tg, ast.Attribute) and ast.unparse(tg) == "self._direct":
                v, t = self.e(s.value)
                if t != "B":
                    self.bad(s)
                self.env["direct"] = ("direct", "B")
                return f"(let direct : Bool := {v}; {self.block(rest, final)})"
            if isinstance(tg, ast.Attribute) and ast.unparse(tg) == "self._vec12":
                v, t = self.e(s.value)
                if t != "W":
                    self.bad(s)
                self.env["vec12"] = ("vec12", "W")
                return f"(let vec12 : Vec12 := {v}; {self.block(rest, final)})"
            if isinstance(tg, ast.Subscript):
                return self.subassign(tg, s.value, rest, final, s)
        if isinstance(s, ast.AugAssign) and isinstance(s.op, ast.Mult) and isinstance(s.target, ast.Subscript):
            nm, part = self.subtarget(s.target, s)
            v, t = self.e(s.value)
            if part == "m" and t == "Q":
                return f"(let {nm} : Aff := ⟨M3.smul {v} {nm}.m, {nm}.t⟩; {self.block(rest, final)})"
        self.bad(s)

    def subtarget(self, tg, s):
        if not isinstance(tg.value, ast.Name) or tg.value.id not in self.env:
            self.bad(s)
        nm = tg.value.id
        t = self.env[nm][1]
        if t == "A" and isinstance(tg.slice, ast.Tuple) and len(tg.slice.elts) == 2:
            r, c = tg.slice.elts
            if _slice_bounds(r) == (0, 3) and _slice_bounds(c) == (0, 3):
                return nm, "m"
            if _slice_bounds(r) == (0, 3) and isinstance(c, ast.Constant) and c.value == 3:
                return nm, "t"
        if t == "W":
            b = _slice_bounds(tg.slice)
            if b is not None and b[1] - b[0] == 3 and b[0] in (0, 3, 6, 9):
                return nm, b[0]
        self.bad(s, "assigns to a sub-block that is not recognised")

    def subassign(self, tg, value, rest, final, s):
        nm, part = self.subtarget(tg, s)
        v, t = self.e(value)
        if part == "m" and t == "M":
            return f"(let {nm} : Aff := ⟨{v}, {nm}.t⟩; {self.block(rest, final)})"
        if part == "t" and t == "V":
            return f"(let {nm} : Aff := ⟨{nm}.m, {v}⟩; {self.block(rest, final)})"
        if isinstance(part, int):
            if t == "Q":            # NumPy broadcasts the scalar into the three slots
                v, t = f"(⟨{v}, {v}, {v}⟩ : V3)", "V"
            if t == "V":
                return f"(let {nm} : Vec12 := Vec12.setTriple {nm} {part} {v}; {self.block(rest, final)})"
        self.bad(s)


def _need_all(tr, where):
    missing = [k for k in tr.leaves if k not in tr.used_leaves]
    if missing:
        raise TieBroken(f"{where}: expected sub-expression(s) {missing} no longer occur")


def _no_final(where):
    def f(tr):
        raise TieBroken(f"{where}: the body no longer ends in a return on every path")
    return f


CONSTS = {"MAX_ANGLE": "Gen.C08.maxAngle", "SMALL_ANGLE": "Gen.C08.smallAngle", "MAX_DIST": "Gen.C08.maxDist",
          "TINY": "tinySrc"}


def extract():
    """-> list of (docstring, lean definition text)"""
    aff = _tree(AFF)
    out = []

    def emit(doc, text):
        out.append((doc, text))

    # TINY = float(np.finfo(np.double).tiny)
    tiny = None
    for n in aff.body:
        if isinstance(n, ast.Assign) and len(n.targets) == 1 and ast.unparse(n.targets[0]) == "TINY":
            if ast.unparse(n.value) not in ("float(np.finfo(np.double).tiny)", "float(np.finfo(np.float64).tiny)"):
                raise TieBroken(f"affine.py: TINY = `{ast.unparse(n.value)}` not recognised")
            tiny = "((1 : Rat) / (2 ^ 1022 : Nat))"
    if tiny is None:
        raise TieBroken("affine.py: TINY not found")
    emit("`TINY = float(np.finfo(np.double).tiny)` (smallest normal binary64)", f"def tinySrc : Rat := {tiny}")

    # threshold
    fn = _func(aff, "threshold")
    if [a.arg for a in fn.args.args] != ["x", "th"]:
        raise TieBroken("threshold: signature changed")
    tr = Tr("threshold", {"x": ("x", "Q"), "th": ("th", "Q")})
    emit("`threshold(x, th)`: " + ast.unparse(_strip_doc(fn.body)[0]),
         f"def thresholdSrc (x th : Rat) : Rat := {tr.block(_strip_doc(fn.body), _no_final('threshold'))}")
    emit("`threshold` on a length-3 slice (NumPy evaluates it entry by entry)",
         "def thresholdVSrc (v : V3) (th : Rat) : V3 := "
         "⟨thresholdSrc v.x th, thresholdSrc v.y th, thresholdSrc v.z th⟩")

    # rotation_vec2mat
    fn = _func(aff, "rotation_vec2mat")
    if [a.arg for a in fn.args.args] != ["r"]:
        raise TieBroken("rotation_vec2mat: signature changed")
    tr = Tr("rotation_vec2mat", {"r": ("r", "V")},
            {"np.sqrt(np.sum(r ** 2))": ("nrm", "Q"), "np.sin(theta)": ("s", "Q"), "np.cos(theta)": ("c", "Q")},
            CONSTS)
    body = tr.block(_strip_doc(fn.body), _no_final("rotation_vec2mat"))
    _need_all(tr, "rotation_vec2mat")
    emit("`rotation_vec2mat(r)` — leaves: `nrm` = `np.sqrt(np.sum(r ** 2))`, `s` = `np.sin(theta)`, "
         "`c` = `np.cos(theta)`",
         f"def rotationVec2MatSrc (r : V3) (nrm s c : Rat) : M3 :=\n  {body}")

    # to_matrix44
    fn = _func(aff, "to_matrix44")
    if [a.arg for a in fn.args.args] != ["t", "dtype"]:
        raise TieBroken("to_matrix44: signature changed")
    tr = Tr("to_matrix44", {},
            {"t.size": ("size", "N"), "rotation_vec2mat(t[3:6])": ("R0", "M"),
             "rotation_vec2mat(t[9:12])": ("Q0", "M"), "t[6]": ("t6", "Q"),
             "np.exp(threshold(t[6:9], LOG_MAX_DIST))": ("scales", "V"), "t[0:3]": ("tr", "V")}, CONSTS)
    body = tr.block(_strip_doc(fn.body), _no_final("to_matrix44"))
    _need_all(tr, "to_matrix44")
    emit("`to_matrix44(t, dtype)` — leaves: `size` = `t.size`, `R0` = `rotation_vec2mat(t[3:6])`, `Q0` = "
         "`rotation_vec2mat(t[9:12])`, `t6` = `t[6]`, `scales` = `np.exp(threshold(t[6:9], LOG_MAX_DIST))`, "
         "`tr` = `t[0:3]`",
         f"def toMatrix44Src (size : Nat) (R0 Q0 : M3) (t6 : Rat) (scales tr : V3) : Aff :=\n  {body}")

    # preconditioner
    fn = _func(aff, "preconditioner")
    if [a.arg for a in fn.args.args] != ["radius"]:
        raise TieBroken("preconditioner: signature changed")
    tr = Tr("preconditioner", {"radius": ("radius", "Q")})
    emit("`preconditioner(radius)`",
         f"def preconditionerSrc (radius : Rat) : List Rat :=\n  "
         f"{tr.block(_strip_doc(fn.body), _no_final('preconditioner'))}")

    # inverse_affine
    fn = _func(aff, "inverse_affine")
    tr = Tr("inverse_affine", {"affine": ("affine", "A")})
    emit("`inverse_affine(affine)` (`spl.inv` = exact inverse, refusal on a singular matrix)",
         f"def inverseAffineSrc (affine : Aff) : Option Aff := {tr.block(_strip_doc(fn.body), _no_final('inverse_affine'))}")

    # subgrid_affine: the returned product (after the integrality guard)
    fn = _func(aff, "subgrid_affine")
    b = _strip_doc(fn.body)
    if len(b) != 3 or ast.unparse(b[0]) != "slices_aff = slices2aff(slices)" or not isinstance(b[1], ast.If) \
            or ast.unparse(b[1].test) != "not np.all(slices_aff == np.round(slices_aff))" \
            or len(b[1].body) != 1 or not isinstance(b[1].body[0], ast.Raise) or b[1].orelse \
            or not ast.unparse(b[1].body[0]).startswith("raise ValueError("):
        raise TieBroken("subgrid_affine: shape not recognised")
    tr = Tr("subgrid_affine", {"affine": ("affine", "A"), "slices_aff": ("slices_aff", "A")})
    emit("`subgrid_affine`: what is returned once `np.all(slices_aff == np.round(slices_aff))` holds",
         f"def subgridAffineSrc (affine slices_aff : Aff) : Aff := {tr.block(b[2:], _no_final('subgrid_affine'))}")

    # Affine.as_affine
    fn = _func(aff, "as_affine", "Affine")
    tr = Tr("Affine.as_affine", {}, {"to_matrix44(self._vec12, dtype=dtype)": ("T0", "A"),
                                     "self._direct": ("direct", "B")})
    body = tr.block(_strip_doc(fn.body), _no_final("Affine.as_affine"))
    _need_all(tr, "Affine.as_affine")
    emit("`Affine.as_affine` — leaf `T0` = `to_matrix44(self._vec12, dtype=dtype)`",
         f"def asAffineSrc (T0 : Aff) (direct : Bool) : Aff :=\n  {body}")

    # Affine.apply
    fn = _func(aff, "apply", "Affine")
    b = _strip_doc(fn.body)
    if len(b) != 1 or ast.unparse(b[0]) != "return apply_affine(self.as_affine(), xyz)":
        raise TieBroken("Affine.apply: shape not recognised")
    emit("`Affine.apply`: `apply_affine(self.as_affine(), xyz)` on one point", "def applySrc (asAffine : Aff) (xyz : V3) : V3 := Aff.apply asAffine xyz")

    # Affine.compose: the affine branch
    fn = _func(aff, "compose", "Affine")
    b = _strip_doc(fn.body)
    txt = [ast.unparse(s) for s in b]
    for frag in ("other_aff = other.as_affine()", "a = klass()", "a._precond[:] = self._precond[:]", "return a"):
        if frag not in txt:
            raise TieBroken(f"Affine.compose: `{frag}` not found")
    if not (isinstance(b[0], ast.If) and ast.unparse(b[0].test) == "not hasattr(other, 'as_affine')"):
        raise TieBroken("Affine.compose: guard for non-affine operands not recognised")
    g = b[0].body
    if not (len(g) == 1 and isinstance(g[0], ast.If) and ast.unparse(g[0].test) == "hasattr(other, 'left_compose')"
            and [ast.unparse(x) for x in g[0].body] == ["return other.left_compose(self)"]
            and [ast.unparse(x) for x in g[0].orelse] == ["return Transform(self.apply).compose(other)"]):
        raise TieBroken("Affine.compose: non-affine branch not recognised")
    calls = [s for s in b if isinstance(s, ast.Expr) and isinstance(s.value, ast.Call)
             and ast.unparse(s.value.func) == "a.from_matrix44"]
    if len(calls) != 1 or len(calls[0].value.args) != 1:
        raise TieBroken("Affine.compose: `a.from_matrix44(…)` not found")
    tr = Tr("Affine.compose", {"other_aff": ("otherA", "A")}, {"self.as_affine()": ("selfA", "A")})
    m, t = tr.e(calls[0].value.args[0])
    _need_all(tr, "Affine.compose")
    if t != "A":
        raise TieBroken("Affine.compose: matrix handed to from_matrix44 not recognised")
    emit("`Affine.compose`: the matrix handed to `from_matrix44` (`selfA` = `self.as_affine()`, `otherA` = "
         "`other.as_affine()`)", f"def composeMatSrc (selfA otherA : Aff) : Aff := {m}")
    # generic fallback of Affine.compose: Transform(self.apply).compose(other)
    emit("`Affine.compose` onto a generic transform: `Transform(self.apply).compose(other)`",
         "def composeGenericSrc (selfX other : Xf) : Xf := Xf.compose (Xf.gen (fun (p : V3) => Xf.app selfX p)) other")

    # Affine.inv
    fn = _func(aff, "inv", "Affine")
    b = _strip_doc(fn.body)
    txt = [ast.unparse(s) for s in b]
    if txt[:2] != ["a = self.__class__()", "a._precond[:] = self._precond[:]"] or txt[-1] != "return a" or len(b) != 4:
        raise TieBroken("Affine.inv: shape not recognised")
    c = b[2]
    if not (isinstance(c, ast.Expr) and isinstance(c.value, ast.Call) and ast.unparse(c.value.func) == "a.from_matrix44"
            and len(c.value.args) == 1):
        raise TieBroken("Affine.inv: `a.from_matrix44(…)` not found")
    tr = Tr("Affine.inv", {}, {"self.as_affine()": ("selfA", "A")})
    m, t = tr.e(c.value.args[0])
    if t != "OA":
        raise TieBroken("Affine.inv: matrix handed to from_matrix44 not recognised")
    emit("`Affine.inv`: the matrix handed to `from_matrix44`", f"def invMatSrc (selfA : Aff) : Option Aff := {m}")

    # Affine.copy
    fn = _func(aff, "copy", "Affine")
    txt = [ast.unparse(s) for s in _strip_doc(fn.body)]
    want = ["new = self.__class__()", "new._direct = self._direct", "new._precond[:] = self._precond[:]",
            "new._vec12 = self._vec12.copy()", "return new"]
    if txt != want:
        raise TieBroken("Affine.copy: shape not recognised")
    emit("`Affine.copy`: the statements, in source order", "def copySrc : List String := ["
         + ", ".join('"' + x + '"' for x in want) + "]")

    # from_matrix44 of the three kinds
    def from44(cls, params, leaves, env, sig, doc):
        fn = _func(aff, "from_matrix44", cls)
        if [a.arg for a in fn.args.args] != ["self", "aff"]:
            raise TieBroken(f"{cls}.from_matrix44: signature changed")
        tr = Tr(f"{cls}.from_matrix44", {"direct": ("direct", "B"), "rotation_mat2vec": ("m2v", "MV")} | env,
                leaves, CONSTS)

        def fin(t):
            if "vec12" not in t.env or t.env["vec12"][1] != "W":
                raise TieBroken(f"{cls}.from_matrix44: `self._vec12 = vec12` not found")
            return "(vec12, direct)"
        body = _strip_doc(fn.body)
        if ast.unparse(body[-1]) != "self._vec12 = vec12":
            raise TieBroken(f"{cls}.from_matrix44: does not end in `self._vec12 = vec12`")
        text = tr.block(body, fin)
        _need_all(tr, f"{cls}.from_matrix44")
        emit(doc, f"def {sig} : Vec12 × Bool :=\n  {text}")

    from44("Affine", None,
           {"aff[:3, 3]": ("t", "V"), "spl.svd(aff[0:3, 0:3])": [("U", "M"), ("sv", "V"), ("Vt", "M")],
            "np.log(np.maximum(s, TINY))": ("logs", "V")}, {},
           "affineFrom44Src (m2v : M3 → V3) (direct : Bool) (t : V3) (U : M3) (sv : V3) (Vt : M3) (logs : V3)",
           "`Affine.from_matrix44` — `direct` = the flag before the call; leaves: `t` = `aff[:3, 3]`, `(U, sv, Vt)` "
           "= `spl.svd(aff[0:3, 0:3])`, `logs` = `np.log(np.maximum(s, TINY))`, `m2v` = `rotation_mat2vec`")
    from44("Rigid", None, {"aff[:3, 3]": ("t", "V"), "aff[:3, :3]": ("A", "M")}, {},
           "rigidFrom44Src (m2v : M3 → V3) (direct : Bool) (t : V3) (A : M3)",
           "`Rigid.from_matrix44` — leaves: `t` = `aff[:3, 3]`, `A` = `aff[:3, :3]`")
    from44("Similarity", None,
           {"aff[:3, 3]": ("t", "V"), "aff[:3, :3]": ("A0", "M"), "np.abs(detA) ** (1 / 3.0)": ("cbrt", "Q"),
            "np.log(s)": ("logS", "Q")}, {},
           "simFrom44Src (m2v : M3 → V3) (direct : Bool) (t : V3) (A0 : M3) (cbrt logS : Rat)",
           "`Similarity.from_matrix44` — leaves: `t` = `aff[:3, 3]`, `A0` = `aff[:3, :3]`, `cbrt` = "
           "`np.abs(detA) ** (1 / 3.)`, `logS` = `np.log(s)`")

    # param getter / setters
    fn = _func(aff, "_get_param", "Affine")
    if [ast.unparse(x) for x in _strip_doc(fn.body)] != ["param = self._vec12 / self._precond",
                                                          "return param[self.param_inds]"]:
        raise TieBroken("Affine._get_param: shape not recognised")
    emit("`Affine._get_param`: `param = self._vec12 / self._precond; return param[self.param_inds]`",
         "def getParamSrc (vec12 precond : Vec12) (inds : List Nat) : List Rat :=\n"
         "  (let param : Vec12 := vdiv vec12 precond; take param inds)")
    fn = _func(aff, "_set_param", "Affine")
    if [ast.unparse(x) for x in _strip_doc(fn.body)] != ["p = np.asarray(p)", "inds = self.param_inds",
                                                          "self._vec12[inds] = p * self._precond[inds]"]:
        raise TieBroken("Affine._set_param: shape not recognised")
    emit("`Affine._set_param`: `self._vec12[inds] = p * self._precond[inds]` with `inds = self.param_inds`",
         "def setParamSrc (vec12 precond : Vec12) (inds : List Nat) (p : List Rat) : Vec12 :=\n"
         "  scatter vec12 inds (lmul p (take precond inds))")

    def simset(cls, name):
        fn = _func(aff, "_set_param", cls)
        b = _strip_doc(fn.body)
        if len(b) != 2 or ast.unparse(b[0]) != "p = np.asarray(p)" or not isinstance(b[1], ast.Assign):
            raise TieBroken(f"{cls}._set_param: shape not recognised")
        tg, val = b[1].targets[0], b[1].value

        def idx(node):
            t = ast.unparse(node)
            m = re.fullmatch(r"list\(range\((\d+)\)\)", t)
            if m:
                return list(range(int(m.group(1))))
            try:
                v = ast.literal_eval(node)
            except Exception:
                raise TieBroken(f"{cls}._set_param: index `{t}` not recognised")
            if not (isinstance(v, list) and all(isinstance(x, int) and 0 <= x < 12 for x in v)):
                raise TieBroken(f"{cls}._set_param: index `{t}` not recognised")
            return v
        if not (isinstance(tg, ast.Subscript) and ast.unparse(tg.value) == "self._vec12"
                and isinstance(val, ast.BinOp) and isinstance(val.op, ast.Mult)
                and isinstance(val.left, ast.Subscript) and ast.unparse(val.left.value) == "p"
                and isinstance(val.right, ast.Subscript) and ast.unparse(val.right.value) == "self._precond"):
            raise TieBroken(f"{cls}._set_param: shape not recognised")
        tgt, src, pcs = idx(tg.slice), idx(val.left.slice), idx(val.right.slice)
        emit(f"`{cls}._set_param`: `{ast.unparse(b[1])}`",
             f"def {name} (vec12 precond : Vec12) (p : List Rat) : Vec12 :=\n"
             f"  scatter vec12 {tgt} (lmul (ltake p {src}) (take precond {pcs}))")
    simset("Similarity", "simSetParamSrc")
    simset("Similarity2D", "sim2dSetParamSrc")

    # scaling property
    g = [ast.unparse(s) for s in _strip_doc(_func(aff, "_get_scaling", "Affine").body)]
    s_ = [ast.unparse(s) for s in _strip_doc(_func(aff, "_set_scaling", "Affine").body)]
    if g != ["return np.exp(self._vec12[6:9])"] or s_ != ["self._vec12[6:9] = np.log(x)"]:
        raise TieBroken("Affine scaling property: shape not recognised")
    emit("`scaling` property: getter / setter, as text (exp and log are parameters of the model)",
         'def scalingSrc : List String := ["np.exp(self._vec12[6:9])", "self._vec12[6:9] = np.log(x)"]')

    # transform.py
    trf = _tree(TRF)
    fn = _func(trf, "compose", "Transform")
    tr = Tr("Transform.compose", {"self.apply": ("selfApply", "F"), "other.apply": ("otherApply", "F")})
    # attribute-valued function names: register through leaves on the unparsed callee
    tr.env["self.apply"] = ("selfApply", "F")
    tr.env["other.apply"] = ("otherApply", "F")
    emit("`Transform.compose(other)` — `selfApply` = `self.apply`, `otherApply` = `other.apply`",
         f"def genericComposeSrc (selfApply otherApply : V3 → V3) : Xf := "
         f"{tr.block(_strip_doc(fn.body), _no_final('Transform.compose'))}")
    fn = _func(trf, "apply", "Transform")
    if [ast.unparse(s) for s in _strip_doc(fn.body)] != ["return self.func(pts)"]:
        raise TieBroken("Transform.apply: shape not recognised")
    emit("`Transform.apply`", "def genericApplySrc (func : V3 → V3) (pts : V3) : V3 := func pts")

    # chain_transform.py
    ch = _tree(CHAIN)
    fn = _func(ch, "apply", "ChainTransform")
    tr = Tr("ChainTransform.apply", {"pts": ("pts", "V")},
            {"self.post": ("post", "X"), "self.optimizable": ("opt", "X"), "self.pre": ("pre", "X")})
    body = tr.block(_strip_doc(fn.body), _no_final("ChainTransform.apply"))
    _need_all(tr, "ChainTransform.apply")
    emit("`ChainTransform.apply(pts)`", f"def chainApplySrc (pre opt post : Xf) (pts : V3) : V3 :=\n  {body}")
    fn = _func(ch, "__init__", "ChainTransform")
    tests = [ast.unparse(s.test) + " ↦ " + "; ".join(ast.unparse(x) for x in s.body)
             for s in _strip_doc(fn.body) if isinstance(s, ast.If)]
    want = ["not hasattr(optimizable, 'param') ↦ raise ValueError('Input transform should be optimizable')",
            "not hasattr(optimizable, 'apply') ↦ optimizable = Affine(optimizable)",
            "not hasattr(pre, 'apply') ↦ pre = Affine(pre)",
            "not hasattr(post, 'apply') ↦ post = Affine(post)"]
    if tests != want:
        raise TieBroken(f"ChainTransform.__init__: guards changed: {tests}")
    emit("`ChainTransform.__init__`: the guards, in source order",
         "def chainInitSrc : List String := [" + ", ".join('"' + x.replace('"', "'") + '"' for x in want) + "]")
    _extract_poly(emit)
    return out


POLY_PY = "nipy/algorithms/registration/polyaffine.py"
POLY_C = "nipy/algorithms/registration/polyaffine.c"


def _glob_match(where, ifnode, name, env_none, env_some, leaves_some):
    """`if self.glob_affine is None: name = e1 / else: name = e2` -> the two Lean terms and their type"""
    if not (isinstance(ifnode, ast.If) and ast.unparse(ifnode.test) == "self.glob_affine is None"
            and len(ifnode.body) == 1 and len(ifnode.orelse) == 1):
        raise TieBroken(f"{where}: the `self.glob_affine is None` test is not recognised")
    res = []
    for st, env, leaves in ((ifnode.body[0], env_none, {}), (ifnode.orelse[0], env_some, leaves_some)):
        if not (isinstance(st, ast.Assign) and len(st.targets) == 1 and ast.unparse(st.targets[0]) == name):
            raise TieBroken(f"{where}: expected an assignment to `{name}` in both arms")
        tr = Tr(where, env, leaves)
        res.append(tr.e(st.value))
        _need_all(tr, where)
    if res[0][1] != res[1][1]:
        raise TieBroken(f"{where}: the two arms differ in type")
    return res[0][0], res[1][0], res[0][1]


def _extract_poly(emit):
    py = _tree(POLY_PY)
    # constructor: the sigma clamp
    fn = _func(py, "__init__", "PolyAffine")
    txt = [ast.unparse(s) for s in _strip_doc(fn.body)]
    if "self.sigma[:] = np.maximum(TINY_SIGMA, sigma)" not in txt:
        raise TieBroken("PolyAffine.__init__: `self.sigma[:] = np.maximum(TINY_SIGMA, sigma)` not found")
    emit("`PolyAffine.__init__`: `np.maximum(TINY_SIGMA, sigma)` per entry",
         "def sigClampSrc (sigma : Rat) : Rat := (max Gen.C08.tinySigma sigma)")
    # apply
    fn = _func(py, "apply", "PolyAffine")
    b = _strip_doc(fn.body)
    if len(b) != 3 or ast.unparse(b[1]) != "_apply_polyaffine(txyz, self.centers, self._affines, self.sigma)" \
            or ast.unparse(b[2]) != "return txyz":
        raise TieBroken("PolyAffine.apply: shape not recognised")
    n, s_, t = _glob_match("PolyAffine.apply", b[0], "txyz", {"xyz": ("xyz", "V")}, {"xyz": ("xyz", "V")},
                           {"self.glob_affine": ("g", "A")})
    if t != "V":
        raise TieBroken("PolyAffine.apply: `txyz` is not a point")
    emit("`PolyAffine.apply`: the point handed to the kernel (`txyz`), per row",
         f"def polyPreSrc (glob : Option Aff) (xyz : V3) : V3 := match glob with | none => {n} | some g => {s_}")
    # compose
    fn = _func(py, "compose", "PolyAffine")
    b = _strip_doc(fn.body)
    if len(b) != 3 or ast.unparse(b[0]) != "if not hasattr(other, 'as_affine'):\n    return Transform(self.apply).compose(other)" \
            or ast.unparse(b[2]) != "return self.__class__(self.centers, self.affines(), self.sigma, glob_affine=glob_affine)":
        raise TieBroken("PolyAffine.compose: shape not recognised")
    if not (isinstance(b[1], ast.If) and ast.unparse(b[1].test) == "self.glob_affine is None"
            and len(b[1].body) == 1 and len(b[1].orelse) == 1
            and all(isinstance(x, ast.Assign) and ast.unparse(x.targets[0]) == "glob_affine"
                    for x in (b[1].body[0], b[1].orelse[0]))):
        raise TieBroken("PolyAffine.compose: the `self.glob_affine is None` test is not recognised")
    # `other.as_affine()` is a leaf of both arms
    tr1 = Tr("PolyAffine.compose", {}, {"other.as_affine()": ("otherA", "A")})
    n = tr1.e(b[1].body[0].value)[0]
    tr2 = Tr("PolyAffine.compose", {}, {"other.as_affine()": ("otherA", "A"), "self.glob_affine": ("g", "A")})
    s_, t = tr2.e(b[1].orelse[0].value)
    _need_all(tr1, "PolyAffine.compose"); _need_all(tr2, "PolyAffine.compose")
    if t != "A":
        raise TieBroken("PolyAffine.compose: `glob_affine` is not a matrix")
    emit("`PolyAffine.compose(other)` for an affine `other`: the new `glob_affine` (centres, affines, sigma are kept)",
         f"def polyComposeGlobSrc (glob : Option Aff) (otherA : Aff) : Aff := match glob with | none => {n} | some g => {s_}")
    # left_compose
    fn = _func(py, "left_compose", "PolyAffine")
    b = _strip_doc(fn.body)
    if len(b) != 4 or ast.unparse(b[0]) != "if not hasattr(other, 'as_affine'):\n    return Transform(other.apply).compose(self)" \
            or ast.unparse(b[1]) != "other_affine = other.as_affine()" \
            or ast.unparse(b[3]) != "return self.__class__(self.centers, affines, self.sigma, glob_affine=self.glob_affine)":
        raise TieBroken("PolyAffine.left_compose: shape not recognised")
    lc = b[2]
    if not (isinstance(lc, ast.Assign) and ast.unparse(lc.targets[0]) == "affines" and isinstance(lc.value, ast.ListComp)
            and len(lc.value.generators) == 1 and ast.unparse(lc.value.generators[0].iter) == "range(len(self.centers))"
            and ast.unparse(lc.value.generators[0].target) == "i" and not lc.value.generators[0].ifs):
        raise TieBroken("PolyAffine.left_compose: list of affines not recognised")
    tr = Tr("PolyAffine.left_compose", {"other_affine": ("otherA", "A")}, {"self.affine(i)": ("a", "A")})
    m, t = tr.e(lc.value.elt)
    _need_all(tr, "PolyAffine.left_compose")
    if t != "A":
        raise TieBroken("PolyAffine.left_compose: element is not a matrix")
    emit("`PolyAffine.left_compose(other)` for an affine `other`: the i-th new affine (`a` = `self.affine(i)`)",
         f"def polyLeftAffSrc (otherA a : Aff) : Aff := {m}")
    _extract_poly_c(emit)


# ---------------------------------------------------------------- polyaffine.c (static helpers)
A12 = ["m.a11", "m.a12", "m.a13", "t.x", "m.a21", "m.a22", "m.a23", "t.y", "m.a31", "m.a32", "m.a33", "t.z"]


def _c_body(text, name):
    m = re.search(r"static\s+\w+\s+" + name + r"\s*\(([^)]*)\)\s*\{(.*?)\n\}", text, re.S)
    if not m:
        raise TieBroken(f"polyaffine.c: static function {name} not found")
    params = [p.strip().split()[-1].lstrip("*") for p in m.group(1).split(",")]
    return params, m.group(2)


def _c_stmts(where, text):
    text = text.strip()
    out = []
    while text:
        m = re.match(r"for\s*\(\s*(\w+)\s*=\s*0\s*;\s*\1\s*<\s*(\d+)\s*;\s*\1\+\+\s*\)\s*", text)
        if m:
            rest = text[m.end():]
            if rest.startswith("{"):
                depth, k = 0, 0
                for k, ch in enumerate(rest):
                    depth += ch == "{"
                    depth -= ch == "}"
                    if depth == 0:
                        break
                body, text = rest[1:k], rest[k + 1:].strip()
            else:
                k = rest.index(";")
                body, text = rest[:k + 1], rest[k + 1:].strip()
            out.append(("for", m.group(1), int(m.group(2)), _c_stmts(where, body)))
            continue
        m = re.match(r"if\s*\(([^()]*)\)\s*([^;{]*;)", text)
        if m:
            out.append(("if", m.group(1).strip(), _c_stmts(where, m.group(2))))
            text = text[m.end():].strip()
            continue
        m = re.match(r"return\s*([^;]*);", text)
        if m:
            out.append(("return", m.group(1).strip()))
            text = text[m.end():].strip()
            continue
        m = re.match(r"(?:const\s+)?(?:double|int)\s+([^;]*);", text)
        if m:
            for d in m.group(1).split(","):
                if "=" in d:
                    nm, v = d.split("=", 1)
                    out.append(("set", nm.strip(), "=", v.strip()))
            text = text[m.end():].strip()
            continue
        m = re.match(r"(\w+(?:\[\w+\])?)\s*(=|\+=|-=|\*=|/=)\s*([^;]*);", text)
        if m:
            out.append(("set", m.group(1), m.group(2), m.group(3).strip()))
            text = text[m.end():].strip()
            continue
        raise TieBroken(f"{where}: C statement not recognised: `{text[:60]}`")
    return out


class CEval:
    """symbolic execution of a straight-line / counted-loop C helper into Lean terms over Rat"""

    def __init__(self, where, inputs, consts):
        self.where = where
        self.inputs = inputs        # array name -> ("V", lean) | ("A12", lean); scalar name -> ("Q", lean)
        self.consts = consts
        self.env = {}               # "name" or "name[k]" -> lean term
        self.idx = {}               # loop variable -> current value
        self.ret = None

    def expr(self, txt):
        try:
            node = ast.parse(txt.strip(), mode="eval").body
        except SyntaxError:
            raise TieBroken(f"{self.where}: C expression `{txt}` not recognised")
        return self.e(node)

    def key(self, node):
        if isinstance(node, ast.Name):
            return node.id
        if isinstance(node, ast.Subscript) and isinstance(node.value, ast.Name):
            i = node.slice
            if isinstance(i, ast.Constant) and isinstance(i.value, int):
                return f"{node.value.id}[{i.value}]"
            if isinstance(i, ast.Name) and i.id in self.idx:
                return f"{node.value.id}[{self.idx[i.id]}]"
        raise TieBroken(f"{self.where}: `{ast.unparse(node)}` not recognised")

    def e(self, node):
        if isinstance(node, ast.Constant) and isinstance(node.value, (int, float)):
            return _rat(node.value)
        if isinstance(node, (ast.Name, ast.Subscript)):
            k = self.key(node)
            if k in self.env:
                return self.env[k]
            if k in self.consts:
                return self.consts[k]
            if "[" in k:
                nm, i = k[:-1].split("[")
                if nm in self.inputs:
                    kind, ln = self.inputs[nm]
                    if kind == "V" and int(i) < 3:
                        return f"{ln}.{'xyz'[int(i)]}"
                    if kind == "A12" and int(i) < 12:
                        return f"{ln}.{A12[int(i)]}"
            elif k in self.inputs and self.inputs[k][0] == "Q":
                return self.inputs[k][1]
            raise TieBroken(f"{self.where}: `{k}` is read before it is set")
        if isinstance(node, ast.UnaryOp) and isinstance(node.op, ast.USub):
            return f"(-{self.e(node.operand)})"
        if isinstance(node, ast.BinOp):
            sym = {ast.Add: "+", ast.Sub: "-", ast.Mult: "*", ast.Div: "/"}.get(type(node.op))
            if sym:
                return f"({self.e(node.left)} {sym} {self.e(node.right)})"
        if isinstance(node, ast.Compare) and len(node.ops) == 1:
            sym = {ast.Lt: "<", ast.Gt: ">", ast.LtE: "≤", ast.GtE: "≥"}.get(type(node.ops[0]))
            if sym:
                return f"({self.e(node.left)} {sym} {self.e(node.comparators[0])})"
        raise TieBroken(f"{self.where}: C expression `{ast.unparse(node)}` not recognised")

    def run(self, stmts):
        for st in stmts:
            if st[0] == "for":
                for k in range(st[2]):
                    self.idx[st[1]] = k
                    self.run(st[3])
                del self.idx[st[1]]
            elif st[0] == "if":
                c = self.expr(st[1])
                before = dict(self.env)
                self.run(st[2])
                for k, v in list(self.env.items()):
                    old = before.get(k)
                    if old is None:
                        tgt = ast.parse(k, mode="eval").body
                        saved, self.env = self.env, before
                        try:
                            old = self.e(tgt)
                        finally:
                            self.env = saved
                    if old != v:
                        self.env[k] = f"(if {c} then {v} else {old})"
            elif st[0] == "return":
                self.ret = st[1]
            else:
                _, lhs, op, rhs = st
                k = self.key(ast.parse(lhs, mode="eval").body)
                v = self.expr(rhs)
                if op != "=":
                    cur = self.e(ast.parse(lhs, mode="eval").body)
                    v = f"({cur} {op[0]} {v})"
                self.env[k] = v


def _extract_poly_c(emit):
    text = re.sub(r"/\*.*?\*/", "", _src(POLY_C), flags=re.S)
    tiny = "Gen.C08.tinyPoly"
    # _gaussian
    params, body = _c_body(text, "_gaussian")
    if params != ["xyz", "center", "sigma"]:
        raise TieBroken("polyaffine.c: _gaussian signature changed")
    ev = CEval("_gaussian", {"xyz": ("V", "xyz"), "center": ("V", "center"), "sigma": ("V", "sigma")}, {})
    ev.run(_c_stmts("_gaussian", body))
    m = re.fullmatch(r"exp\((.*)\)", ev.ret or "")
    if not m:
        raise TieBroken("polyaffine.c: _gaussian does not return exp(…)")
    emit("`_gaussian` of polyaffine.c: the argument of `exp` in the returned weight (loop unrolled)",
         f"def gaussianExpArgSrc (xyz center sigma : V3) : Rat :=\n  {ev.expr(m.group(1))}")
    # _add_weighted_affine
    params, body = _c_body(text, "_add_weighted_affine")
    if params != ["y", "x", "w"]:
        raise TieBroken("polyaffine.c: _add_weighted_affine signature changed")
    ev = CEval("_add_weighted_affine", {"y": ("A12", "y"), "x": ("A12", "x"), "w": ("Q", "w")}, {})
    ev.run(_c_stmts("_add_weighted_affine", body))
    ent = []
    for k in range(12):
        if f"y[{k}]" not in ev.env:
            raise TieBroken("polyaffine.c: _add_weighted_affine does not update all 12 entries")
        ent.append(ev.env[f"y[{k}]"])
    if len([k for k in ev.env if k.startswith("y[")]) != 12:
        raise TieBroken("polyaffine.c: _add_weighted_affine writes beyond 12 entries")
    o = [0, 1, 2, 4, 5, 6, 8, 9, 10]
    emit("`_add_weighted_affine` of polyaffine.c: `y += w*x` on the 12 entries of a 3x4 block (loop unrolled)",
         "def addWeightedAffineSrc (y x : Aff) (w : Rat) : Aff :=\n  ⟨⟨" + ", ".join(ent[k] for k in o) + "⟩, ⟨"
         + ", ".join(ent[k] for k in (3, 7, 11)) + "⟩⟩")
    # _apply_affine
    params, body = _c_body(text, "_apply_affine")
    if params != ["y", "mat", "x", "W"]:
        raise TieBroken("polyaffine.c: _apply_affine signature changed")
    ev = CEval("_apply_affine", {"mat": ("A12", "mat"), "x": ("V", "x"), "W": ("Q", "W")}, {"TINY": tiny})
    ev.run(_c_stmts("_apply_affine", body))
    if sorted(k for k in ev.env if k.startswith("y[")) != ["y[0]", "y[1]", "y[2]"]:
        raise TieBroken("polyaffine.c: _apply_affine does not write exactly y[0..2]")
    emit("`_apply_affine` of polyaffine.c: `mat * x` divided by the clamped total weight",
         "def applyAffineCSrc (mat : Aff) (x : V3) (W : Rat) : V3 :=\n  ⟨" + ", ".join(ev.env[f"y[{k}]"] for k in range(3)) + "⟩")
    # the loop over centres, as text
    norm = re.sub(r"\s+", " ", text)
    want = ["memset((void*)mat, 0, bytes_mat);", "W = 0.0;", "w = _gaussian(xyz, center, sigma);", "W += w;",
            "_add_weighted_affine(mat, affine, w);", "_apply_affine(t_xyz, mat, xyz, W);",
            "memcpy((void*)xyz, (void*)t_xyz, bytes_xyz);"]
    pos = -1
    for frag in want:
        k = norm.find(frag, pos + 1)
        if k < 0:
            raise TieBroken(f"polyaffine.c: `{frag}` not found (in this order) in apply_polyaffine")
        pos = k
    emit("`apply_polyaffine`: the statements of the loops over points and centres, in source order",
         "def kernelLoopSrc : List String := [" + ", ".join('"' + x + '"' for x in want) + "]")


def lean_text():
    defs = extract()
    L = ["/- GENERATED by harness/props/c08_source.py from the expressions of "
         "nipy/algorithms/registration/{affine.py, transform.py, chain_transform.py}.",
         "   Each definition is the body of the named function, statement by statement (assignment = `let`,",
         "   `if` = `if`, the rest of the body continued in both arms), leaves renamed as the docstring says.",
         "   Props/C08Source.lean proves that these are what the model implements.  Do not edit. -/",
         "import NipyVerif.Model.C08B", "namespace NipyVerif.C08.Src", "open NipyVerif.C08",
         "set_option linter.unusedVariables false", "",
         "/-- NumPy `a / b` on two 12-vectors -/",
         "def vdiv (a b : Vec12) : Vec12 := Vec12.ofFn (fun i => a.get i / b.get i)",
         "/-- NumPy `a[inds]` on a 12-vector / on a sequence -/",
         "def take (a : Vec12) (inds : List Nat) : List Rat := inds.map a.get",
         "def ltake (p : List Rat) (inds : List Nat) : List Rat := inds.map (fun i => p.getD i 0)",
         "/-- NumPy `p * q` on two equally long vectors -/",
         "def lmul (p q : List Rat) : List Rat := List.zipWith (· * ·) p q",
         "/-- NumPy `a[inds] = vals` (one value per index, assigned in order) -/",
         "def scatter (a : Vec12) (inds : List Nat) (vals : List Rat) : Vec12 :=",
         "  (inds.zip vals).foldl (fun acc iv => acc.set iv.1 iv.2) a", ""]
    for doc, text in defs:
        L.append(f"/-- {doc} -/")
        L.append(text)
    L += ["", "end NipyVerif.C08.Src", ""]
    return "\n".join(L)


if __name__ == "__main__":
    print(lean_text())
