"""C12 — fields and forests keep their structural invariants.

Wave 4: translator (harness/props/c12_translate.py -> Gen/C12Source.lean) for the tests and update expressions of
field.py / forest.py / `_graph.pyx` dilation, tied to the model by the `*_as_modelled` theorems of Props/C12Source;
first-appearance numbering of cc() labels, distances along ancestry, the climb of leaves_of_a_subtree, split(k) with
k at most the number of trees (Props/C12N); the same numbers in Fortran / strided / negative-stride / read-only
layouts.

Second extension wave: threshold_bifurcations = component tree of the superlevel sets (Props/C12U, `bifk` lines: cut
index per level), forest leftovers (Props/C12G, C12P), subfield renumbering and basin numbering (Props/C12R), the value
of a local_maxima depth (Props/C12L), Field histories with a dtype flag and graph edits in the model.

Extension round: operation histories on one Forest object (harness/props/c12_hist.py, Lean
Model/C12B: state = parents + edges + children cache) and on one Field object
(c12_fieldhist.py, Model/C12F), threshold_bifurcations / get_local_maxima / masked arg-max
modelled (Model/C12F), WeightedForest (Model/C12W), signed constructor guard.

Correspondence: Field.dilation (fast path = the *current text* of _graph.pyx run
through the de-cythoniser, generic sparse-row path), erosion, opening, closing,
compact_neighb, diffusion, highest_neighbor, custom_watershed, local_maxima and
Forest (constructor/check, children, descendants, isleaf, isroot,
depth_from_leaves, reorder_from_leaves_to_roots, subforest,
merge_simple_branches, propagate_upward(_and)) against the Lean model (exact).
Oracle: the property's clauses evaluated on the real code against direct
definitions written independently here (BFS balls, steepest ascent, superlevel
components, heights).
"""
from __future__ import annotations

import itertools
import warnings

import numpy as np

from harness.core import PropertyCheck
from harness.props import c12_fieldhist, c12_hist
from harness.util import Snapshot, cmp_rats, errname, fr, frs, parse_rats, plist

PYX = "nipy/algorithms/graph/_graph.pyx"
_PATCH = {}


def _patch_fast_path():
    """Make `from ._graph import dilation` (inside Field.dilation) deliver the function
    obtained from the current text of /repo's _graph.pyx; keep the installed .so as witness."""
    if _PATCH:
        return _PATCH
    from harness.decython import load_pyx
    import nipy.algorithms.graph._graph as so_mod
    so_fn = getattr(so_mod, "__c12_so_dilation__", None) or so_mod.dilation
    so_mod.__c12_so_dilation__ = so_fn
    pyx = load_pyx(PYX)
    so_mod.dilation = pyx.dilation
    _PATCH.update(so=so_fn, pyx=pyx.dilation)
    return _PATCH


# ----------------------------------------------------------------------
# text encodings
# ----------------------------------------------------------------------
def gtxt(V, E):
    return f"{V} {len(E)} " + " ".join(f"{i} {j} {fr(w)}" for i, j, w in E) if E else f"{V} 0"


def ftxt(rows):
    a = np.asarray(rows)
    a = a.reshape(a.shape[0], -1)
    return f"{a.shape[1]} " + " ".join(plist(a[:, d].tolist()) for d in range(a.shape[1]))


def cols_of(a):
    a = np.asarray(a)
    a = a.reshape(a.shape[0], -1)
    return [a[:, d].tolist() for d in range(a.shape[1])]


def fmt_cols(cols):
    return " | ".join(frs(c) for c in cols)


# ----------------------------------------------------------------------
# generators
# ----------------------------------------------------------------------
VALS = [0.0, 1.0, 2.0, 3.0, 4.0, -1.0, -2.5, 0.5, 1.5, 7.0, 0.25]


def gen_graph(rng, V, kind=None):
    """edge list [(i, j, w)], w > 0 dyadic; symmetric unless kind == 'directed'"""
    kind = kind or rng.choice(["sym", "sym", "sym", "path", "ring", "components", "empty",
                               "directed", "complete", "star"])
    pairs = set()
    if kind == "empty" or V == 1:
        pairs = set()
    elif kind == "path":
        pairs = {(i, i + 1) for i in range(V - 1)}
    elif kind == "ring":
        pairs = {(i, (i + 1) % V) for i in range(V)} if V > 2 else {(0, 1)}
    elif kind == "complete":
        pairs = {(i, j) for i in range(V) for j in range(i + 1, V)}
    elif kind == "star":
        c = rng.randrange(V)
        pairs = {(c, j) for j in range(V) if j != c}
    elif kind == "components":
        cut = rng.randrange(1, V)
        for lo, hi in ((0, cut), (cut, V)):
            for i in range(lo, hi):
                for j in range(i + 1, hi):
                    if rng.random() < 0.6:
                        pairs.add((i, j))
    else:
        dens = rng.choice([0.15, 0.3, 0.5])
        for i in range(V):
            for j in range(i + 1, V):
                if rng.random() < dens:
                    pairs.add((i, j))
    E = []
    for (i, j) in sorted(pairs):
        if i == j:
            continue
        w = rng.choice([1.0, 1.0, 0.5, 2.0, 0.25, 3.0])
        if kind == "directed":
            r = rng.random()
            if r < 0.4:
                E.append((i, j, w))
            elif r < 0.8:
                E.append((j, i, w))
            else:
                E += [(i, j, w), (j, i, rng.choice([1.0, 0.5]))]
        else:
            E += [(i, j, w), (j, i, w)]
    if E and rng.random() < 0.25:        # parallel edges (both directions, keeps symmetry)
        i, j, w = rng.choice(E)
        E += [(i, j, 1.0)] + ([(j, i, 1.0)] if kind != "directed" else [])
    if V > 1 and rng.random() < 0.15:    # a self loop
        i = rng.randrange(V)
        E.append((i, i, 1.0))
    rng.shuffle(E)
    return [list(e) for e in E], kind


def gen_field(rng, V, dim, style=None):
    style = style or rng.choice(["rand", "rand", "plateau", "ties", "const", "distinct", "bump"])
    if style == "const":
        col = lambda: [rng.choice(VALS)] * V
    elif style == "plateau":
        col = lambda: [rng.choice([1.0, 1.0, 2.0, 0.0]) for _ in range(V)]
    elif style == "ties":
        col = lambda: [float(rng.randrange(0, 3)) for _ in range(V)]
    elif style == "distinct":
        def col():
            p = list(range(V)); rng.shuffle(p)
            return [float(x) / 2 - 1 for x in p]
    elif style == "bump":
        def col():
            c = [0.0] * V
            c[rng.randrange(V)] = 5.0
            if V > 2:
                c[rng.randrange(V)] += 3.0
            return c
    else:
        col = lambda: [rng.choice(VALS) for _ in range(V)]
    cs = [col() for _ in range(dim)]
    return [[cs[d][v] for d in range(dim)] for v in range(V)], style


# data types of a field ("including ... non-float64 data"): label / count images are unsigned or narrow integers
DTYPES = ["float64"] * 6 + ["float32", "int64", "int32", "int16", "int8", "uint8", "uint16", "uint32"]


# the same numbers in another memory layout: Fortran order, a strided view into a larger buffer, a negative-stride
# view, a read-only array (the last one only for the analyses that are documented not to write the field)
LAYOUTS = ["C"] * 4 + ["F", "strided", "neg"]


def lay_out(a, layout):
    a = np.array(a, copy=True)
    if layout == "F":
        return np.asfortranarray(a)
    if layout == "strided":
        big = np.zeros(tuple(2 * n for n in a.shape), dtype=a.dtype)
        v = big[tuple(slice(None, None, 2) for _ in a.shape)]
        v[...] = a
        return v
    if layout == "neg":
        return np.array(a[::-1], copy=True)[::-1]
    if layout == "readonly":
        a.setflags(write=False)
    return a


def cast_field(F, dt):
    """values exactly representable in `dt`: integers for integer types, non-negative (zeros kept, so that a 0 sits
    next to non-zero values) for unsigned ones"""
    if dt.startswith("uint"):
        return [[float(abs(int(x * 4)) % 120) for x in row] for row in F]
    if dt.startswith("int"):
        return [[float(max(-120, min(120, int(x * 4)))) for x in row] for row in F]
    return F


def rand_V(rng):
    return rng.choice([1, 2, 2, 3, 3, 4, 4, 5, 5, 6, 7, 8, 10, 13])


def gen_parents(rng, V):
    """valid forests mostly; cycles, size and range errors on purpose"""
    r = rng.random()
    if r < 0.55:                      # random forest with random labelling
        perm = list(range(V)); rng.shuffle(perm)
        p = [0] * V
        for k, v in enumerate(perm):
            if k == 0 or rng.random() < 0.2:
                p[v] = v
            else:
                p[v] = perm[rng.randrange(0, k)] if rng.random() < 0.6 else perm[k - 1]
        return p
    if r < 0.65:                      # chain, in either index order
        p = list(range(V))
        for i in range(V - 1):
            p[i] = i + 1
        return p if rng.random() < 0.5 else [max(i - 1, 0) for i in range(V)]
    if r < 0.9:                       # arbitrary in-range array (cycles likely)
        return [rng.randrange(V) for _ in range(V)]
    if r < 0.96:                      # a value outside 0..V-1 (V itself, beyond, negative): to be refused
        p = [rng.randrange(V) for _ in range(V)] if rng.random() < 0.5 else gen_parents(rng, V)
        if len(p) == V:
            p[rng.randrange(V)] = rng.choice([V, V, V + 1, V + 2, V + 5, -1, -1, -2, -V, -V - 1])
        return p
    return [rng.randrange(V) for _ in range(V + rng.choice([-1, 1, 2]))] or [0, 0]   # wrong size


def forest_extras(rng, V):
    return {"pdtype": rng.choice(["int64"] * 5 + ["int32", "int16", "int8", "uint8", "uint16", "uint32"]),
            "playout": rng.choice(["C"] * 4 + ["strided", "neg", "readonly"]),
            "valid": [int(rng.random() < 0.65) for _ in range(V)],
            "prop": [int(rng.random() < 0.6) for _ in range(V)],
            "label": [rng.choice([0, 1, 1, 2, 3]) for _ in range(V)],
            # WeightedForest: heights (from the depth, halved depth = ties, or arbitrary), cut level, k
            "hmode": rng.choice(["depth", "half", "raw", "raw", "const"]),
            "hraw": [rng.choice([0.0, 0.5, 1.0, 1.5, 2.0, 3.0, -1.0]) for _ in range(V)],
            "wth": rng.choice([0.0, 0.5, 1.0, 1.25, 2.0, 3.5, -2.0]),
            "wk": rng.choice([-1, 0, 1, 2, 2, 3, 3, 4, 5, 8, 20])}


def _is_forest(p):
    V = len(p)
    for v in range(V):
        w = v
        for _ in range(V):
            w = p[w]
        if p[w] != w:
            return False
    return True


class C12(PropertyCheck):
    id = "C12"
    title = "Fields and forests keep their structural invariants"
    lean_modules = ["NipyVerif.Props.C12", "NipyVerif.Props.C12B", "NipyVerif.Props.C12F",
                    "NipyVerif.Props.C12W", "NipyVerif.Props.C12U", "NipyVerif.Props.C12G", "NipyVerif.Props.C12P",
                    "NipyVerif.Props.C12R", "NipyVerif.Props.C12L", "NipyVerif.Props.C12Source",
                    "NipyVerif.Props.C12N"]
    driver = "Drivers/C12.lean"
    rule = ("cases are (graph, field with its dtype and memory layout, operator arguments), (parent array, sub-forest mask, property, labels, "
            "heights, cut level, k), operation HISTORIES on one Forest object (every public method, queries before "
            "and after every in-place / continue-on-result call, oversized raw arguments materialised against the "
            "object as it is when the step is reached) and on one Field object (in-place morphology, diffusion, "
            "set_field with other dtypes/shapes, subfield/copy and continue, queries), drawn from a seeded PRNG "
            "plus exhaustive small domains (thorough: every parent array on <= 6 nodes, each accepted one also "
            "starting a short history; every {0,1,2}-valued field on every symmetric graph on <= 4 vertices); "
            "parent arrays include entries equal to V, beyond V and negative; non-trivial = graph has an edge and "
            "the field is not constant, or the forest has a non-root node / is refused, or a history has >= 3 calls; "
            "distinct by full JSON of the case")
    assumptions = [
        "edge weights of morphological inputs are strictly positive (scipy's sparse addition drops "
        "entries that sum to zero; the model's sparse rows are the sets of column indices)",
        "np.argsort (unstable under ties) is a parameter of reorder_from_leaves_to_roots and of "
        "threshold_bifurcations: the order NumPy returns on the same data is passed to the model, which "
        "validates it as a sort of the depths / of the negated field",
        "field values and weights are dyadic so float arithmetic of diffusion is exact (compared at 1e-9)",
        "the compiled fast path is the current text of _graph.pyx executed by harness/decython.py "
        "(C int/double semantics emulated); the installed .so is a second witness only",
        "Forest history model: get_descendants is sorted once (the code sorts at every recursion level: same list); "
        "all_distances (Dijkstra on the unit-weight tree) and cc (lil_cc) are modelled through the child->parent map "
        "the edge array encodes: path through the first common ancestor / components numbered by smallest vertex",
        "Field histories: the model state carries the graph, the columns and a dtype flag (float64 or not); which "
        "dilation path runs (`fast and dtype == float64`) is computed by the model from the call's flag and that flag "
        "(the harness only tells the dtype of the data given to the constructor / set_field and compares the flag after "
        "every step; diffusion yields float64); set_edges / edge assignment / set_weights are model operations "
        "(refused edits included), no re-synchronisation; constrained_voronoi, geodesic_kmeans, ward, "
        "threshold_bifurcations, get_field, compact_neighb are frame-only steps of a history (the model says the "
        "object is unchanged; their values are checked by oracle - geodesic labelling - or by their own line kinds)",
        "threshold_bifurcations component-tree theorems assume a symmetric neighbour relation (SymmRows / Graph.Symm); on "
        "directed graphs the model is still run against the code (bif, bifk lines) but only 'labels exactly the "
        "above-threshold vertices' is claimed; concrete values of the sweep cannot be `decide`d in the kernel "
        "(List.mergeSort is well-founded), non-vacuity is by the general existence lemma + correspondence",
        "source tie: Gen/C12Source.lean is regenerated from the text of field.py, forest.py and the `dilation` routine "
        "of _graph.pyx before every build (comparison operators, reducers max/min/argmax, whether a vertex belongs to "
        "its own neighbourhood, loop bounds, guards, update expressions as Lean terms; statement sequences as text); a "
        "source shape the translator does not recognise is a broken obligation; what the translator reads as text "
        "only (e.g. that `np.unique` sorts, that `tolil().rows` are sorted column indices) stays an assumption on "
        "NumPy / SciPy",
        "WeightedForest.plot / plot_height (matplotlib drawing) are excluded; the agglomeration routines of "
        "hierarchical_clustering.py (ward*, average_link*, fusion, _inertia*, _label*) belong to C14",
    ]
    level_note = ("proved for all inputs of the model: both dilation paths = closed-neighbourhood maximum and agree "
                  "(incl. the compact_neighb slices), erosion = closed-neighbourhood minimum, opening/closing "
                  "order and idempotence for every nbiter on symmetric graphs; steepest ascent reaches a fixed point "
                  "within V steps on every field, each basin has exactly one maximum which is its root, labels agree "
                  "with ascent chains and are numbered by the first vertex of the basin, the arg-max the code uses for "
                  "idx is the root; renumb of subfield/subgraph is an order isomorphism onto the retained vertices, the "
                  "sub-graph is the induced graph and labels are written back to the right vertices; local_maxima: k "
                  "dilations = maximum over the k-hop ball, the loop stops within V-1 rounds and the depth is the radius "
                  "of the largest ball in which the vertex is maximal (cap max(K,1) otherwise); threshold_bifurcations: "
                  "the sweep (saddle bookkeeping root[root==j]=q included) is a union-find - after any prefix of any "
                  "duplicate-free order two processed vertices have the same root iff connected among the processed "
                  "vertices; parent is a forest (parents are later regions) with root = top ancestor; a region is "
                  "created exactly at a local maximum w.r.t. the processed set or at a saddle joining >= 2 components; "
                  "earlier hierarchies are cuts of the final one; for every valid tie order and every level t the trees "
                  "of the returned parent array cut at cutIndex(t) are the components of {field >= t} in the original "
                  "graph (through the subfield renumbering); ancestry = inclusion; idx[c] is a maximal vertex of region "
                  "c; diffusion = n-fold linear application of the adjacency = dense matrix product; a Field history "
                  "(in-place operators of any dtype/path, interleaved with set_edges/set_weights) is the composition of "
                  "the operators each on the graph the object had when it ran; check <=> every vertex reaches a root "
                  "within V steps, no cycles, the patched constructor guard; children/leaf/root/descendant consistency "
                  "(both get_descendants flags); depth_from_leaves = height above the leaves on every forest, reached "
                  "within V sweeps (fixed point, strict); subforest never refused on a forest, ancestry through "
                  "retained nodes; propagate_upward_and and propagate_upward follow their documented rule on every "
                  "forest whatever the numbering; cc labels equal iff same root; reordering conjugates every iterate of "
                  "the parent map; after ANY history of public Forest methods the object is coherent, a forest, and "
                  "every query answers for the current parents; the unpatched reorder (stale cache) and range guard are "
                  "shown to break this; WeightedForest height monotone along ancestry, cuts keep whole subtrees. "
                  "Source tie (Props/C12Source): every test / update expression of dilation (both paths, dtype switch, "
                  "E > 0 guard), erosion, highest_neighbor, opening / closing call order, local_maxima (threshold, start, "
                  "non-maximum test, depth update, final test and value), watershed and bifurcation thresholds, "
                  "_argmax_within, the sweep step of threshold_bifurcations, Forest.__init__ guards, check, "
                  "define_graph_attributes, compute_children / isleaf / isroot, index guards, subforest, "
                  "merge_simple_branches, depth_from_leaves, tree_depth, reorder_from_leaves_to_roots, "
                  "propagate_upward(_and) is proved equal to the "
                  "term regenerated from the source. cc() numbers the trees by first appearance (label of the first "
                  "vertex of a tree = number of distinct trees before it), hence so do partition / split on the leaves; "
                  "nbcc = cc().max() + 1 is the number of trees; split(k) with k <= nbcc returns the trees; all_distances: 0 on the diagonal, k to the "
                  "ancestor first reached after k parent steps, inf exactly without a common ancestor, a finite value "
                  "is i + j through the first common ancestor with i and j minimal; the climb of leaves_of_a_subtree ends at an ancestor "
                  "whose subtree holds the common ancestor so far, or gives up only at a root that misses it (partial). "
                  "By correspondence and oracle only: split(k) class counts above the number of trees, the final answer "
                  "of leaves_of_a_subtree, that floyd() on the unit-weight edge array yields the tree-path length the "
                  "model computes (all_distances is compared value by value), constrained_voronoi "
                  "/ geodesic_kmeans / ward values (Dijkstra and sqrt are outside the exact model; only the squared "
                  "edge-length term and the stop test are tied to the source), bifurcations on directed graphs (the "
                  "component tree is a notion of undirected connectivity: only the labelling clause is claimed)")
    finding_keys = {"forest-parent-range": "Forest/WeightedForest constructor accepts parent entries equal to V or "
                                           "negative (NumPy wrap-around): rootless or unusable objects"}

    # ------------------------------------------------------------------
    def translators(self):
        from harness.core import REPO, TieBroken
        from harness.props import c12_translate
        return c12_translate.translate(REPO, TieBroken)

    # ------------------------------------------------------------------
    def generate(self, rng, tier):
        quick = tier == "quick"
        n_m, n_d, n_t, n_f = (260, 80, 260, 500) if quick else (3000, 800, 3000, 4000)
        n_h = 500 if quick else 6000
        n_fh = 300 if quick else 4000
        cases = []
        for _ in range(n_m):
            V = rand_V(rng)
            E, gk = gen_graph(rng, V)
            dim = rng.choice([1, 1, 2, 3])
            F, fs = gen_field(rng, V, dim)
            dt = rng.choice(DTYPES)
            F = cast_field(F, dt)
            cases.append({"kind": "morph", "V": V, "edges": E, "field": F, "dtype": dt,
                          "n": rng.choice([1, 1, 1, 2, 3, 0]), "layout": rng.choice(LAYOUTS)})
        for _ in range(n_d):
            V = rand_V(rng)
            E, gk = gen_graph(rng, V)
            for e in E:          # any dyadic weight, sign and zero included
                e[2] = rng.choice([1.0, 0.5, -1.0, 2.0, 0.0, 0.25, -0.5])
            F, _ = gen_field(rng, V, rng.choice([1, 2, 3]))
            cases.append({"kind": "diffusion", "V": V, "edges": E, "field": F, "n": rng.choice([0, 1, 1, 2, 3])})
        for _ in range(n_t):
            V = rand_V(rng)
            E, gk = gen_graph(rng, V)
            dim = rng.choice([1, 1, 2, 3])
            F, fs = gen_field(rng, V, dim)
            dt = rng.choice(DTYPES)
            F = cast_field(F, dt)
            refdim = rng.randrange(dim)
            vals = sorted({row[refdim] for row in F})
            r = rng.random()
            if r < 0.4:
                th = None                                  # -inf
            elif r < 0.8:
                th = rng.choice(vals)
            elif r < 0.92:
                th = rng.choice(vals) + 0.25
            else:
                th = vals[-1] + 1.0                        # nothing above threshold
            cases.append({"kind": "thresh", "V": V, "edges": E, "field": F, "refdim": refdim, "th": th, "dtype": dt,
                          "layout": rng.choice(LAYOUTS + ["readonly", "readonly"])})
        # operation histories on one Field object
        for _ in range(n_fh):
            V = rng.choice([1, 2, 3, 3, 4, 4, 5, 6, 7, 8])
            E, gk = gen_graph(rng, V)
            dim = rng.choice([1, 1, 2, 3])
            F, fs = gen_field(rng, V, dim)
            dt = rng.choice(DTYPES)
            F = cast_field(F, dt)
            cases.append({"kind": "fieldhist", "V": V, "edges": E, "field": F, "dtype": dt,
                          "ctor": rng.choice(["Field", "Field", "graph", "coo"]),
                          "steps": c12_fieldhist.gen_steps(rng)})
        # operation histories on one Forest object
        for _ in range(n_h):
            cases.append(c12_hist.gen_case(rng))
        # one-shot forests (valid, cyclic, malformed); after the histories on purpose
        for _ in range(n_f):
            V = rng.choice([1, 2, 3, 4, 5, 6, 7, 8, 9, 12])
            p = gen_parents(rng, V)
            c = {"kind": "forest", "V": V, "parents": p}
            c.update(forest_extras(rng, V))
            cases.append(c)
        # exhaustive small domains
        vmax = 4 if quick else 6
        for V in range(1, vmax + 1):
            for p in itertools.product(range(V), repeat=V):
                c = {"kind": "forest", "V": V, "parents": list(p)}
                c.update(forest_extras(rng, V))
                cases.append(c)
                if _is_forest(p):      # every forest on <= vmax nodes starts a short history
                    cases.append(c12_hist.gen_case(rng, parents=p, nmut=1))
        if quick:
            for V in (5, 6):
                for _ in range(350):
                    c = {"kind": "forest", "V": V, "parents": [rng.randrange(V) for _ in range(V)]}
                    c.update(forest_extras(rng, V))
                    cases.append(c)
        gmax = 3 if quick else 4
        for V in range(1, gmax + 1):
            allp = [(i, j) for i in range(V) for j in range(i + 1, V)]
            for mask in range(1 << len(allp)):
                E = []
                for k, (i, j) in enumerate(allp):
                    if mask >> k & 1:
                        E += [[i, j, 1.0], [j, i, 1.0]]
                for vals in itertools.product([0.0, 1.0, 2.0], repeat=V):
                    cases.append({"kind": "small", "V": V, "edges": E, "field": [[v] for v in vals]})
        return cases

    # ------------------------------------------------------------------
    def run_case(self, case):
        warnings.filterwarnings("ignore")
        _patch_fast_path()
        return getattr(self, "_" + case["kind"])(case)

    # ---- helpers on the real code ----
    @staticmethod
    def _field(c, data=None):
        from nipy.algorithms.graph.field import Field
        E = c["edges"]
        edges = np.array([[e[0], e[1]] for e in E], dtype=np.int_).reshape(-1, 2)
        w = np.array([e[2] for e in E], dtype=float)
        if data is None:
            data = np.array(c["field"], dtype=c.get("dtype", "float64"))
        return Field(c["V"], edges, w, lay_out(data, c.get("layout", "C")))

    @staticmethod
    def _nbrs(c, closed=True):
        nb = [set() for _ in range(c["V"])]
        for i, j, _ in c["edges"]:
            nb[i].add(j)
        if closed:
            for i in range(c["V"]):
                nb[i].add(i)
        return [sorted(s) for s in nb]

    @staticmethod
    def _symmetric(c):
        s = {(i, j) for i, j, _ in c["edges"]}
        return all((j, i) in s for i, j in s)

    def _op(self, c, name, *args, data=None, **kw):
        """run one in-place operator on a fresh Field; -> ('cols', columns) or ('err', name)"""
        F = self._field(c, data)
        try:
            getattr(F, name)(*args, **kw)
        except Exception as e:   # noqa: BLE001
            return ("err", errname(e), f"{type(e).__name__}: {e}")
        return ("cols", cols_of(F.field), np.asarray(F.field).reshape(c["V"], -1))

    def _morph(self, c, small=False):
        V, n = c["V"], c.get("n", 1)
        data = np.array(c["field"], dtype=c.get("dtype", "float64"))
        g, f = gtxt(V, c["edges"]), ftxt(data)
        is64 = data.dtype == np.float64
        lines, impl, fails, tags = [], [], [], ["morph", "dtype=" + str(data.dtype), "layout=" + c.get("layout", "C")]
        nb = self._nbrs(c)
        sym = self._symmetric(c)
        tags.append("symmetric" if sym else "directed")
        if not c["edges"]:
            tags.append("no-edges")
        if any(len(r) == 1 for r in nb) and c["edges"]:
            tags.append("isolated-vertex")

        def direct(a, red):
            for _ in range(n):
                a = np.array([red(a[nb[i]], axis=0) for i in range(V)]).reshape(V, -1)
            return a

        def record(op, res):
            lines.append(f"{op} {n} {g} {f}")
            impl.append(res[:2])
            if res[0] == "err":
                fails.append(f"{op}: Field operator raised {res[2]} on a valid graph field")
            return res

        d2 = data.reshape(V, -1)
        snap = Snapshot(data=data)
        fast = record("dilfast", self._op(c, "dilation", n)) if is64 else None
        slow = record("dilslow", self._op(c, "dilation", n, fast=False))
        if not is64:   # the default call must have taken the generic path
            dflt = self._op(c, "dilation", n)
            if dflt[:2] != slow[:2]:
                fails.append("dilation on non-float64 data differs from the generic path")
        want = direct(d2, np.max)
        for nm, r in (("fast", fast), ("generic", slow)):
            if r is not None and r[0] == "cols" and not np.array_equal(r[2], want):
                fails.append(f"dilation ({nm} path, nbiter={n}) is not the closed-neighbourhood maximum: "
                             f"got {r[2].T.tolist()} expected {want.T.tolist()}")
        if fast is not None and fast[0] == "cols" and slow[0] == "cols" and not np.array_equal(fast[2], slow[2]):
            fails.append(f"compiled fast path and generic path of dilation differ: {fast[2].T.tolist()} vs "
                         f"{slow[2].T.tolist()}")
        if is64 and c["edges"]:   # second witness: the installed extension module
            F = self._field(c)
            idx, neighb, _ = F.compact_neighb()
            lines.append(f"compact 0 {g} {f}")
            impl.append(("txt", " ".join(map(str, idx.tolist())) + " | " + " ".join(map(str, neighb.tolist()))))
            a = np.array(d2, copy=True)
            for _ in range(n):
                _PATCH["so"](a, idx, neighb)
            if fast is not None and fast[0] == "cols" and not np.array_equal(a, fast[2]):
                tags.append("installed-so-differs-from-pyx-text")
        ero = record("ero", self._op(c, "erosion", n))
        if ero[0] == "cols" and not np.array_equal(ero[2], direct(d2, np.min)):
            fails.append(f"erosion (nbiter={n}) is not the closed-neighbourhood minimum: field "
                         f"{d2.T.tolist()} gives {ero[2].T.tolist()} expected {direct(d2, np.min).T.tolist()}")
        op = record("open", self._op(c, "opening", n))
        cl = record("close", self._op(c, "closing", n))
        if sym:
            if op[0] == "cols":
                if np.any(op[2] > d2):
                    fails.append(f"opening increases the field: {d2.T.tolist()} -> {op[2].T.tolist()}")
                op2 = self._op(c, "opening", n, data=op[2].astype(data.dtype))
                if op2[0] == "cols" and not np.array_equal(op2[2], op[2]):
                    fails.append(f"opening is not idempotent on {d2.T.tolist()}")
            if cl[0] == "cols":
                if np.any(cl[2] < d2):
                    fails.append(f"closing decreases the field: {d2.T.tolist()} -> {cl[2].T.tolist()}")
                cl2 = self._op(c, "closing", n, data=cl[2].astype(data.dtype))
                if cl2[0] == "cols" and not np.array_equal(cl2[2], cl[2]):
                    fails.append(f"closing is not idempotent on {d2.T.tolist()}")
        nontrivial = bool(c["edges"]) and len({tuple(r) for r in d2.tolist()}) > 1
        return {"lines": lines, "impl": impl, "oracle": fails[0] if fails else None,
                "nontrivial": nontrivial, "tags": tags, "mutated": snap.changed()}

    def _small(self, c):
        c = dict(c, dtype="float64", n=1, refdim=0)
        r = self._morph(c)
        for th in (None, 1.0):
            t = self._thresh(dict(c, th=th))
            r["lines"] += t["lines"]; r["impl"] += t["impl"]
            r["oracle"] = r["oracle"] or t["oracle"]
        r["tags"] = ["small-exhaustive"]
        return r

    def _diffusion(self, c):
        V, n = c["V"], c["n"]
        data = np.array(c["field"], dtype=float)
        res = self._op(c, "diffusion", n)
        fail = None
        if res[0] == "err":
            fail = f"diffusion raised {res[2]}"
        else:
            A = np.zeros((V, V))
            for i, j, w in c["edges"]:
                A[i, j] += w
            want = np.linalg.matrix_power(A, n) @ data.reshape(V, -1)
            if not np.allclose(res[2], want, rtol=1e-9, atol=1e-9):
                fail = (f"diffusion(nbiter={n}) is not the {n}-th power of the weighted adjacency applied to "
                        f"the field: {res[2].T.tolist()} vs {want.T.tolist()}")
        return {"lines": [f"diff {n} {gtxt(V, c['edges'])} {ftxt(data)}"], "impl": [res[:2]], "oracle": fail,
                "nontrivial": bool(c["edges"]) and n > 0, "tags": ["diffusion", f"nbiter={min(n, 3)}"],
                "mutated": None}

    # ---- thresholded analyses ----
    def _thresh(self, c):
        V, refdim = c["V"], c["refdim"]
        data = np.array(c["field"], dtype=float).reshape(V, -1)
        col = data[:, refdim]
        th = c["th"]
        th_eff = float(col.min() - 1) if th is None else float(th)
        kw = {} if th is None else {"th": th}
        valid = col >= th_eff
        g, f = gtxt(V, c["edges"]), ftxt(data)
        nbc = self._nbrs(c)
        nbv = [[j for j in nbc[i] if valid[j]] for i in range(V)]
        sym = self._symmetric(c)
        lines, impl, fails = [], [], []
        tags = ["thresh", "dtype=" + c.get("dtype", "float64"), "layout=" + c.get("layout", "C"),
                f"dim={data.shape[1]}", "th=" + ("-inf" if th is None else
                                                            "none-above" if not valid.any() else "cut")]

        def call(name, *a, **k):
            F = self._field(c)
            try:
                return True, getattr(F, name)(*a, **k)
            except Exception as e:   # noqa: BLE001
                fails.append(f"{name}(refdim={refdim}, th={th}) raised {type(e).__name__}: {e} on a "
                             f"{data.shape[1]}-dimensional field with {int(valid.sum())} vertices above threshold")
                return False, errname(e)

        # ---------------- local maxima
        ok, depth = call("local_maxima", refdim, **kw)
        lines.append(f"lmax {refdim} {fr(th_eff)} {g} {f}")
        impl.append(("txt", " ".join(str(int(x)) for x in depth)) if ok else ("err", depth))
        if ok:
            want = self._direct_lmax(V, nbv, col, valid)
            if list(map(int, depth)) != want:
                fails.append(f"local_maxima disagrees with the direct definition (hop distance to a strictly "
                             f"higher vertex): got {list(map(int, depth))} expected {want}")
            ok2, im = call("get_local_maxima", refdim, **kw)
            lines.append(f"glmax {refdim} {fr(th_eff)} {g} {f} 0")
            impl.append(("txt", " ".join(str(int(x)) for x in im[0]) + " | " + " ".join(str(int(x)) for x in im[1]))
                        if ok2 else ("err", im))
            if ok2 and (list(im[0]) != [v for v in range(V) if depth[v] > 0]
                        or list(im[1]) != [int(depth[v]) for v in range(V) if depth[v] > 0]):
                fails.append("get_local_maxima inconsistent with local_maxima")
        # ---------------- watershed
        ok, ws = call("custom_watershed", refdim, **kw)
        lines.append(f"ws {refdim} {fr(th_eff)} {g} {f}")
        if ok:
            idx, label = [int(x) for x in ws[0]], [int(x) for x in ws[1]]
            impl.append(("txt", " ".join(map(str, idx)) + " | " + " ".join(map(str, label))))
            h = [min((j for j in nbv[i] if col[j] == max(col[k] for k in nbv[i])), default=i) if valid[i] else -1
                 for i in range(V)]
            root = list(range(V))
            for v in range(V):
                w = v
                for _ in range(V + 1):
                    if valid[w]:
                        w = h[w]
                root[v] = w if valid[v] else -1
            if any((label[v] >= 0) != bool(valid[v]) for v in range(V)):
                fails.append(f"custom_watershed does not label exactly the above-threshold vertices: {label}")
            else:
                firsts = []
                for v in range(V):
                    if valid[v] and root[v] not in firsts:
                        firsts.append(root[v])
                want_label = [firsts.index(root[v]) if valid[v] else -1 for v in range(V)]
                if label != want_label or idx != firsts:
                    fails.append(f"custom_watershed disagrees with steepest-ascent basins: idx={idx} label={label} "
                                 f"expected idx={firsts} label={want_label}")
                for cidx, r in enumerate(idx):
                    members = [v for v in range(V) if label[v] == cidx]
                    maxima = [v for v in members if h[v] == v]
                    if len(maxima) != 1 or (r not in members) or col[r] != max(col[m] for m in members):
                        fails.append(f"basin {cidx} of custom_watershed has maxima {maxima} (idx {r})")
                        break
        else:
            impl.append(("err", ws))
        # the same call against the model that computes idx as the code does (masked arg-max per basin)
        lines.append(f"wsc {refdim} {fr(th_eff)} {g} {f} 0")
        impl.append(impl[-1])
        # ---------------- bifurcations: model on every graph, superlevel-set oracle on symmetric ones
        ok, tb = call("threshold_bifurcations", refdim, **kw)
        if valid.any():     # the order NumPy gives on the thresholded column (same call, same data)
            order = np.argsort(- col[valid].copy())
        else:
            order = np.array([], dtype=int)
        lines.append(f"bif {refdim} {fr(th_eff)} {g} {f} {len(order)} " + " ".join(str(int(x)) for x in order))
        if ok:
            impl.append(("txt", " | ".join(" ".join(str(int(x)) for x in part) for part in tb)))
            if sym:
                msg = self._check_bifurcations(V, nbv, col, valid, tb)
                if msg:
                    fails.append(msg)
                tags.append("bifurcations")
            elif any((int(tb[2][v]) >= 0) != bool(valid[v]) for v in range(V)):
                fails.append(f"threshold_bifurcations does not label exactly the above-threshold vertices: "
                             f"{[int(x) for x in tb[2]]}")
            if valid.any():
                # cut index of the component-tree theorem at the level of every vertex of the order: the number of
                # regions born at or above that level, recomputed here from the values at the returned idx
                births = [float(col[int(i)]) for i in tb[0]]
                sub = col[valid]
                lines.append(f"bifk {refdim} {fr(th_eff)} {g} {f} {len(order)} " + " ".join(str(int(x)) for x in order))
                impl.append(("txt", " ".join(str(sum(1 for b in births if b >= float(sub[int(w)]))) for w in order)))
        else:
            impl.append(("err", tb))
        nontrivial = bool(c["edges"]) and len(set(col.tolist())) > 1
        return {"lines": lines, "impl": impl, "oracle": fails[0] if fails else None,
                "nontrivial": nontrivial, "tags": tags, "mutated": None}

    @staticmethod
    def _direct_lmax(V, nbv, col, valid):
        vs = [v for v in range(V) if valid[v]]
        first_up, rad = {}, {}
        for v in vs:
            ball, frontier, r = {v}, {v}, 0
            best = [col[v]]
            while frontier:
                frontier = {j for i in frontier for j in nbv[i]} - ball
                if not frontier:
                    break
                ball |= frontier
                r += 1
                best.append(max(best[-1], max(col[j] for j in frontier)))
            first_up[v] = next((k for k in range(1, len(best)) if best[k] > col[v]), None)
            rad[v] = next(k for k in range(len(best)) if best[k] == best[-1])
        K = max(rad.values(), default=0)
        return [(max(K, 1) if first_up[v] is None else first_up[v] - 1) if valid[v] else 0 for v in range(V)]

    @staticmethod
    def _check_bifurcations(V, nbv, col, valid, tb):
        idx, parent, label = [int(x) for x in tb[0]], [int(x) for x in tb[1]], [int(x) for x in tb[2]]
        q = len(idx)
        if any((label[v] >= 0) != bool(valid[v]) for v in range(V)):
            return f"threshold_bifurcations does not label exactly the above-threshold vertices: {label}"
        if len(parent) != q or any(not (0 <= l < q) for l in label if l >= 0):
            return f"threshold_bifurcations: labels {label} out of range for {q} regions"
        if any(label[idx[c]] != c or col[idx[c]] != max(col[v] for v in range(V) if label[v] == c)
               for c in range(q)):
            return f"threshold_bifurcations: idx {idx} are not the maxima of their regions {label}"
        if any(not (parent[c] == c or (c < parent[c] < q and col[idx[parent[c]]] <= col[idx[c]])) for c in range(q)):
            return f"threshold_bifurcations: parent array {parent} is not a hierarchy of the maxima"
        birth = [col[idx[c]] for c in range(q)]
        for t in sorted({col[v] for v in range(V) if valid[v]}):
            S = [v for v in range(V) if valid[v] and col[v] >= t]
            comp = {}
            for s in S:                      # components of the superlevel set, by search
                if s in comp:
                    continue
                comp[s] = s
                stack = [s]
                while stack:
                    u = stack.pop()
                    for j in nbv[u]:
                        if col[j] >= t and j not in comp:
                            comp[j] = s; stack.append(j)

            def alive(cn):
                while parent[cn] != cn and birth[parent[cn]] >= t:
                    cn = parent[cn]
                return cn
            pairs = {(comp[v], alive(label[v])) for v in S}
            if len({a for a, _ in pairs}) != len(pairs) or len({b for _, b in pairs}) != len(pairs):
                return (f"threshold_bifurcations: at level {t} the regions alive do not coincide with the "
                        f"connected components of the superlevel set (label={label}, parent={parent})")
        return None

    def _fhist(self, c):
        return c12_hist.run_history(c)

    def _fieldhist(self, c):
        return c12_fieldhist.run_history(c)

    # ---- forests ----
    def _forest(self, c):
        from nipy.algorithms.graph.forest import Forest
        V, ps = c["V"], c["parents"]
        # the same parent numbers in another integer type / memory layout (unsigned only when nothing is negative)
        dt = c.get("pdtype", "int64")
        if any(x < 0 for x in ps) and dt.startswith("uint") or any(abs(x) > 120 for x in ps):
            dt = "int64"
        parr = lay_out(np.array(ps, dtype=dt), c.get("playout", "C"))
        lines, impl, fails, tags = [f"forest {V} {plist(ps)}"], [], [], ["forest", "pdtype=" + dt,
                                                                         "playout=" + c.get("playout", "C")]
        snap = Snapshot(p=parr)
        try:
            F = Forest(V, parr)
            built = True
            impl.append(("txt", "ok"))
        except Exception as e:   # noqa: BLE001
            built = False
            impl.append(("err", errname(e)))
        inrange = len(ps) == V and all(0 <= x < V for x in ps)

        def reaches_root(v):
            w = v
            for _ in range(V):
                w = ps[w]
            return ps[w] == w
        acyclic = inrange and all(reaches_root(v) for v in range(V))
        if inrange and built != acyclic:
            fails.append(f"Forest({V}, {ps}) " + ("accepted a parent array with a cycle" if built
                                                   else "refused an acyclic parent array"))
        if not inrange:
            tags.append("malformed")
            if built:
                fails.append(f"Forest({V}, {ps}) accepted a parent array with entries outside 0..{V - 1}: "
                             f"isroot() = {[bool(x) for x in F.isroot()]}")
            elif len(ps) == V:
                from nipy.algorithms.clustering.hierarchical_clustering import WeightedForest
                try:
                    WeightedForest(V, parr.copy(), np.zeros(V))
                    fails.append(f"WeightedForest({V}, {ps}) accepted a parent array with entries outside 0..{V - 1}")
                except (ValueError, IndexError):
                    pass
        if not built or not inrange or not acyclic:      # nothing further is defined for an object that is no forest
            tags.append("refused" if not built else "built")
            return {"lines": lines, "impl": impl, "oracle": fails[0] if fails else None,
                    "nontrivial": True, "tags": tags, "mutated": snap.changed()}
        tags.append("built")
        # direct definitions
        kids = [[u for u in range(V) if ps[u] == v and u != v] for v in range(V)]

        def anc(v):
            out, w = [v], v
            while ps[w] != w:
                w = ps[w]; out.append(w)
            return out
        desc = [sorted(u for u in range(V) if v in anc(u)) for v in range(V)]

        def height(v):
            return 0 if not kids[v] else 1 + max(height(u) for u in kids[v])
        hts = [height(v) for v in range(V)]
        try:
            ch = [list(map(int, x)) for x in F.get_children()]
            leaf = [bool(x) for x in F.isleaf()]
            root = [bool(x) for x in F.isroot()]
            depth = [int(x) for x in F.depth_from_leaves()]
            dsc = [[int(x) for x in F.get_descendants(v)] for v in range(V)]
            lines.append(f"finfo {V} {frs(ps)}")
            impl.append(("txt", " | ".join([" ; ".join(" ".join(map(str, x)) for x in ch),
                                            " ".join(str(int(b)) for b in leaf),
                                            " ".join(str(int(b)) for b in root),
                                            " ".join(map(str, depth)),
                                            " ; ".join(" ".join(map(str, x)) for x in dsc)])))
            if ch != kids:
                fails.append(f"children {ch} inconsistent with parents {ps}")
            if leaf != [not k for k in kids] or root != [ps[v] == v for v in range(V)]:
                fails.append(f"isleaf/isroot inconsistent with parents {ps}: {leaf} {root}")
            if dsc != desc:
                fails.append(f"get_descendants {dsc} inconsistent with ancestry of parents {ps}")
            if any([int(x) for x in F.get_descendants(v, exclude_self=True)] != [u for u in desc[v] if u != v]
                   for v in range(V)):
                fails.append("get_descendants(exclude_self=True) inconsistent")
            bad = [v for v in range(V) if ps[v] != v and depth[ps[v]] <= depth[v]]
            if bad:
                fails.append(f"depth_from_leaves {depth} of parents {ps} does not increase strictly from node "
                             f"{bad[0]} to its parent {ps[bad[0]]}")
            elif depth != hts:
                fails.append(f"depth_from_leaves {depth} differs from the height above the leaves {hts}")
            if F.tree_depth() != max(depth) + 1:
                fails.append("tree_depth inconsistent with depth_from_leaves")
            # reorder
            G = Forest(V, parr.copy())
            order = [int(x) for x in G.reorder_from_leaves_to_roots()]
            newp = [int(x) for x in G.parents]
            lines.append(f"reorder {V} {frs(ps)} {frs(order)}")
            impl.append(("txt", " ".join(map(str, newp))))
            if sorted(order) != list(range(V)):
                fails.append(f"reorder_from_leaves_to_roots returned a non-permutation {order}")
            else:
                io = {o: i for i, o in enumerate(order)}
                if any(newp[io[v]] != io[ps[v]] for v in range(V)):
                    fails.append(f"reordering does not preserve ancestry: parents {ps} order {order} -> {newp}")
                elif any(newp[i] < i for i in range(V)) or any(newp[i] == i and ps[order[i]] != order[i] for i in range(V)):
                    fails.append(f"after reordering parents {ps} a parent precedes its child: {newp}")
                elif G.E != 2 * sum(newp[i] != i for i in range(V)):
                    fails.append("edges not rebuilt after reordering")
            # sub-forest
            valid = np.array(c["valid"])
            lines.append(f"subforest {V} {frs(ps)} {frs(c['valid'])}")
            try:
                S = F.subforest(valid)
                sp = [int(x) for x in S.parents]
                impl.append(("txt", " ".join(map(str, sp))))
                keep = [v for v in range(V) if valid[v]]
                want = [keep.index(ps[v]) if valid[ps[v]] else keep.index(v) for v in keep]
                if sp != want:
                    fails.append(f"subforest({c['valid']}) of parents {ps} gives {sp}, ancestry among retained "
                                 f"nodes is {want}")
            except Exception as e:   # noqa: BLE001
                impl.append(("err", errname(e)))
                if valid.sum() > 0:
                    fails.append(f"subforest({c['valid']}) raised {type(e).__name__}: {e}")
            lines.append(f"merge {V} {frs(ps)}")
            try:
                M = F.merge_simple_branches()
                impl.append(("txt", " ".join(str(int(x)) for x in M.parents)))
            except Exception as e:   # noqa: BLE001
                impl.append(("err", errname(e)))
            # upward propagation
            prop = np.array(c["prop"], dtype=bool)
            out = [bool(x) for x in F.propagate_upward_and(prop)]
            lines.append(f"pand {V} {frs(ps)} {frs(c['prop'])}")
            impl.append(("txt", " ".join(str(int(b)) for b in out)))
            for v in range(V):
                want = bool(prop[v]) if not kids[v] else all(out[u] for u in kids[v])
                if out[v] != want:
                    fails.append(f"propagate_upward_and: node {v} is {out[v]} but the and of its children is "
                                 f"{want} (parents {ps}, prop {c['prop']})")
                    break
            lab = np.array(c["label"], dtype=np.int_)
            out = [int(x) for x in F.propagate_upward(lab)]
            lines.append(f"pup {V} {frs(ps)} {frs(c['label'])}")
            impl.append(("txt", " ".join(map(str, out))))
            for v in sorted(range(V), key=lambda x: hts[x]):
                ks = {out[u] for u in kids[v]}
                want = ks.pop() if len(ks) == 1 else int(lab[v])
                if out[v] != want:
                    fails.append(f"propagate_upward: node {v} has label {out[v]}, documented rule gives {want} "
                                 f"(parents {ps}, labels {c['label']})")
                    break
            self._weighted(c, ps, parr, kids, hts, lines, impl, fails, tags)
        except Exception as e:   # noqa: BLE001
            fails.append(f"Forest query raised {type(e).__name__}: {e} on parents {ps}")
            while len(impl) < len(lines):
                impl.append(("err", errname(e)))
        return {"lines": lines, "impl": impl, "oracle": fails[0] if fails else None,
                "nontrivial": any(ps[v] != v for v in range(V)), "tags": tags, "mutated": snap.changed()}

    # ---- WeightedForest (hierarchical_clustering.py): a Forest with heights ----
    @staticmethod
    def _weighted(c, ps, parr, kids, hts, lines, impl, fails, tags):
        from nipy.algorithms.clustering.hierarchical_clustering import WeightedForest
        V = len(ps)
        mode = c.get("hmode", "depth")
        raw = (c.get("hraw") or [0.0] * V)[:V] + [0.0] * V
        hs = {"depth": [float(x) for x in hts], "half": [float(x // 2) for x in hts],
              "const": [1.0] * V}.get(mode, raw[:V])
        th, k = c.get("wth", 1.0), c.get("wk", 2)
        W = WeightedForest(V, parr.copy(), np.array(hs))
        tags.append("wf-height=" + mode)
        if list(W.get_height()) != hs:
            fails.append("WeightedForest.get_height() is not the height given to the constructor")
        W.set_height(np.array(hs[::-1]))
        if list(W.get_height()) != hs[::-1]:
            fails.append("WeightedForest.set_height/get_height do not round-trip")
        W.set_height(np.array(hs))
        try:
            W.set_height(np.zeros(V + 1))
            fails.append("WeightedForest.set_height accepted a height array of the wrong size")
        except ValueError:
            pass
        compat = bool(W.check_compatible_height())
        if compat != all(hs[ps[v]] >= hs[v] for v in range(V)):
            fails.append(f"check_compatible_height() = {compat} on parents {ps} heights {hs}")

        def leaf_groups(valid):
            """labels (numbered by smallest vertex of the tree) of the leaves of the cut forest"""
            keep = [v for v in range(V) if valid[v]]
            par = {v: (ps[v] if valid[ps[v]] else v) for v in keep}

            def top(v):
                while par[v] != v:
                    v = par[v]
                return v
            tops = []
            for v in keep:
                if top(v) not in tops:
                    tops.append(top(v))
            has_kid = {par[v] for v in keep if par[v] != v}
            return [tops.index(top(v)) for v in keep if v not in has_kid]

        def obs(fn):
            try:
                return "[" + " ".join(str(int(x)) for x in fn()) + "]", None
            except ValueError as e:
                return "error:valueError", e
        ptxt, perr = obs(lambda: W.partition(th))
        valid = [hs[v] < th for v in range(V)]
        if perr is None:
            want = "[" + " ".join(map(str, leaf_groups(valid))) + "]"
            if ptxt != want:
                fails.append(f"partition({th}) = {ptxt}; the leaves of the forest cut below {th} fall in trees {want} "
                             f"(parents {ps} heights {hs})")
        elif any(valid):
            fails.append(f"partition({th}) raised {perr} although nodes lie below the threshold")
        stxt, serr = obs(lambda: W.split(k))
        if serr is not None:
            fails.append(f"split({k}) raised {serr} (parents {ps} heights {hs})")
        else:
            got = [int(x) for x in stxt[1:-1].split()]
            nb = len({v for v in range(V) if ps[v] == v})
            nleaf = sum(1 for v in range(V) if not kids[v])
            if k <= nb and got != leaf_groups([True] * V):
                fails.append(f"split({k}) with {nb} trees does not return the tree of every leaf: {got}")
            if len(got) == 0 or sorted(set(got)) != list(range(max(got) + 1)):
                fails.append(f"split({k}) labels {got} are not 0..m")
            if compat and mode == "depth" and nb <= k and all(len(x) in (0, 2) for x in kids):
                # a binary dendrogram with strictly increasing heights: exactly min(k, #leaves) groups
                if len(set(got)) != min(k, nleaf):
                    fails.append(f"split({k}) of a binary dendrogram gives {len(set(got))} groups: {got} "
                                 f"(parents {ps} heights {hs})")
        sub = [[int(x) for x in l] for l in W.list_of_subtrees()]
        lines.append(f"wf {V} {frs(ps)} {V} {frs(hs)} {fr(th)} {k}")
        impl.append(("txt", f"{int(compat)} | {ptxt} | {stxt} | " + " ; ".join(" ".join(map(str, l)) for l in sub)))

    # ------------------------------------------------------------------
    def compare(self, case, impl_obs, model_out):
        kind, val = impl_obs[0], impl_obs[1]
        if kind == "hist":
            return c12_hist.compare_hist(val, model_out)
        if kind == "err":
            return None if model_out == val else f"impl={val} model={model_out}"
        if kind == "txt":
            return None if " ".join(model_out.split()) == " ".join(val.split()) else f"impl={val!r} model={model_out!r}"
        if kind == "cols":
            if model_out.startswith(("error", "bad-op")):
                return f"impl returned values, model says {model_out}"
            if case["kind"] != "diffusion":
                want = fmt_cols(val)
                return None if want == model_out else f"impl={want} model={model_out}"
            mcols = model_out.split(" | ")
            if len(mcols) != len(val):
                return f"column count impl={len(val)} model={len(mcols)}"
            for a, b in zip(val, mcols):
                d = cmp_rats(a, b)
                if d:
                    return d
            return None
        return "unknown observation kind"

    def shrink(self, case):
        k = case["kind"]
        if k in ("morph", "diffusion", "thresh", "small"):
            E = case["edges"]
            pairs = sorted({(min(i, j), max(i, j)) for i, j, _ in E})
            for pr in pairs:                         # drop an undirected pair
                c = dict(case); c["edges"] = [e for e in E if (min(e[0], e[1]), max(e[0], e[1])) != pr]
                yield c
            V = case["V"]
            if V > 1:                                # drop the last vertex
                c = dict(case); c["V"] = V - 1
                c["edges"] = [e for e in E if e[0] < V - 1 and e[1] < V - 1]
                c["field"] = case["field"][:-1]
                yield c
            if len(case["field"][0]) > 1 and k != "thresh":
                c = dict(case); c["field"] = [r[:1] for r in case["field"]]
                yield c
            if case.get("n", 1) > 1:
                c = dict(case); c["n"] = case["n"] - 1
                yield c
        elif k == "fhist":
            yield from c12_hist.shrink_hist(case)
        elif k == "fieldhist":
            yield from c12_fieldhist.shrink_hist(case)
        elif k == "forest":
            V, ps = case["V"], case["parents"]
            if len(ps) == V and V > 1:
                for v in range(V - 1, -1, -1):       # remove a node nobody points to
                    if all(ps[u] != v or u == v for u in range(V)):
                        ren = lambda x: x - (x > v)
                        c = dict(case); c["V"] = V - 1
                        c["parents"] = [ren(ps[u]) for u in range(V) if u != v]
                        for key in ("valid", "prop", "label"):
                            c[key] = [case[key][u] for u in range(V) if u != v]
                        yield c

    def classify(self, case, failure):
        # Forest / WeightedForest constructor: `parents.max() > V` is the only range guard in the unpatched
        # code (proposed_fixes/C12-forest-parent-range.patch); the key is only used if the coordinator lists it
        if case.get("kind") == "forest":
            ps, V = case.get("parents", []), case.get("V", 0)
            if len(ps) == V and any(not (0 <= x < V) for x in ps):
                return "forest-parent-range"
        return None


CHECK = C12()
