"""C03, file level (wave 3): images that come FROM a file.

An `infile` case is a NIfTI file written with nibabel alone (any header an incoming file may carry:
sform only / qform only / both and different / neither, every code, non-default `xyzt_units`, `toffset`,
`dim_info`, `pixdim[4:8]`, intent, scaling set on integer or float storage, big- or little-endian, single
file / gzipped / header-data pair / NIfTI-2, 3..7 dimensions with a length-1 4th axis with and without time
units), then a history on the loaded object: `load_image` -> (`save_image(dtype_from, ext)` -> `load_image`)*.

Correspondence lines (model: `Model/C03F.lean`): `loadf` (what `load_image` makes of the header fields),
`best` (the affine nibabel reads: sform rows / the qform affine from the stored quaternion / base affine),
`unbytes` / `bytes` (packed `dim_info` and `xyzt_units`), `scale` (loaded value = stored*slope+inter in
binary64, exactly), `saveh` (the header `nipy2nifti` writes for the loaded image, on the header it carries),
`dhist` (storage dtype along the history).  Oracle: the loaded image saved and loaded again is the same image
(names, shape, affine to float32 rounding and exactly from the second time on, data to the precision of the
storage type), refusals are HeaderDataError exactly where the storage format cannot hold the dtype.

`present()` builds the data array of a nipy image in a given dtype / memory layout (same numbers).
"""
from __future__ import annotations

import os
import shutil
import tempfile
import warnings

import numpy as np

from harness.util import close, errname, fr, frs, parse_rats

IN_FORMATS = ["nii", "nii", "nii.gz", "pair", "pair.gz", "nii2"]
IN_DTYPES = ["u1", "i2", "i2", "i4", "f4", "f8", "i1", "u2", "u4", "i8"]
STAGE_EXTS = [".nii", ".nii", ".nii.gz", ".hdr", ".hdr.gz", ".img", ".img.gz"]
STAGE_FROM = ["data", "header", "header", "u1", "i2", "i4", "f4", "f8", "i1", "u2"]
NP_NAME = {"u1": "uint8", "i2": "int16", "i4": "int32", "f4": "float32", "f8": "float64", "i1": "int8",
           "u2": "uint16", "u4": "uint32", "i8": "int64", "u8": "uint64"}
ANALYZE_OK = {"uint8", "int16", "int32", "float32", "float64"}
LAYOUTS = ["C", "C", "F", "T", "neg", "ro", "mm", "be", "step"]
DATA_DTYPES = ["f8", "f8", "f8", "f4", "i2", "u1", "i4", "i1", "u2", "i8", "u4"]


# ----------------------------------------------------------------------
# data presentations
# ----------------------------------------------------------------------
def choose_pres(rng, size):
    """(dtype, layout) for the array of a nipy image holding the values 0..size-1"""
    dt = rng.choice(DATA_DTYPES)
    if (dt == "u1" and size > 250) or (dt == "i1" and size > 120):
        dt = "i2"
    lay = rng.choice(LAYOUTS)
    if lay == "be" and dt in ("u1", "i1"):
        lay = "C"
    return {"dtype": dt, "layout": lay}


def present(shape, pres, tmpdir=None):
    """the array `arange(prod(shape)).reshape(shape)` in the dtype and memory layout of `pres`"""
    shape = tuple(int(s) for s in shape)
    n = int(np.prod(shape)) if shape else 1
    pres = pres or {"dtype": "f8", "layout": "C"}
    dt = np.dtype(pres["dtype"])
    base = np.arange(n, dtype=float).reshape(shape).astype(dt)
    lay = pres["layout"]
    if lay == "F":
        return np.asfortranarray(base)
    if lay == "T":                       # a transposed view of an array stored in the reversed order
        return np.ascontiguousarray(base.transpose()).transpose()
    if lay == "neg":                     # negative strides along every axis
        rev = base[tuple(slice(None, None, -1) for _ in shape)].copy()
        return rev[tuple(slice(None, None, -1) for _ in shape)]
    if lay == "step":                    # every second element of a larger buffer along the last axis
        big = np.zeros(shape[:-1] + (2 * shape[-1],), dtype=dt)
        big[..., ::2] = base
        big[..., 1::2] = 77
        return big[..., ::2]
    if lay == "ro":
        base.setflags(write=False)
        return base
    if lay == "be":
        return base.astype(dt.newbyteorder(">"))
    if lay == "mm" and tmpdir is not None and n:
        p = os.path.join(tmpdir, f"mm{abs(hash((shape, pres['dtype']))) % 10 ** 8}.dat")
        m = np.memmap(p, dtype=dt, mode="w+", shape=shape)
        m[...] = base
        m.flush()
        del m
        return np.memmap(p, dtype=dt, mode="r", shape=shape)
    return base


# ----------------------------------------------------------------------
# generation
# ----------------------------------------------------------------------
def _rot_affine(rng, shape3):
    """zooms x (signed permutation or a dyadic-quaternion rotation) + translation: what a qform can hold"""
    z = [rng.choice([1.0, 2.0, 0.5, 3.0, 1.5, 4.0, 0.75]) for _ in range(3)]
    kind = rng.choice(["diag", "flip", "perm", "perm", "cyc", "oblique"])
    R = np.eye(3)
    if kind in ("flip", "perm"):
        for r in range(3):
            if rng.random() < 0.5:
                R[r, r] = -1.0
    if kind == "perm":
        p = list(range(3)); rng.shuffle(p)
        R = R[p, :]
    if kind == "cyc":                    # quaternion (1/2, 1/2, 1/2, 1/2): x -> y -> z -> x
        R = np.array([[0.0, 0, 1], [1, 0, 0], [0, 1, 0]])
        if rng.random() < 0.5:
            R = R.T
    if kind == "oblique":                # a rotation by atan(3/4) about a coordinate axis (entries 0.6, 0.8)
        a = rng.randrange(3)
        i, j = [k for k in range(3) if k != a]
        R[i, i], R[i, j], R[j, i], R[j, j] = 0.8, -0.6, 0.6, 0.8
    A = R @ np.diag(z)
    t = np.array([rng.choice([0.0, -12.5, 30.0, 7.0, -90.0, 1.5]) for _ in range(3)])
    return A, t


def make_infile_case(rng, tier="quick"):
    import harness.props.C03 as B
    nd = rng.choice([3, 3, 4, 4, 4, 5, 5, 6, 7])
    shape = [rng.choice([1, 2, 2, 3]) for _ in range(3)]
    if nd > 3:
        shape.append(rng.choice([1, 1, 2, 3]))
        shape += [rng.choice([1, 2, 2]) for _ in range(nd - 4)]
    size = int(np.prod(shape))
    fmt = rng.choice(IN_FORMATS)
    dtype = rng.choice(IN_DTYPES)
    if (dtype == "u1" and size > 250) or (dtype == "i1" and size > 120):
        dtype = "i2"
    coding = rng.choice(["sform", "qform", "qform", "both", "both", "same", "neither"])
    if fmt == "nii2" and coding == "qform":
        coding = "both"                  # NIfTI-2 keeps its quaternion in binary64: not the header nipy carries on
    A, t = B._spatial(rng, "mni", shape[:3])
    A2, t2 = _rot_affine(rng, shape[:3])
    while fmt == "nii2" and not np.array_equal(A2, A2.astype("f4")):
        A2, t2 = _rot_affine(rng, shape[:3])   # NIfTI-2 keeps binary64 transforms: only numbers binary32 holds too
    codes = [1, 2, 3, 4]
    sform = rng.choice(codes) if coding in ("sform", "both", "same") else 0
    qform = rng.choice(codes) if coding in ("qform", "both", "same") else 0
    if coding == "same":
        A, t, qform = A2, t2, sform
    tunits = rng.choice(["unknown", "unknown", "sec", "sec", "msec", "usec", "hz", "ppm", "rads"])
    scaling = rng.choice([None, None, [2.0, 0.0], [0.5, 3.0], [1.0, -1.0], [1.0, 0.0], [0.1, 0.3], [0.0, 5.0],
                          [-0.25, 100.0], [3.0, 1e-3]])
    k = rng.choice([0, 0, 1, 1, 2, 3])
    stages = []
    for _ in range(k):
        ext = rng.choice(STAGE_EXTS)
        df = rng.choice(STAGE_FROM)
        stages.append({"dtype_from": df, "ext": ext, "resave": rng.random() < 0.4})
    return {"kind": "infile", "fmt": fmt, "endian": rng.choice(["<", "<", ">"]), "shape": shape, "dtype": dtype,
            "coding": coding, "sform": sform, "qform": qform, "A": np.asarray(A).tolist(), "t": np.asarray(t).tolist(),
            "A2": A2.tolist(), "t2": t2.tolist(),
            "sunits": rng.choice(["mm", "mm", "mm", "unknown", "meter", "micron"]), "tunits": tunits,
            "diminfo": rng.choice([[None, None, None]] * 2 + [[0, 1, 2], [2, 0, 1], [1, None, 0], [None, 2, None],
                                                             [2, 1, 0], [None, None, 1]]),
            "toffset": rng.choice([0.0, 0.0, 42.0, -1.5, 0.25, 1000.0]),
            # only the 4th (time-like) axis may have a zero step (the quantifier: positive scaling elsewhere)
            "pixdim": [rng.choice([0.0, 1.0, 2.0, 2.5, 0.5, 3.0, 2500.0, 0.1])] +
                      [rng.choice([1.0, 2.0, 2.5, 0.5, 3.0, 1500.0, 0.1]) for _ in range(3)],
            "scaling": scaling,
            "intent": rng.choice([None, None, ["t test", [10.0], "tmap"], ["z score", [], ""], ["vector", [], "vec"]]),
            "descrip": rng.choice(["", "incoming"]), "mnc": rng.random() < 0.03, "stages": stages}


# ----------------------------------------------------------------------
# running
# ----------------------------------------------------------------------
def _write_incoming(c, tmp):
    """the incoming file, written without nipy"""
    import nibabel as nib
    two = c["fmt"] == "nii2"
    hcls = nib.Nifti2Header if two else (nib.nifti1.Nifti1PairHeader if c["fmt"].startswith("pair") else nib.Nifti1Header)
    icls = nib.Nifti2Image if two else (nib.Nifti1Pair if c["fmt"].startswith("pair") else nib.Nifti1Image)
    hdr = hcls(endianness=c["endian"])
    dt = np.dtype(c["dtype"]).newbyteorder(c["endian"])
    hdr.set_data_dtype(dt)
    shape = tuple(c["shape"])
    hdr.set_data_shape(shape)
    aff = np.eye(4); aff[:3, :3] = c["A"]; aff[:3, 3] = c["t"]
    aff2 = np.eye(4); aff2[:3, :3] = c["A2"]; aff2[:3, 3] = c["t2"]
    hdr.set_qform(aff2, c["qform"])
    if c["coding"] in ("sform", "neither"):
        # zooms without a qform: pixdim[1:4] are what the base affine is made of
        hdr["pixdim"][1:4] = np.sqrt((np.asarray(c["A2"]) ** 2).sum(0))
        if c["coding"] == "sform":
            hdr["quatern_b"] = hdr["quatern_c"] = hdr["quatern_d"] = 0
    hdr.set_sform(aff if c["sform"] else None, c["sform"])
    hdr.set_xyzt_units(None if c["sunits"] == "unknown" else c["sunits"],
                       None if c["tunits"] == "unknown" else c["tunits"])
    hdr.set_dim_info(*c["diminfo"])
    hdr["toffset"] = c["toffset"]
    nd = len(shape)
    if nd > 3:
        hdr["pixdim"][4:nd + 1] = c["pixdim"][:nd - 3]
    if c["intent"]:
        hdr.set_intent(c["intent"][0], tuple(c["intent"][1]), name=c["intent"][2])
    hdr["descrip"] = c["descrip"].encode()
    n = int(np.prod(shape))
    stored = np.arange(n, dtype=float).reshape(shape)
    if dt.kind == "f":
        stored = stored * 0.5 - 3.0
    elif dt.kind == "i":
        stored = stored - min(n // 3, 20)
    stored = stored.astype(dt)
    img = icls(stored, None, hdr)
    # the image constructor resets the scaling fields: set them on the image's own header; nibabel then writes
    # the array as it is, with these fields (a slope of 0 means "no scaling" to the reader)
    if c["scaling"] is not None:
        img.header["scl_slope"] = c["scaling"][0]
        img.header["scl_inter"] = c["scaling"][1]
    ext = {"nii": ".nii", "nii.gz": ".nii.gz", "pair": ".hdr", "pair.gz": ".hdr.gz", "nii2": ".nii"}[c["fmt"]]
    path = os.path.join(tmp, "incoming" + ext)
    img.to_filename(path)
    with nib.openers.ImageOpener(path) as f:
        disk_hdr = hcls.from_fileobj(f, check=False)
    return path, stored, disk_hdr


def _canon_spec(img):
    """the `spec` of a canonical (loaded) image for C03._compare_images"""
    names = list(img.coordmap.function_range.coord_names)
    n = len(names)
    tl = names[3] if n > 3 and names[3] in ("t", "hz", "ppm", "rads") else None
    return {"xyz_rows": [0, 1, 2], "tl": tl, "time_row": 3 if tl else None, "time_col": 3 if tl else None,
            "extras": [[j, j] for j in range(4 if tl else 3, n)], "space": None, "plain_xyz": True}


def _disk_tol(rimg, vals):
    """precision of the storage type of a file just written: half a quantisation step for scaled integers,
    a float32 ulp for float32, exact otherwise"""
    dt = rimg.header.get_data_dtype()
    big = float(np.abs(vals).max()) if vals.size else 0.0
    sl = getattr(rimg.dataobj, "slope", 1.0) or 1.0
    if dt.kind in "iu":
        step = abs(float(sl))
        inter = abs(float(getattr(rimg.dataobj, "inter", 0.0) or 0.0))
        if step == 1.0 and inter == 0.0 and np.all(vals == np.round(vals)):
            return 0.0
        # half a quantisation step, plus the float32 precision of scl_slope / scl_inter (NIfTI-1 keeps them in
        # binary32: stored * slope + inter carries their relative rounding)
        return 0.5 * step * (1 + 1e-3) + 2.0 ** -22 * (big + 2 * inter) + 1e-12
    if dt == np.dtype("f4") or dt.newbyteorder("=") == np.dtype("f4"):
        return 2.0 ** -23 * max(big, 1e-30)
    return 0.0


SPACE_OF_CODE = {0: "unknown", 1: "scanner", 2: "aligned", 3: "talairach", 4: "mni"}
T_SCALE = {"sec": 1.0, "msec": 1e-3, "usec": 1e-6}


def _file_geo(hdr):
    """the geometry a NIfTI header states, in nipy's units (mm, seconds): the code naming the space of the
    transform in force, that transform, time-like kind, time step, origin (seconds only), other steps, dim_info"""
    shape = [int(x) for x in hdr.get_data_shape()]
    nd = len(shape)
    sf, qf = int(hdr["sform_code"]), int(hdr["qform_code"])
    code = sf if sf else qf
    su, tu = hdr.get_xyzt_units()
    best = np.array(hdr.get_best_affine(), dtype=float)
    best[:3] *= {"micron": 1e-3, "meter": 1e3}.get(su, 1.0)
    zooms = [float(z) for z in hdr.get_zooms()[3:]]
    if nd == 3 or (shape[3] == 1 and nd > 4 and tu == "unknown"):
        kind, tr, t0, rest, shp = None, None, None, zooms[1:], shape[:3] + shape[4:]
    else:
        kind = "t" if tu in ("unknown", "sec", "msec", "usec") else tu
        tr = zooms[0] * T_SCALE.get(tu, 1.0)
        t0 = float(hdr["toffset"]) if tu in ("unknown", "sec") else None
        rest, shp = zooms[1:], shape
    return {"space": SPACE_OF_CODE.get(code, "unknown"), "affine": best, "kind": kind, "tr": tr, "t0": t0,
            "steps": rest, "diminfo": list(hdr.get_dim_info()), "shape": shp}


def _geo_same(a, b, what):
    """file -> load_image -> save_image -> file: both headers state the same geometry"""
    if a["space"] != b["space"]:
        return f"{what}: the transform in force was in the '{a['space']}' space, the file written says '{b['space']}'"
    if a["shape"] != b["shape"]:
        return f"{what}: shape {a['shape']} became {b['shape']} in the file written"
    tol = 2.0 ** -22 * np.abs(a["affine"]) + 1e-30
    if np.any(np.abs(a["affine"] - b["affine"]) > tol):
        return f"{what}: the transform in force {a['affine'].tolist()} became {b['affine'].tolist()} in the file written"
    if a["kind"] != b["kind"]:
        return f"{what}: time-like axis '{a['kind']}' of the file became '{b['kind']}' in the file written"
    if a["kind"] is not None and abs(a["tr"] - b["tr"]) > 2.0 ** -21 * abs(a["tr"]):
        return f"{what}: time step {a['tr']} s of the file became {b['tr']} s in the file written"
    if a["kind"] == "t" and a["t0"] is not None and b["t0"] is not None and abs(a["t0"] - b["t0"]) > 2.0 ** -21 * abs(a["t0"]):
        return f"{what}: time origin {a['t0']} s of the file became {b['t0']} s in the file written"
    if len(a["steps"]) != len(b["steps"]) or any(abs(x - y) > 2.0 ** -21 * abs(x) for x, y in zip(a["steps"], b["steps"])):
        return f"{what}: steps of the other axes {a['steps']} became {b['steps']}"
    if a["diminfo"] != b["diminfo"]:
        return f"{what}: dim_info (freq, phase, slice) {a['diminfo']} became {b['diminfo']}"
    return None


def run_infile(check, c):
    import nibabel as nib
    import harness.props.C03 as B
    from nipy.io import nifti_ref as nr
    from nipy.io.api import load_image, save_image
    from nibabel.spatialimages import HeaderDataError
    lines, impl, tags, fail, mut = [], [], ["infile", "in-" + c["fmt"], "in-coding=" + c["coding"],
                                            "in-endian" + c["endian"], "in-dtype=" + c["dtype"],
                                            f"in-ndim={len(c['shape'])}", "in-tunits=" + c["tunits"],
                                            "in-sunits=" + c["sunits"]], None, None
    if c["scaling"] is not None:
        tags.append("in-scaled")
    tmp = tempfile.mkdtemp(prefix="c03f-")
    try:
        path, stored, disk_hdr = _write_incoming(c, tmp)
        # ---- the .mnc guard of load (a name only: nothing is read)
        if c["mnc"]:
            try:
                load_image(os.path.join(tmp, "scan.mnc"))
                out = "ok"
            except Exception as e:
                out = errname(e)
            lines.append("loadf scan.mnc " + B._raw_tokens(B._raw_obs(nib.Nifti1Header())))
            impl.append(("txt", out))
        rimg = nib.load(path)
        raw_in = nib.Nifti1Header.from_header(rimg.header)
        with warnings.catch_warnings(record=True) as wlist:
            warnings.simplefilter("always")
            try:
                img = load_image(path)
                arr = np.asarray(img.get_fdata())
            except Exception as e:
                return {"lines": lines, "impl": impl, "nontrivial": True, "tags": tags + ["load-raised"], "mutated": None,
                        "oracle": f"load_image raised {type(e).__name__}: {str(e).replace(tmp, '<tmp>')} on a valid "
                                  f"{c['fmt']} file ({c['coding']}, shape {c['shape']}, {c['dtype']}{c['endian']})"}
        msgs = [str(w.message) for w in wlist]
        want_intent = c["intent"] is not None
        if want_intent != any("Ignoring intent" in m for m in msgs):
            fail = fail or f"load_image: intent {c['intent']} and the 'Ignoring intent' warning do not go together ({msgs[:2]})"
        if (c["sunits"] in ("meter", "micron")) != any("space scaling" in m for m in msgs):
            fail = fail or f"load_image: space units {c['sunits']} and the scaling warning do not go together"
        # ---- what load makes of the header fields
        rt = B._raw_tokens(B._raw_obs(raw_in))
        lines.append(f"loadf {os.path.basename(path)} {rt}")
        impl.append(("imgx", B._img_obs(img)))
        lines.append("best " + rt)
        impl.append(("best", np.asarray(rimg.affine).ravel().tolist()))
        su, tu = rimg.header.get_xyzt_units()
        lines.append(f"unbytes {int(rimg.header['dim_info'])} {int(rimg.header['xyzt_units'])}")
        impl.append(("txt", "ok " + " ".join(B._dim_tok(v) for v in rimg.header.get_dim_info()) + f" {su} {tu}"))
        # ---- data: loaded value = stored * slope + inter, exactly
        un = np.asarray(rimg.dataobj.get_unscaled())
        if not np.array_equal(un, stored):
            fail = fail or "harness: stored values read back differ from the values written"
        flat_s, flat_l = un.ravel()[:48].tolist(), arr.ravel()[:48].tolist()
        lines.append(f"scale {B._fnan(disk_hdr['scl_slope'])} {B._fnan(disk_hdr['scl_inter'])} "
                     f"{len(flat_s)} {frs(flat_s)}".rstrip())
        impl.append(("vals", flat_l))
        if arr.dtype != np.float64:
            fail = fail or f"load_image: data dtype {arr.dtype}, not float64"
        # ---- the image presents the geometry the file states
        geo = _file_geo(disk_hdr)
        names_o = list(img.coordmap.function_range.coord_names)
        if names_o[:3] != B.space_names(geo["space"]):
            fail = fail or (f"load_image: the transform in force is coded '{geo['space']}' (sform_code={c['sform']}, "
                            f"qform_code={c['qform']}) but the image is in {names_o[:3]}")
        ia = np.asarray(img.coordmap.affine, dtype=float)
        xyz = ia[:3][:, [0, 1, 2, ia.shape[1] - 1]]
        if np.any(np.abs(xyz - geo["affine"][:3]) > 1e-6 * np.abs(geo["affine"][:3]) + 1e-12):
            fail = fail or (f"load_image: x, y, z positions {xyz.tolist()} are not the transform in force "
                            f"{geo['affine'][:3].tolist()} ({c['coding']}-coded file, units {c['sunits']})")
        if (names_o[3] if len(names_o) > 3 and names_o[3] in ("t", "hz", "ppm", "rads") else None) != geo["kind"]:
            fail = fail or f"load_image: time-like axis of the file is '{geo['kind']}', the image has {names_o[3:]}"
        if geo["kind"] is not None and abs(ia[3, 3] - geo["tr"]) > 1e-6 * abs(geo["tr"]):
            fail = fail or f"load_image: time step of the file is {geo['tr']} s ({c['tunits']}), the image has {ia[3, 3]}"
        want3 = list("ijk")
        for nm, pos in zip(("freq", "phase", "slice"), geo["diminfo"]):
            if pos is not None:
                want3[pos] = nm
        if list(img.coordmap.function_domain.coord_names[:3]) != want3:
            fail = fail or (f"load_image: dim_info {geo['diminfo']} but the first axes are named "
                            f"{list(img.coordmap.function_domain.coord_names[:3])}")
        hist_ops, disk_obs = [], []
        cur, cur_arr, prev_exact, prev_geo = img, arr, False, geo
        for si, st in enumerate(c["stages"]):
            df, ext = st["dtype_from"], st["ext"]
            what = f"stage {si} (save_image(dtype_from={df!r}) to {ext} of an image loaded from a {c['coding']}-coded {c['fmt']} file)"
            hist_ops.append(f"save {df if df in ('data', 'header') else NP_NAME[df]} {ext}")
            tags += [f"in-stage={ext}", "in-from=" + ("data" if df == "data" else "header" if df == "header" else "dtype")]
            # the header nipy2nifti writes for the loaded image (the model gets the header it carries)
            hdr_c = cur.metadata.get("header")
            start_obs = B._raw_obs(nib.Nifti1Header.from_header(hdr_c))
            io = None if df == "header" else (cur_arr.dtype if df == "data" else np.dtype(df))
            stv = {"strict": False, "fix0": True, **B._img_obs(cur)}
            with B._Recorder() as rec:
                try:
                    ni = nr.nipy2nifti(cur, data_dtype=io, strict=False)
                    out = ("rawhdr", B._raw_obs(ni.header), np.asarray(ni.affine).ravel().tolist(), None, stv, "geo")
                except Exception as e:
                    ni, out = None, B._err_obs(e)
            if not any(v.split().count("-") >= 2 for v in rec.calls.values()):
                head = f"{int(stv['strict'])} {int(stv['fix0'])} {B._img_tokens(stv['in'], stv['out'], stv['aff'], stv['shape'])}"
                lines.append(f"saveh {head} {rec.table()} {'-' if io is None else np.dtype(io).name} 1 "
                             f"{cur_arr.dtype.name} {B._raw_tokens(start_obs)}")
                impl.append(out)
            if ni is None:
                fail = fail or f"{what}: nipy2nifti raised {out[2]} on an image that came out of a NIfTI file"
                break
            pth = os.path.join(tmp, f"s{si}{ext}")
            eff = ni.get_data_dtype().name
            try:
                ret = save_image(cur, pth, dtype_from=df)
            except HeaderDataError as e:
                disk_obs.append("-")
                tags.append("in-save-refused")
                if not (ext.startswith(".img") and eff not in ANALYZE_OK and "SPM analyze does not support" in str(e)):
                    fail = fail or f"{what}: refused with HeaderDataError: {e}"
                continue
            except Exception as e:
                if type(e).__name__ == "WriterError" and ext.startswith(".img") and np.dtype(eff).kind == "u" \
                        and cur_arr.size and float(cur_arr.min()) < 0:
                    # SPM Analyze has no intercept: negative values cannot go into an unsigned type (nibabel refuses)
                    hist_ops.pop()
                    tags.append("in-analyze-unsigned-refused")
                    continue
                fail = fail or f"{what} raised {type(e).__name__}: " + str(e).replace(tmp, "<tmp>")
                break
            if ret is not cur:
                fail = fail or f"{what}: save_image did not return its input image"
            try:
                rnew = nib.load(pth)
                back = load_image(pth)
                barr = np.asarray(back.get_fdata())
            except Exception as e:
                fail = fail or f"{what}: loading the file just written raised {type(e).__name__}: " + str(e).replace(tmp, "<tmp>")
                break
            disk_obs.append(rnew.header.get_data_dtype().newbyteorder("=").name)
            hist_ops.append("load"); disk_obs.append("-")
            analyze = ext.startswith(".img")
            if not analyze:
                rt2 = B._raw_tokens(B._raw_obs(nib.Nifti1Header.from_header(rnew.header)))
                lines.append(f"loadf {os.path.basename(pth)} {rt2}")
                impl.append(("imgx", B._img_obs(back)))
                s2, t2 = rnew.header.get_xyzt_units()
                lines.append("bytes " + " ".join(B._dim_tok(v) for v in rnew.header.get_dim_info()) + f" {s2} {t2}")
                impl.append(("txt", f"ok {int(rnew.header['dim_info'])} {int(rnew.header['xyzt_units'])}"))
            # ---- the round trip of the loaded image
            if fail is None:
                fail = _same_image(cur, cur_arr, back, barr, rnew, analyze, prev_exact and not analyze, what)
            if fail is None and not analyze and prev_geo is not None:
                with nib.openers.ImageOpener(pth) as f_:
                    new_geo = _file_geo(type(rnew.header).from_fileobj(f_, check=False))
                fail = _geo_same(prev_geo, new_geo, what)
                prev_geo = new_geo
            elif analyze:
                prev_geo = None
            if fail is None and not analyze and st["resave"]:
                # saved once more unchanged: from now on nothing may move
                p2 = os.path.join(tmp, f"r{si}{ext}")
                try:
                    save_image(back, p2, dtype_from="header")
                    again = load_image(p2)
                    fail = _same_image(back, barr, again, np.asarray(again.get_fdata()), nib.load(p2), False, True,
                                       what + ", saved once more with dtype_from='header'")
                    hist_ops += ["save header " + ext, "load"]
                    disk_obs += [nib.load(p2).header.get_data_dtype().newbyteorder("=").name, "-"]
                    back, barr = again, np.asarray(again.get_fdata())
                except Exception as e:
                    fail = f"{what}: saving the loaded image again raised {type(e).__name__}: " + str(e).replace(tmp, "<tmp>")
            if fail:
                break
            cur, cur_arr, prev_exact = back, barr, not analyze
        if hist_ops:
            lines.append(f"dhist float64 {np.dtype(c['dtype']).name} {len(hist_ops)} " + " ".join(
                op.replace("  ", " ") for op in hist_ops))
            impl.append(("dhist", disk_obs))
    finally:
        shutil.rmtree(tmp, ignore_errors=True)
    return {"lines": lines, "impl": impl, "oracle": fail, "nontrivial": True, "tags": tags, "mutated": mut}


def _same_image(a, aarr, b, barr, rnew, analyze, exact, what):
    """`b` (loaded from the file `a` was saved to) is the image `a`"""
    ca, cb = a.coordmap, b.coordmap
    A, Bm = np.asarray(ca.affine, dtype=float), np.asarray(cb.affine, dtype=float)
    if analyze and list(aarr.shape) != list(barr.shape) and list(aarr.shape[:3]) == list(barr.shape[:3]) \
            and aarr.size == barr.size:
        # Analyze has no time units: a length-1 4th axis comes back squeezed ("at least the data and their x, y, z")
        barr = barr.reshape(aarr.shape)
    if list(aarr.shape) != list(barr.shape):
        return f"{what}: shape {list(aarr.shape)} became {list(barr.shape)}"
    if not analyze:
        if ca.function_domain.coord_names != cb.function_domain.coord_names or \
                ca.function_range.coord_names != cb.function_range.coord_names:
            return (f"{what}: axes {ca.function_domain.coord_names} -> {ca.function_range.coord_names} became "
                    f"{cb.function_domain.coord_names} -> {cb.function_range.coord_names}")
        if exact:
            if not np.array_equal(A, Bm):
                return f"{what}: the affine of an image that already came out of a NIfTI file moved: {A.tolist()} became {Bm.tolist()}"
        else:
            # at most the float32 rounding of the header, entry by entry (translations relative to their row)
            tol = 2.0 ** -23 * np.abs(A) + 1e-30
            if Bm.shape != A.shape or np.any(np.abs(A - Bm) > tol):
                k = np.unravel_index(np.argmax(np.abs(A - Bm) - tol), A.shape)
                return f"{what}: affine entry {tuple(int(x) for x in k)} = {A[k]} became {Bm[k]}"
    else:
        n = A.shape[0] - 1
        idx = [0, 1, 2, n]
        if np.any(np.abs(A[:3][:, idx] - Bm[:3][:, [0, 1, 2, Bm.shape[1] - 1]]) > 1e-5 * np.abs(A[:3][:, idx]) + 1e-6):
            return f"{what}: x, y, z positions moved: {A[:3][:, idx].tolist()} became {Bm[:3][:, [0, 1, 2, Bm.shape[1] - 1]].tolist()}"
    tol = _disk_tol(rnew, aarr)
    d = np.abs(aarr - barr)
    if d.size and float(d.max()) > tol:
        k = np.unravel_index(int(np.argmax(d)), d.shape)
        return (f"{what}: value {aarr[k]} at voxel {tuple(int(x) for x in k)} became {barr[k]} (storage "
                f"{rnew.header.get_data_dtype().name}, allowed {tol:g})")
    return None


# ----------------------------------------------------------------------
# comparison of the new observation kinds
# ----------------------------------------------------------------------
def compare_file(check, case, impl_obs, model_out):
    kind = impl_obs[0]
    if kind == "imgx":
        o = impl_obs[1]
        if not model_out.startswith("ok "):
            return f"load_image returned an image, model says {model_out[:80]}"
        m = check._sections(model_out, ["in", "out", "aff", "shape", "axes"])
        if m["in"] != o["in"] or m["out"] != o["out"]:
            return f"names impl={o['in']}->{o['out']} model={m['in']}->{m['out']}"
        if [int(x) for x in m["shape"]] != o["shape"]:
            return f"shape impl={o['shape']} model={m['shape']}"
        ma = parse_rats(" ".join(m["aff"]))
        scale = max([1.0] + [abs(float(x)) for x in ma])
        if len(ma) != len(o["aff"]) or any(not close(a, b, 1e-9, 1e-12 * scale) for a, b in zip(o["aff"], ma)):
            return f"affine impl={o['aff']} model={[float(x) for x in ma]}"
        return None
    if kind == "vals":
        if not model_out.startswith("ok"):
            return f"impl returned data, model says {model_out[:80]}"
        mv = parse_rats(model_out[2:])
        iv = impl_obs[1]
        if len(mv) != len(iv):
            return f"{len(iv)} loaded values, model has {len(mv)}"
        for k, (a, b) in enumerate(zip(iv, mv)):
            if fr(a) != fr(b):
                return f"loaded value #{k}: impl={a!r} model (stored*slope+inter in binary64)={float(b)!r}"
        return None
    if kind == "dhist":
        if not model_out.startswith("ok "):
            return f"model says {model_out[:80]}"
        toks = model_out.split()
        got = toks[1:toks.index("final")]
        if got != impl_obs[1]:
            return f"storage dtypes along the history impl={impl_obs[1]} model={got}"
        return None
    return "unknown observation kind"


def shrink_infile(case):
    import copy
    st = case["stages"]
    for i in range(len(st)):
        c = copy.deepcopy(case); c["stages"].pop(i); yield c
    if len(st) > 1:
        c = copy.deepcopy(case); c["stages"] = c["stages"][:1]; yield c
    for key, val in (("fmt", "nii"), ("endian", "<"), ("scaling", None), ("intent", None), ("tunits", "unknown"),
                     ("sunits", "mm"), ("diminfo", [None, None, None]), ("toffset", 0.0), ("dtype", "f8"),
                     ("mnc", False), ("descrip", ""), ("pixdim", [1.0, 1.0, 1.0, 1.0])):
        if case[key] != val:
            c = copy.deepcopy(case); c[key] = val; yield c
    for i, s_ in enumerate(st):
        if s_["resave"]:
            c = copy.deepcopy(case); c["stages"][i]["resave"] = False; yield c
        if s_["ext"] != ".nii":
            c = copy.deepcopy(case); c["stages"][i]["ext"] = ".nii"; yield c
    for ax, n_ in enumerate(case["shape"]):
        if n_ > 1:
            c = copy.deepcopy(case); c["shape"][ax] = n_ - 1; yield c
    if len(case["shape"]) > 3:
        c = copy.deepcopy(case); c["shape"] = c["shape"][:-1]; yield c
