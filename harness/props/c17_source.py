"""C17 expression translator: function bodies of the anchored sources, statement by statement, as Lean terms
over the model's types -> lean/NipyVerif/Gen/C17Source.lean (namespace NipyVerif.C17.Src).

  nipy/labs/group/permutation_test.py      pvalue, the pseudo p-values of compute_cluster_stats /
                                            compute_region_stat, height_threshold (whole body), the counting
                                            comparisons and every p-value expression of calibrate
  nipy/labs/utils/zscore.py                 the clip of zscore and TINY
  nipy/algorithms/statistics/mixed_effects_stat.py
                                            MixedEffectsModel._one_step / fit (initial V2) / log_like, mfx_stat
                                            (contrast mask, F and t statistic), t_stat
  nipy/algorithms/statistics/onesample.py   estimate_varatio (statements before the loop, loop body, statements after
                                            it) and estimate_mean (weights, effect, residuals, scale, total variance, t)
  lib/fff/fff_base.h                        FFF_SQR / FFF_MAX / FFF_SIGN / FFF_ABS
  lib/fff/fff_onesample_stat.c              _fff_onesample_mean, _fff_onesample_student (arithmetic statements),
                                            _fff_onesample_sign_stat (loop body + return), _fff_onesample_laplace /
                                            _fff_onesample_tukey (scale pair, sign, tail),
                                            _fff_onesample_gmfx_EM (loop body + normalisation, both constraint modes)
  lib/fff/fff_twosample_stat.c              _fff_twosample_student (arithmetic statements), _fff_twosample_wilcoxon
                                            (loop nest), the F / sign tail of
                                            _fff_twosample_student_mfx

Numeric library calls are named leaves (`sqrt`, `log`: parameters of the emitted definitions).  A source shape that
is not recognised raises SourceError (-> TieBroken).  Props/C17Source.lean proves that the emitted terms are what the
model implements (`*_from_source`).
"""
from __future__ import annotations

import ast
import os
import re
from fractions import Fraction

from harness.props import c20_cexpr as cx


class SourceError(Exception):
    pass


def _read(repo, rel):
    try:
        with open(os.path.join(repo, rel)) as fh:
            return fh.read()
    except OSError as e:
        raise SourceError(f"cannot read {rel}: {e}")


# ----------------------------------------------------------------------------------------------
# Python expressions -> Lean (everything is a Rat; lists are named leaves of the environment)
# ----------------------------------------------------------------------------------------------
def _num(v):
    f = Fraction(repr(v)) if isinstance(v, float) else Fraction(v)
    return f"({f.numerator} : Rat)" if f.denominator == 1 else f"(({f.numerator} : Rat) / {f.denominator})"


class PyEmit:
    """env: source text (ast.unparse) of a sub-expression -> Lean text standing for it.
    lists: source text of a list-valued sub-expression -> Lean name of a `List Rat`."""

    def __init__(self, where, env=None, lists=None):
        q = lambda d: {k.replace('"', "'"): v for k, v in (d or {}).items()}
        self.where, self.env, self.lists = where, q(env), q(lists)

    def err(self, node, why):
        raise SourceError(f"{self.where}: {why}: `{ast.unparse(node)}`")

    def lst(self, node):
        s = ast.unparse(node)
        if s in self.lists:
            return self.lists[s]
        self.err(node, "not a known array of the translated fragment")

    def val(self, node):
        s = ast.unparse(node)
        if s in self.env:
            return self.env[s]
        if isinstance(node, ast.Constant) and isinstance(node.value, (int, float)) and not isinstance(node.value, bool):
            return _num(node.value)
        if isinstance(node, ast.UnaryOp) and isinstance(node.op, ast.USub):
            return f"(-{self.val(node.operand)})"
        if isinstance(node, ast.BinOp):
            if isinstance(node.op, ast.Pow):
                if isinstance(node.right, ast.Constant) and node.right.value == 2:
                    a = self.val(node.left)
                    return f"({a} * {a})"
                self.err(node, "power other than 2")
            op = {ast.Add: "+", ast.Sub: "-", ast.Mult: "*", ast.Div: "/"}.get(type(node.op))
            if op is None:
                self.err(node, "operator not in the translated fragment")
            return f"({self.val(node.left)} {op} {self.val(node.right)})"
        if isinstance(node, ast.Subscript):
            return f"(({self.lst(node.value)}).getD (natOf {self.val(node.slice)}) 0)"
        if isinstance(node, ast.Call):
            f = ast.unparse(node.func)
            a = node.args
            if node.keywords:
                self.err(node, "keyword arguments")
            if f in ("float", "int") and len(a) == 1:
                return self.val(a[0])
            if f == "len" and len(a) == 1:
                return f"((({self.lst(a[0])}).length : Nat) : Rat)"
            if f == "np.searchsorted" and len(a) == 2:
                return f"((searchsorted {self.lst(a[0])} {self.val(a[1])} : Nat) : Rat)"
            if f == "np.searchsorted" and len(a) == 3 and isinstance(a[2], ast.Constant) and a[2].value == "right":
                return f"((searchsortedRight {self.lst(a[0])} {self.val(a[1])} : Nat) : Rat)"
            if f in ("np.maximum", "max") and len(a) == 2:
                return f"(rmax {self.val(a[0])} {self.val(a[1])})"
            if f == "np.minimum" and len(a) == 2:
                return f"(rmin {self.val(a[0])} {self.val(a[1])})"
            if f == "np.ceil" and len(a) == 1:
                return f"(((Rat.ceil {self.val(a[0])} : Int)) : Rat)"
            if f == "np.sqrt" and len(a) == 1:
                return f"(sqrt {self.val(a[0])})"
            if f == "np.log" and len(a) == 1:
                return f"(log {self.val(a[0])})"
            if f == "np.sign" and len(a) == 1:
                return f"(sgn {self.val(a[0])})"
            self.err(node, "call not in the translated fragment")
        if isinstance(node, ast.Attribute) and node.attr == "size":
            return f"((({self.lst(node.value)}).length : Nat) : Rat)"
        self.err(node, "expression not in the translated fragment")

    def prop(self, node):
        if isinstance(node, ast.Compare) and len(node.ops) == 1:
            op = {ast.GtE: "≥", ast.Gt: ">", ast.LtE: "≤", ast.Lt: "<"}.get(type(node.ops[0]))
            if op is None:
                self.err(node, "comparison not in the translated fragment")
            return f"({self.val(node.left)} {op} {self.val(node.comparators[0])})"
        self.err(node, "not a comparison")


def _func(tree, name, cls=None, where=""):
    body = tree.body
    if cls is not None:
        cs = [n for n in body if isinstance(n, ast.ClassDef) and n.name == cls]
        if len(cs) != 1:
            raise SourceError(f"{where}: class {cls} not found")
        body = cs[0].body
    fs = [n for n in body if isinstance(n, ast.FunctionDef) and n.name == name]
    if len(fs) != 1:
        raise SourceError(f"{where}: function {name} not found")
    return fs[0]


def _stmts(fn):
    """statements of a function without its docstring"""
    b = fn.body
    if b and isinstance(b[0], ast.Expr) and isinstance(b[0].value, ast.Constant) and isinstance(b[0].value.value, str):
        b = b[1:]
    return b


def _assigns(fn):
    """{target text: [value nodes]} for every plain assignment, {target: [(op, value)]} for augmented ones"""
    plain, aug = {}, {}
    for n in ast.walk(fn):
        if isinstance(n, ast.Assign) and len(n.targets) == 1:
            plain.setdefault(ast.unparse(n.targets[0]), []).append(n.value)
        elif isinstance(n, ast.AugAssign):
            aug.setdefault(ast.unparse(n.target), []).append((type(n.op), n.value))
    return plain, aug


def _one(d, key, where, skip_zeros=True):
    key = key.replace('"', "'")
    vals = [v for v in d.get(key, []) if not (skip_zeros and isinstance(v, ast.Call) and
                                             ast.unparse(v.func) in ("np.zeros", "np.array"))]
    if len(vals) != 1:
        raise SourceError(f"{where}: expected exactly one assignment of `{key}`, found {len(vals)}")
    return vals[0]


def _ret(fn, where):
    r = [n for n in _stmts(fn) if isinstance(n, ast.Return)]
    if len(r) != 1 or r[0].value is None:
        raise SourceError(f"{where}: expected one return statement")
    return r[0].value


PT = "nipy/labs/group/permutation_test.py"
ZS = "nipy/labs/utils/zscore.py"
MES = "nipy/algorithms/statistics/mixed_effects_stat.py"
BASE_H = "lib/fff/fff_base.h"
OSC = "lib/fff/fff_onesample_stat.c"
TSC = "lib/fff/fff_twosample_stat.c"


def _permutation_test(repo, L):
    src = _read(repo, PT)
    try:
        tree = ast.parse(src)
    except SyntaxError as e:
        raise SourceError(f"{PT}: {e}")
    # --- pvalue -------------------------------------------------------------------------------
    fn = _func(tree, "pvalue", "permutation_test", PT)
    em = PyEmit(f"{PT}::pvalue", {"Tvalues": "t", "self.ndraws": "((draws.length : Nat) : Rat)"},
                {"self.random_Tvalues": "draws"})
    L.append("/-- `permutation_test.pvalue`: the returned expression, per statistic value `t` -/")
    L.append(f"def pvalueSrc (draws : List Rat) (t : Rat) : Rat := {em.val(_ret(fn, PT + '::pvalue'))}")
    # --- pseudo p-values of the Fisher statistics -----------------------------------------------
    for name, fname in (("clusterPseudoPSrc", "compute_cluster_stats"), ("regionPseudoPSrc", "compute_region_stat")):
        fn = _func(tree, fname, None, PT)
        plain, _ = _assigns(fn)
        em = PyEmit(f"{PT}::{fname}", {"Tvalues": "t"}, {"random_Tvalues": "draws"})
        if "ndraws" in plain:
            em.env["ndraws"] = em.val(_one(plain, "ndraws", PT + "::" + fname))
        L.append(f"/-- `{fname}`: `pseudo_p_values = …`, per statistic value `t` -/")
        L.append(f"def {name} (draws : List Rat) (t : Rat) : Rat := "
                 f"{em.val(_one(plain, 'pseudo_p_values', PT + '::' + fname))}")
        em = PyEmit(f"{PT}::{fname}", {"np.sum(np.log(pseudo_p_values[I]))": "((ps.map log).sum)"})
        L.append(f"/-- `{fname}`: `Fisher_values[i] = …` (`ps` = the pseudo p-values of the voxels of the cluster / "
                 f"region; `log` is a leaf) -/")
        L.append(f"def {name.replace('PseudoPSrc', 'FisherSrc')} (log : Rat → Rat) (ps : List Rat) : Rat := "
                 f"{em.val(_one(plain, 'Fisher_values[i]', PT + '::' + fname))}")
    # --- height_threshold: the whole body ---------------------------------------------------------
    fn = _func(tree, "height_threshold", "permutation_test", PT)
    where = PT + "::height_threshold"
    em = PyEmit(where, {"pval": "pval"})
    lines = []

    def block(stmts, ind):
        for k, st in enumerate(stmts):
            if isinstance(st, ast.Assign) and len(st.targets) == 1 and isinstance(st.targets[0], ast.Name):
                tgt = st.targets[0].id
                if ast.unparse(st.value) == "self.random_Tvalues":
                    em.lists[tgt] = "draws"
                    continue
                lines.append(f"{ind}let {tgt} : Rat := {em.val(st.value)}")
                em.env[tgt] = tgt
            elif isinstance(st, ast.If) and not st.orelse and len(st.body) == 1 and isinstance(st.body[0], ast.Return):
                lines.append(f"{ind}if {em.prop(st.test)} then {ret(st.body[0])} else")
            elif isinstance(st, ast.Return):
                if k != len(stmts) - 1:
                    raise SourceError(f"{where}: statements after return")
                lines.append(f"{ind}{ret(st)}")
                return
            else:
                raise SourceError(f"{where}: statement not in the translated fragment: `{ast.unparse(st)}`")
        raise SourceError(f"{where}: body does not end with a return")

    def ret(st):
        if st.value is None:
            raise SourceError(f"{where}: bare return")
        if ast.unparse(st.value) == "np.inf":
            return "none"
        return f"some {em.val(st.value)}"
    block(_stmts(fn), "  ")
    L.append("/-- `permutation_test.height_threshold(pval)`, statement by statement (`none` = `np.inf`) -/")
    L.append("def heightThresholdSrc (draws : List Rat) (pval : Rat) : Option Rat :=")
    L.extend(lines)
    # --- calibrate --------------------------------------------------------------------------------
    fn = _func(tree, "calibrate", "permutation_test", PT)
    where = PT + "::calibrate"
    plain, aug = _assigns(fn)

    def aug_one(key):
        v = aug.get(key, [])
        if len(v) != 1 or v[0][0] is not ast.Add:
            raise SourceError(f"{where}: expected exactly one `{key} += …`")
        return v[0][1]
    em = PyEmit(where, {"perm_Tvalues": "perm", "self.Tvalues": "obs", "max(perm_Tvalues)": "mx"})
    L.append("/-- `calibrate`: `p_values += …` (one relabelling, one voxel: `perm` against the observed `obs`) -/")
    L.append(f"def voxelHitSrc (perm obs : Rat) : Bool := decide {em.prop(aug_one('p_values'))}")
    L.append("/-- `calibrate`: `Corr_p_values += …` (`mx` = `max(perm_Tvalues)`) -/")
    L.append(f"def voxelCorrHitSrc (mx obs : Rat) : Bool := decide {em.prop(aug_one('Corr_p_values'))}")
    vr = _one(plain, "voxel_results", where)
    if not isinstance(vr, ast.Dict):
        raise SourceError(f"{where}: voxel_results is not a dict display")
    d = {ast.literal_eval(k): v for k, v in zip(vr.keys, vr.values) if isinstance(k, ast.Constant)}
    em = PyEmit(where, {"p_values": "count", "Corr_p_values": "count", "nmagic": "nmagic"})
    for key, name in (("p_values", "voxelPSrc"), ("Corr_p_values", "voxelCorrPSrc")):
        if key not in d:
            raise SourceError(f"{where}: voxel_results has no key {key!r}")
        L.append(f"/-- `calibrate`: `voxel_results[{key!r}]` from the hit count -/")
        L.append(f"def {name} (count nmagic : Rat) : Rat := {em.val(d[key])}")
    for stat, nm in (("size", "size"), ("Fisher", "fisher")):
        pool, mx, obs = (f'cluster_results[i]["perm_{stat}_values"]', f'cluster_results[i]["perm_max{stat}_values"]',
                         f'cluster_results[i]["{stat}_values"]')
        em = PyEmit(where, {obs: "obs", "nmagic": "nmagic"}, {pool: "pool", mx: "maxes"})
        L.append(f"/-- `calibrate`: cluster `{stat}_p_values` (pooled null values) and `{stat}_Corr_p_values` (maxima) -/")
        L.append(f"def {nm}PSrc (pool : List Rat) (obs : Rat) : Rat := "
                 f"{em.val(_one(plain, f'cluster_results[i][\"{stat}_p_values\"]', where))}")
        L.append(f"def {nm}CorrPSrc (maxes : List Rat) (nmagic obs : Rat) : Rat := "
                 f"{em.val(_one(plain, f'cluster_results[i][\"{stat}_Corr_p_values\"]', where))}")
    em = PyEmit(where, {'region_results[i]["Fisher_values"][j]': "f", "nmagic": "nmagic"},
                {"sorted_perm_Fisher_values[j]": "row"})
    L.append("/-- `calibrate`: region `Fisher_p_values[j]` -/")
    L.append(f"def regionPSrc (row : List Rat) (nmagic f : Rat) : Rat := "
             f"{em.val(_one(plain, 'region_results[i][\"Fisher_p_values\"][j]', where))}")
    em = PyEmit(where, {"np.arange(nmagic)": "k", "nmagic": "nmagic"})
    L.append("/-- `calibrate`: `perm_Fisher_p_values[j][I] = …` at sorted position `k` -/")
    L.append(f"def rankPSrc (k nmagic : Rat) : Rat := {em.val(_one(plain, 'perm_Fisher_p_values[j][I]', where))}")
    em = PyEmit(where, {'region_results[i]["Fisher_p_values"]': "pj", "nmagic": "nmagic"},
                {"neg_perm_min_Fisher_p_values": "negmin"})
    L.append("/-- `calibrate`: region `Fisher_Corr_p_values` -/")
    L.append(f"def regionCorrPSrc (negmin : List Rat) (nmagic pj : Rat) : Rat := "
             f"{em.val(_one(plain, 'region_results[i][\"Fisher_Corr_p_values\"]', where))}")


def _zscore(repo, L):
    src = _read(repo, ZS)
    tree = ast.parse(src)
    tiny = [n.value for n in tree.body if isinstance(n, ast.Assign) and ast.unparse(n.targets[0]) == "TINY"]
    if len(tiny) != 1 or not isinstance(tiny[0], ast.Constant) or not isinstance(tiny[0].value, float):
        raise SourceError(f"{ZS}: TINY is not a float literal")
    fn = _func(tree, "zscore", None, ZS)
    plain, _ = _assigns(fn)
    em = PyEmit(ZS + "::zscore", {"pvalue": "p", "TINY": "tiny"})
    L.append("/-- `labs.utils.zscore`: `TINY` and the clip applied before `norm.isf` -/")
    L.append(f"def zTiny : Rat := {_num(tiny[0].value)}")
    L.append(f"def zClipSrc (tiny p : Rat) : Rat := {em.val(_one(plain, 'pvalue', ZS + '::zscore'))}")


def _mixed_effects(repo, L):
    src = _read(repo, MES)
    tree = ast.parse(src)
    # --- _one_step: pointwise E step, then the V2 update --------------------------------------------
    fn = _func(tree, "_one_step", "MixedEffectsModel", MES)
    where = MES + "::_one_step"
    st = _stmts(fn)
    tg = [ast.unparse(s.targets[0]) if isinstance(s, ast.Assign) and len(s.targets) == 1 else None for s in st]
    if tg != ["prec", "Y_", "cvar", "self.beta_", "self.Y_", "self.V2"]:
        raise SourceError(f"{where}: statements are not prec / Y_ / cvar / beta_ / Y_ / V2 in this order ({tg})")
    em = PyEmit(where, {"self.V2": "v2", "V1": "vi", "Y": "yi", "self.Y_": "zi"})
    L.append("/-- `MixedEffectsModel._one_step`: the E step for one sample (`prec`, `Y_`, `cvar`) -/")
    L.append("def oneStepESrc (v2 yi vi zi : Rat) : Rat × Rat :=")
    for name, s in zip(("prec", "Y_", "cvar"), st[:3]):
        L.append(f"  let {name} : Rat := {em.val(s.value)}")
        em.env[name] = name
    L.append("  (Y_, cvar)")
    if (ast.unparse(st[3].value), ast.unparse(st[4].value)) != ("np.dot(self.pinv_X, Y_)", "np.dot(self.X, self.beta_)"):
        raise SourceError(f"{where}: beta_ / Y_ are not pinv_X·Y_ / X·beta_")
    v = st[5].value   # np.mean((Y_ - self.Y_) ** 2, 0) + cvar.mean(0)
    em = PyEmit(where, {"np.mean((Y_ - self.Y_) ** 2, 0)": "(meanL (List.zipWith (fun a c => (a - c) * (a - c)) z zfit))",
                        "cvar.mean(0)": "(meanL cvar)"})
    L.append("/-- `_one_step`: `self.V2 = …` (`z` = `Y_`, `zfit` = the new `self.Y_`) -/")
    L.append(f"def oneStepV2Src (z zfit cvar : List Rat) : Rat := {em.val(v)}")
    # --- fit: initial V2 ----------------------------------------------------------------------------
    fn = _func(tree, "fit", "MixedEffectsModel", MES)
    plain, _ = _assigns(fn)
    em = PyEmit(MES + "::fit", {"np.mean((Y - self.Y_) ** 2, 0)":
                                "(meanL (List.zipWith (fun a c => (a - c) * (a - c)) y yfit))"})
    if ast.unparse(_one(plain, "self.beta_", MES + "::fit")) != "np.dot(self.pinv_X, Y)":
        raise SourceError(f"{MES}::fit: beta_ is not initialised with pinv_X·Y")
    L.append("/-- `fit`: initial `self.V2` (`yfit` = `X·pinv(X)·Y`) -/")
    L.append(f"def fitInitV2Src (y yfit : List Rat) : Rat := {em.val(_one(plain, 'self.V2', MES + '::fit'))}")
    # --- log_like -----------------------------------------------------------------------------------
    fn = _func(tree, "log_like", "MixedEffectsModel", MES)
    where = MES + "::log_like"
    plain, aug = _assigns(fn)
    em = PyEmit(where, {"self.V2": "v2", "V1": "vi"})
    tvar = em.val(_one(plain, "tvar", where))
    ops = aug.get("logl", [])
    if [o for o, _ in ops] != [ast.Add, ast.Add, ast.Mult]:
        raise SourceError(f"{where}: logl is not updated by +=, +=, *=")
    if ast.unparse(_one(plain, "logl", where)) != "np.sum((Y - self.Y_) ** 2 / tvar, 0)" or \
            ast.unparse(ops[0][1]) != "np.sum(np.log(tvar), 0)" or \
            ast.unparse(ops[1][1]) != "np.log(2 * np.pi) * Y.shape[0]":
        raise SourceError(f"{where}: the three terms of the log-likelihood are not recognised")
    em2 = PyEmit(where, {})
    L.append("/-- `log_like`: quadratic term + Σ log(tvar) + n·log 2π, times the final factor "
             "(`log`, `log2pi` are leaves) -/")
    L.append("def logLikeSrc (log : Rat → Rat) (log2pi : Rat) (y yfit v1 : List Rat) (v2 : Rat) : Rat :=")
    L.append(f"  let tvar : List Rat := v1.map fun vi => {tvar}")
    L.append("  let logl : Rat := (zipWith3' (fun a c tv => (a - c) * (a - c) / tv) y yfit tvar).sum")
    L.append("  let logl : Rat := logl + (tvar.map log).sum")
    L.append("  let logl : Rat := logl + log2pi * ((y.length : Nat) : Rat)")
    L.append(f"  logl * {em2.val(ops[2][1])}")
    # --- mfx_stat -------------------------------------------------------------------------------------
    fn = _func(tree, "mfx_stat", None, MES)
    where = MES + "::mfx_stat"
    plain, aug = _assigns(fn)
    if ast.unparse(_one(plain, "contrast_mask", where)) != "1 - np.eye(X.shape[1])[column]" or \
            ast.unparse(_one(plain, "X0", where)) != "X * contrast_mask":
        raise SourceError(f"{where}: contrast_mask / X0 are not recognised")
    L.append("/-- `mfx_stat`: `contrast_mask = 1 - eye(p)[column]`, `X0 = X * contrast_mask` (entry `j` of a row) -/")
    L.append("def contrastMaskSrc (column j : Nat) : Rat := (1 : Rat) - (if j = column then 1 else 0)")
    L.append("def x0RowSrc (column : Nat) (row : List Rat) : List Rat := "
             "(List.range row.length).map fun j => row.getD j 0 * contrastMaskSrc column j")
    fs = plain.get("fstat", [])
    if len(fs) != 2:
        raise SourceError(f"{where}: fstat is not assigned twice")
    em = PyEmit(where, {"model_1.log_like(Y, V1)": "ll1", "model_0.log_like(Y, V1)": "ll0"})
    L.append("/-- `mfx_stat`: the two `fstat = …` statements -/")
    L.append("def fstatSrc (ll1 ll0 : Rat) : Rat :=")
    L.append(f"  let fstat : Rat := {em.val(fs[0])}")
    em.env["fstat"] = "fstat"
    L.append(f"  {em.val(fs[1])}")
    em = PyEmit(where, {"model_1.beta_[column]": "beta"})
    sign = em.val(_one(plain, "sign", where))
    out = [v for o, v in aug.get("output", []) if o is ast.Add]
    if not out or not isinstance(out[0], ast.Tuple) or len(out[0].elts) != 1:
        raise SourceError(f"{where}: the t output is not `output += (…,)`")
    em.env.update({"fstat": "f", "sign": "sign"})
    L.append("/-- `mfx_stat`: `sign = …` and the t output (`sqrt` is a leaf) -/")
    L.append("def tFromFSrc (sqrt : Rat → Rat) (f beta : Rat) : Rat :=")
    L.append(f"  let sign : Rat := {sign}")
    L.append(f"  {em.val(out[0].elts[0])}")
    # --- t_stat -----------------------------------------------------------------------------------------
    fn = _func(tree, "t_stat", None, MES)
    em = PyEmit(MES + "::t_stat", {"Y.mean(0)": "m", "Y.std(0)": "sd", "Y.shape[0]": "n"})
    L.append("/-- `t_stat`: the returned expression (`m`, `sd` = mean / population std over subjects) -/")
    L.append(f"def tStatSrc (sqrt : Rat → Rat) (m sd n : Rat) : Rat := {em.val(_ret(fn, MES + '::t_stat'))}")


# ----------------------------------------------------------------------------------------------
# NumPy statements on one column: every value is a scalar ('s', Rat) or a vector over subjects ('v', List Rat)
# ----------------------------------------------------------------------------------------------
class VecEmit:
    def __init__(self, where, env):
        self.where, self.env = where, dict(env)      # source text -> (kind, lean text)

    def err(self, node, why):
        raise SourceError(f"{self.where}: {why}: `{ast.unparse(node)}`")

    def ew1(self, a, f):
        """elementwise unary: f is a Lean function text"""
        return ("v", f"(({a[1]}).map {f})") if a[0] == "v" else ("s", f"({f} {a[1]})")

    def ew2(self, a, b, op):
        if a[0] == "v" and b[0] == "v":
            return ("v", f"(List.zipWith (fun a b => a {op} b) {a[1]} {b[1]})")
        if a[0] == "v":
            return ("v", f"(({a[1]}).map (fun a => a {op} {b[1]}))")
        if b[0] == "v":
            return ("v", f"(({b[1]}).map (fun b => {a[1]} {op} b))")
        return ("s", f"({a[1]} {op} {b[1]})")

    def val(self, node):
        s = ast.unparse(node)
        if s in self.env:
            return self.env[s]
        if isinstance(node, ast.Constant) and isinstance(node.value, (int, float)) and not isinstance(node.value, bool):
            return ("s", _num(node.value))
        if isinstance(node, ast.BinOp):
            if isinstance(node.op, ast.Pow):
                if isinstance(node.right, ast.Constant) and node.right.value == 2:
                    return self.ew1(self.val(node.left), "(fun a => a * a)")
                self.err(node, "power other than 2")
            op = {ast.Add: "+", ast.Sub: "-", ast.Mult: "*", ast.Div: "/"}.get(type(node.op))
            if op is None:
                self.err(node, "operator not in the translated fragment")
            return self.ew2(self.val(node.left), self.val(node.right), op)
        if isinstance(node, ast.Call):
            f, a = ast.unparse(node.func), node.args
            if node.keywords:
                self.err(node, "keyword arguments")
            if f == "_stretch" and len(a) == 1:            # broadcast of a per-column value over the subjects
                v = self.val(a[0])
                if v[0] != "s":
                    self.err(node, "_stretch of a vector")
                return v
            if f == "np.multiply.outer" and len(a) == 2 and ast.unparse(a[0]) in ("np.ones(Y.shape[0])", "np.ones(nsubject)"):
                v = self.val(a[1])
                if v[0] != "s":
                    self.err(node, "outer product with a vector")
                return v
            if f == "pos_recipr" and len(a) == 1:
                return self.ew1(self.val(a[0]), "posRecipr")
            if f == "np.sqrt" and len(a) == 1:
                return self.ew1(self.val(a[0]), "sqrt")
            if f == "np.squeeze" and len(a) == 1:
                return self.val(a[0])
            if f == "np.power" and len(a) == 2 and isinstance(a[1], ast.Constant) and a[1].value == 2:
                return self.ew1(self.val(a[0]), "(fun a => a * a)")
            if f == "np.add.reduce" and len(a) == 2 and isinstance(a[1], ast.Constant) and a[1].value == 0:
                v = self.val(a[0])
                if v[0] != "v":
                    self.err(node, "reduction of a scalar")
                return ("s", f"({v[1]}).sum")
            if isinstance(node.func, ast.Attribute) and node.func.attr == "sum" and len(a) == 1 and \
                    isinstance(a[0], ast.Constant) and a[0].value == 0:
                v = self.val(node.func.value)
                if v[0] != "v":
                    self.err(node, "sum of a scalar")
                return ("s", f"({v[1]}).sum")
            self.err(node, "call not in the translated fragment")
        self.err(node, "expression not in the translated fragment")


OS_PY = "nipy/algorithms/statistics/onesample.py"


def _let_block(em, stmts, targets, where, L, ind="  "):
    got = [ast.unparse(s.targets[0]) if isinstance(s, ast.Assign) and len(s.targets) == 1 else None for s in stmts]
    if got != targets:
        raise SourceError(f"{where}: statements assign {got}, expected {targets}")
    for s in stmts:
        k, t = em.val(s.value)
        name = ast.unparse(s.targets[0])
        lean = {"value['fixed']": "fixed"}.get(name, name)
        L.append(f"{ind}let {lean} : {'List Rat' if k == 'v' else 'Rat'} := {t}")
        em.env[name] = (k, lean)


def _onesample_py(repo, L):
    src = _read(repo, OS_PY)
    tree = ast.parse(src)
    # ---- estimate_varatio ---------------------------------------------------------------------------
    fn = _func(tree, "estimate_varatio", None, OS_PY)
    where = OS_PY + "::estimate_varatio"
    st = _stmts(fn)
    loops = [n for n in st if isinstance(n, ast.For)]
    if len(loops) != 1 or ast.unparse(loops[0].iter) != "range(niter)" or loops[0].orelse:
        raise SourceError(f"{where}: the EM loop `for _ in range(niter)` is not found")
    em = VecEmit(where, {"Sm": ("v", "Sm"), "sigma2": ("s", "sigma2"), "Y": ("v", "Y"),
                         "nsubject": ("s", "((Y.length : Nat) : Rat)")})
    L.append("/-- `estimate_varatio`: body of the EM loop, one column (`Y`, `Sm` over subjects) -/")
    L.append("def varatioStepSrc (Y Sm : List Rat) (sigma2 : Rat) : Rat :=")
    _let_block(em, loops[0].body, ["Sms", "W", "Winv", "mu", "R", "ptrS", "sigma2"], where, L)
    L.append("  sigma2")
    i = st.index(loops[0])
    pre = [n for n in st[:i] if isinstance(n, ast.Assign) and ast.unparse(n.targets[0]) in
           ("W", "S", "R", "sigma2", "Sreduction", "minS", "Sm")]
    em = VecEmit(where, {"sd": ("v", "sd"), "Y": ("v", "Y"), "nsubject": ("s", "((Y.length : Nat) : Rat)"),
                         "Y.mean(0)": ("s", "(mean Y)"), "S.min(0)": ("s", "mn"), "np.ones(Y.shape) * W": ("v", "W")})
    L.append("/-- `estimate_varatio`, one column: the statements before the loop, the loop, the statements after it "
             "(`mn` = `S.min(0)`); returns (fixed, ratio, random) -/")
    L.append("def estimateVaratioSrc (Y sd df : List Rat) (niter : Nat) (mn : Rat) : Rat × Rat × Rat :=")
    _let_block(em, [n for n in pre if ast.unparse(n.value) != "np.ones(Y.shape) * W"],
               ["W", "S", "R", "sigma2", "Sreduction", "minS", "Sm"], where, L)
    L.append("  let sigma2 : Rat := iter (varatioStepSrc Y Sm) niter sigma2")
    post = [n for n in st[i + 1:] if isinstance(n, ast.Assign) and ast.unparse(n.targets[0]) in
            ("sigma2", "value['fixed']", "value['ratio']", "value['random']")]
    got = [(ast.unparse(n.targets[0]), ast.unparse(n.value)) for n in post]
    want = [("sigma2", "sigma2 - minS"), ("value['fixed']", "(np.dot(df, S) / df.sum()).reshape(_Sshape[1:])"),
            ("value['ratio']", "np.nan_to_num(sigma2 / value['fixed'])"), ("value['random']", "sigma2")]
    if got != want:
        raise SourceError(f"{where}: statements after the loop changed: {got}")
    L.append("  let sigma2 : Rat := (sigma2 - minS)")
    L.append("  let fixed : Rat := ((List.zipWith (fun a b => a * b) df S).sum / df.sum)")
    L.append("  (fixed, (sigma2 / fixed), sigma2)")
    # ---- estimate_mean -------------------------------------------------------------------------------
    fn = _func(tree, "estimate_mean", None, OS_PY)
    where = OS_PY + "::estimate_mean"
    st = [n for n in _stmts(fn) if isinstance(n, ast.Assign) and ast.unparse(n.targets[0]) in
          ("W", "effect", "resid", "scale", "var_total") and ast.unparse(n.value) != "np.ones(Y.shape) * W"]
    em = VecEmit(where, {"sd": ("v", "sd"), "Y": ("v", "Y"), "nsubject": ("s", "((Y.length : Nat) : Rat)")})
    L.append("/-- `estimate_mean`, one column: `W`, `effect`, `resid`, `scale`, `var_total` (`sqrt` is a leaf); returns "
             "(effect, scale, var_total) -/")
    L.append("def estimateMeanSrc (sqrt : Rat → Rat) (Y sd : List Rat) : Rat × Rat × Rat :=")
    _let_block(em, st, ["W", "effect", "resid", "scale", "var_total"], where, L)
    L.append("  (effect, scale, var_total)")
    plain, _ = _assigns(fn)
    em = VecEmit(where, {"value['effect']": ("s", "effect"), "value['sd']": ("s", "sd")})
    if ast.unparse(_one(plain, "value['sd']", where)) != "np.sqrt(var_total)" or \
            ast.unparse(_one(plain, "value['scale']", where)) != "np.sqrt(scale)":
        raise SourceError(f"{where}: value['sd'] / value['scale'] are not the square roots of var_total / scale")
    L.append("/-- `estimate_mean`: `value['t'] = …` -/")
    tval = em.val(_one(plain, "value['t']", where))[1]
    L.append(f"def estimateMeanTSrc (effect sd : Rat) : Rat := {tval}")


# ----------------------------------------------------------------------------------------------
# C statements (through the C-expression reader of C20)
# ----------------------------------------------------------------------------------------------
def _c_macros(repo, L):
    src = cx.strip_comments(_read(repo, BASE_H))
    funs = {}
    for name, params in (("FFF_SQR", ["a"]), ("FFF_ABS", ["a"]), ("FFF_MAX", ["a", "b"]), ("FFF_SIGN", ["a"])):
        m = re.search(r"#define\s+" + name + r"\s*\(([^)]*)\)\s*(.*)", src)
        if not m or [p.strip() for p in m.group(1).split(",")] != params:
            raise SourceError(f"{BASE_H}: macro {name}({', '.join(params)}) not found")
        try:
            e = cx.cparse(m.group(2).strip())
            em = cx.Emitter({p: "Rat" for p in params})
            body = em.val(e, "Rat")
        except cx.CParseError as err:
            raise SourceError(f"{BASE_H}: {name}: {err}")
        L.append(f"/-- `#define {name}({', '.join(params)}) {' '.join(m.group(2).split())}` -/")
        L.append(f"def {name} ({' '.join(params)} : Rat) : Rat := {body}")
        funs[name] = (["Rat"] * len(params), "Rat")
    return funs


def _c_stmt_list(text):
    return [s.strip() for s in text.split(";") if s.strip()]


def _c_let(em, stmt, where):
    """`lhs = e` / `lhs op= e` -> (lhs, lean text of the new value)"""
    m = re.fullmatch(r"(\w+)\s*([-+*/]?)=\s*(.*)", stmt, re.S)
    if not m:
        raise SourceError(f"{where}: statement not in the translated fragment: `{stmt}`")
    lhs, op, rhs = m.groups()
    try:
        e = cx.cparse(rhs)
        if op:
            e = ("bin", op, ("id", lhs), e)
        return lhs, em.val(e, "Rat")
    except cx.CParseError as err:
        raise SourceError(f"{where}: `{stmt}`: {err}")


def _c_onesample(repo, L, funs):
    src = cx.strip_comments(_read(repo, OSC))
    subst = lambda s: re.sub(r"\(\s*long\s+double\s*\)", "(double)", s.replace("x->size", "size_x"))
    # --- mean ------------------------------------------------------------------------------------------
    try:
        body = cx.function_body(src, "_fff_onesample_mean", OSC)
    except cx.CParseError as e:
        raise SourceError(str(e))
    m = re.search(r"aux\s*=\s*([^;]*);\s*return\s+aux\s*;", body)
    if not m:
        raise SourceError(f"{OSC}::_fff_onesample_mean: `aux = …; return aux;` not found")
    em = cx.Emitter({"sum_x": "Rat", "size_x": "Int", "base": "Rat"}, funs)
    _, t = _c_let(em, "aux = " + subst(m.group(1)).replace("fff_vector_sum(x)", "sum_x"), OSC + "::_fff_onesample_mean")
    L.append("/-- `_fff_onesample_mean`: `aux = …` (`sum_x` = `fff_vector_sum(x)`) -/")
    L.append(f"def osMeanSrc (sum_x : Rat) (size_x : Int) (base : Rat) : Rat := {t}")
    # --- student ---------------------------------------------------------------------------------------
    where = OSC + "::_fff_onesample_student"
    body = cx.function_body(src, "_fff_onesample_student", OSC)
    ms = re.search(r"std\s*=\s*([^;]*);\s*aux\s*=\s*([^;]*);", body)
    md = re.search(r"return\s+0\.0\s*;\s*aux\s*=\s*([^;]*);", body)
    if not ms or not md or not re.search(r"sign\s*=\s*\(int\)\s*FFF_SIGN\(aux\)\s*;\s*if\s*\(\s*sign\s*==\s*0\s*\)", body):
        raise SourceError(f"{where}: std / aux / sign / aux statements not found")
    em = cx.Emitter({"ssd_x": "Rat", "m": "Rat", "size_x": "Int", "n": "Int", "base": "Rat", "aux": "Rat", "std": "Rat"},
                    dict(funs, sqrt=(["Rat"], "Rat")))
    L.append("/-- `_fff_onesample_student`: `std = …; aux = …; [sign test]; aux = aux / std` "
             "(`ssd_x`, `m` = `fff_vector_ssd(x, &m, 0)`; `sqrt` is a leaf) -/")
    L.append("def osStudentSrc (sqrt : Rat → Rat) (ssd_x m : Rat) (n : Int) (base : Rat) : Rat × Rat :=")
    L.append("  let size_x : Int := n")
    L.append(f"  let std : Rat := {_c_let(em, 'std = ' + subst(ms.group(1)).replace('fff_vector_ssd(x, &m, 0)', 'ssd_x'), where)[1]}")
    L.append(f"  let aux : Rat := {_c_let(em, 'aux = ' + subst(ms.group(2)), where)[1]}")
    L.append("  let sign : Rat := FFF_SIGN aux")
    L.append(f"  let aux : Rat := {_c_let(em, 'aux = ' + md.group(1), where)[1]}")
    L.append("  (sign, aux)")
    # --- Gaussian mixed-effects EM: loop body and normalisation ----------------------------------------
    where = OSC + "::_fff_onesample_gmfx_EM"
    body = cx.function_body(src, "_fff_onesample_gmfx_EM", OSC)
    mw = re.search(r"while\s*\(\s*iter\s*<\s*niter\s*\)\s*\{(.*)\}\s*\*m\s*=\s*m1\s*;\s*\*v\s*=\s*v1\s*;", body, re.S)
    if not mw:
        raise SourceError(f"{where}: `while (iter < niter) {{…}} *m = m1; *v = v1;` not found")
    loop = mw.group(1)
    mf = re.search(r"for\s*\(\s*i\s*=\s*0\s*;\s*i\s*<\s*n\s*;[^)]*\)\s*\{(.*?)\}", loop, re.S)
    if not mf:
        raise SourceError(f"{where}: the sample loop is not found")
    pre, inner, post = loop[:mf.start()], mf.group(1), loop[mf.end():]
    if cx.squash(pre) != "m0=m1;v0=v1;bufx=x->data;bufvar=var->data;if(!constraint)m1=0.0;v1=0.0;":
        raise SourceError(f"{where}: loop prologue changed: {cx.squash(pre)}")
    if cx.squash(post) != "if(!constraint)m1/=nn;v1/=nn;v1-=FFF_SQR(m1);iter++;":
        raise SourceError(f"{where}: normalisation changed: {cx.squash(post)}")
    inner = inner.replace("(*bufx)", "xi").replace("(*bufvar)", "si").replace("*bufvar", "si").replace("*bufx", "xi")
    em = cx.Emitter({k: "Rat" for k in ("xi", "si", "m0", "v0", "m1", "v1", "aux", "mi_ap", "vi_ap", "nn")}, funs)
    L.append("/-- `_fff_onesample_gmfx_EM`: body of the sample loop; `(m1, v1)` are the running sums, "
             "`c` = `constraint` -/")
    L.append("def gmfxBodySrc (c : Bool) (m0 v0 : Rat) (acc : Rat × Rat) (xs : Rat × Rat) : Rat × Rat :=")
    L.append("  let m1 : Rat := acc.1")
    L.append("  let v1 : Rat := acc.2")
    L.append("  let xi : Rat := xs.1")
    L.append("  let si : Rat := xs.2")
    seen = []
    for s in _c_stmt_list(inner):
        mc = re.fullmatch(r"if\s*\(\s*!\s*constraint\s*\)\s*(.*)", s, re.S)
        lhs, t = _c_let(em, mc.group(1) if mc else s, where)
        seen.append(lhs)
        L.append(f"  let {lhs} : Rat := if c then {lhs} else {t}" if mc else f"  let {lhs} : Rat := {t}")
    if seen != ["aux", "mi_ap", "mi_ap", "vi_ap", "m1", "v1"]:
        raise SourceError(f"{where}: loop body assigns {seen}")
    L.append("  (m1, v1)")
    L.append("/-- the statements after the sample loop -/")
    L.append("def gmfxNormSrc (c : Bool) (nn : Rat) (acc : Rat × Rat) : Rat × Rat :=")
    L.append("  let m1 : Rat := acc.1")
    L.append("  let v1 : Rat := acc.2")
    for s in _c_stmt_list(post)[:-1]:
        mc = re.fullmatch(r"if\s*\(\s*!\s*constraint\s*\)\s*(.*)", s, re.S)
        lhs, t = _c_let(em, mc.group(1) if mc else s, where)
        L.append(f"  let {lhs} : Rat := if c then {lhs} else {t}" if mc else f"  let {lhs} : Rat := {t}")
    L.append("  (m1, v1)")
    L.append("/-- one pass of the `while` loop: prologue (`m0 = m1; v0 = v1; m1 = 0 unless constrained; v1 = 0`), "
             "sample loop, normalisation -/")
    L.append("def gmfxStepSrc (c : Bool) (x var : List Rat) (mv : Rat × Rat) : Rat × Rat :=")
    L.append("  let m0 := mv.1")
    L.append("  let v0 := mv.2")
    L.append("  gmfxNormSrc c ((x.length : Nat) : Rat) ((x.zip var).foldl (gmfxBodySrc c m0 v0) "
             "(if c then m0 else 0, 0))")


def _c_twosample(repo, L, funs):
    src = cx.strip_comments(_read(repo, TSC))
    where = TSC + "::_fff_twosample_student"
    try:
        body = cx.function_body(src, "_fff_twosample_student", TSC)
    except cx.CParseError as e:
        raise SourceError(str(e))
    want = ("naux+=n1-2;if(naux<=0)naux=1;aux+=v1;aux/=naux;aux=sqrt(aux);if(aux<=0.0)aux=FFF_POSINF;"
            "elseaux=1/aux;t=(m1-m2)*aux;returnt;")
    i = cx.squash(body).find("naux+=n1-2;")
    if i < 0 or cx.squash(body)[i:] != want:
        raise SourceError(f"{where}: arithmetic tail changed: {cx.squash(body)[max(i, 0):]}")
    if "unsignedintnaux=x->size-n1;" not in cx.squash(body) or \
            "v1=fff_vector_ssd(&x1,&m1,0);aux=fff_vector_ssd(&x2,&m2,0);" not in cx.squash(body):
        raise SourceError(f"{where}: head changed")
    em = cx.Emitter({"aux": "Rat", "v1": "Rat", "naux": "Int", "n1": "Int", "m1": "Rat", "m2": "Rat"},
                    dict(funs, sqrt=(["Rat"], "Rat")))
    L.append("/-- `_fff_twosample_student`: the statements after the two `fff_vector_ssd` calls "
             "(`v1`, `aux` = the two sums of squares; `none` = `FFF_POSINF` scale) -/")
    L.append("def tsStudentSrc (sqrt : Rat → Rat) (n1 n2 : Int) (m1 m2 v1 aux : Rat) : Option Rat :=")
    L.append("  let naux : Int := n2")
    L.append(f"  let naux : Int := {em.val(cx.cparse('naux + (n1-2)'), 'Int')}")
    L.append(f"  let naux : Int := if {em.prop(cx.cparse('naux<=0'))} then 1 else naux")
    for s in ("aux += v1", "aux /= naux", "aux = sqrt(aux)"):
        L.append(f"  let aux : Rat := {_c_let(em, s, where)[1]}")
    L.append(f"  if {em.prop(cx.cparse('aux<=0.0'))} then none else")
    L.append(f"  let aux : Rat := {_c_let(em, 'aux = 1/aux', where)[1]}")
    L.append(f"  some {em.val(cx.cparse('(m1-m2)*aux'), 'Rat')}")
    # F / sign tail of the mixed-effects statistic
    where = TSC + "::_fff_twosample_student_mfx"
    body = cx.squash(cx.function_body(src, "_fff_twosample_student_mfx", TSC))
    tail = "F=2.0*(ll-ll0);F=FFF_MAX(F,0.0);sign=Params->em->b->data[1];sign=FFF_SIGN(sign);returnsign*sqrt(F);"
    if not body.endswith(tail):
        raise SourceError(f"{where}: tail changed")
    em = cx.Emitter({"F": "Rat", "ll": "Rat", "ll0": "Rat", "sign": "Rat"}, dict(funs, sqrt=(["Rat"], "Rat")))
    L.append("/-- `_fff_twosample_student_mfx`: `F = …; F = FFF_MAX(F, 0.0); sign = FFF_SIGN(b[1]); return sign*sqrt(F)` -/")
    L.append("def tsMfxTailSrc (sqrt : Rat → Rat) (ll ll0 b1 : Rat) : Rat × Rat :=")
    L.append(f"  let F : Rat := {_c_let(em, 'F = 2.0*(ll-ll0)', where)[1]}")
    L.append(f"  let F : Rat := {_c_let(em, 'F = FFF_MAX(F, 0.0)', where)[1]}")
    L.append("  let sign : Rat := b1")
    L.append(f"  let sign : Rat := {_c_let(em, 'sign = FFF_SIGN(sign)', where)[1]}")
    L.append(f"  (F, {em.val(cx.cparse('sign*sqrt(F)'), 'Rat')})")


def _c_ifchain(em, text, where, vars_):
    """`if (c1) s1; else if (c2) s2; [else { s3; s4; }]` over the accumulators `vars_` -> list of Lean `let` lines
    that rebind every accumulator"""
    m = re.fullmatch(r"if\s*\((.*?)\)\s*([^;{}]*);\s*else\s+if\s*\((.*?)\)\s*([^;{}]*);\s*(?:else\s*\{(.*)\}\s*)?", text.strip(), re.S)
    if not m:
        raise SourceError(f"{where}: the if / else if [/ else] chain is not recognised: `{' '.join(text.split())}`")
    c1, s1, c2, s2, s3 = m.groups()

    def upd(stmts):
        new = {v: v for v in vars_}
        for st in stmts:
            st = re.sub(r"^(\w+)\s*\+\+$", r"\1 += 1.0", st.strip())
            st = re.sub(r"^(\w+)\s*--$", r"\1 -= 1.0", st)
            lhs, t = _c_let(em, st, where)
            if lhs not in new or new[lhs] != lhs:
                raise SourceError(f"{where}: `{st}` updates {lhs} (not an accumulator, or twice)")
            new[lhs] = t
        return "(" + ", ".join(new[v] for v in vars_) + ")" if len(vars_) > 1 else new[vars_[0]]
    try:
        p1, p2 = em.prop(cx.cparse(c1)), em.prop(cx.cparse(c2))
    except cx.CParseError as e:
        raise SourceError(f"{where}: {e}")
    return (f"if {p1} then {upd([s1])} else if {p2} then {upd([s2])} else "
            f"{upd(_c_stmt_list(s3)) if s3 is not None else upd([])}")


def _c_more(repo, L, funs):
    src = cx.strip_comments(_read(repo, OSC))
    subst = lambda t: re.sub(r"\(\s*long\s+double\s*\)", "(double)", t.replace("x->size", "size_x"))
    # --- sign statistic -------------------------------------------------------------------------------
    where = OSC + "::_fff_onesample_sign_stat"
    body = cx.function_body(src, "_fff_onesample_sign_stat", OSC)
    m = re.search(r"for\s*\(\s*i\s*=\s*0\s*;\s*i\s*<\s*n\s*;[^)]*\)\s*\{\s*aux\s*=\s*\*buf\s*-\s*base\s*;(.*)\}\s*return\s*([^;]*);\s*$",
                  body, re.S)
    if not m or "doublerp=0.0,rm=0.0,aux;" not in cx.squash(body):
        raise SourceError(f"{where}: loop `aux = *buf - base; if …` / return not found")
    chain = m.group(1).strip()
    if not chain.endswith("}"):
        raise SourceError(f"{where}: loop body changed")
    em = cx.Emitter({"rp": "Rat", "rm": "Rat", "aux": "Rat", "n": "Int"}, funs)
    L.append("/-- `_fff_onesample_sign_stat`: body of the loop (`aux` = `*buf - base`; accumulators `(rp, rm)`) and the "
             "returned expression -/")
    L.append("def osSignBodySrc (base : Rat) (acc : Rat × Rat) (xi : Rat) : Rat × Rat :=")
    L.append("  let rp : Rat := acc.1")
    L.append("  let rm : Rat := acc.2")
    L.append("  let aux : Rat := (xi - base)")
    L.append("  " + _c_ifchain(em, chain[:-1].rstrip() + "}", where, ["rp", "rm"]))
    try:
        retv = em.val(cx.cparse(m.group(2)), "Rat")
    except cx.CParseError as e:
        raise SourceError(f"{where}: {e}")
    L.append("def osSignSrc (x : List Rat) (base : Rat) : Rat :=")
    L.append("  let acc := x.foldl (osSignBodySrc base) (0, 0)")
    L.append("  let rp : Rat := acc.1")
    L.append("  let rm : Rat := acc.2")
    L.append("  let n : Int := (x.length : Int)")
    L.append(f"  {retv}")
    # --- Laplace / Tukey: scale pair, sign, tail ------------------------------------------------------
    for fname, lean, s_src, s0_src, doc in (
            ("_fff_onesample_laplace", "osLaplaceSrc", "fff_vector_sad(x, aux)/(long double)x->size",
             "fff_vector_sad(x, base)/(long double)x->size", "`a_med`, `a_base` = `fff_vector_sad(x, median)`, `fff_vector_sad(x, base)`"),
            ("_fff_onesample_tukey", "osTukeySrc", "fff_vector_median(tmp)", "fff_vector_median(tmp)",
             "`a_med`, `a_base` = the medians of `|x - median|`, `|x - base|`")):
        where = OSC + "::" + fname
        b = cx.squash(cx.function_body(src, fname, OSC))
        tail = ("s0=FFF_MAX(s0,s);aux-=base;sign=FFF_SIGN(aux);if(sign==0)return0.0;aux=sqrt(2*n*log(s0/s));"
                "if(aux<FFF_POSINF)return(sign*aux);elseif(sign>0)returnFFF_POSINF;elsereturnFFF_NEGINF;")
        if not b.endswith(tail) or f"s={cx.squash(s_src)};" not in b or f"s0={cx.squash(s0_src)};" not in b \
                or b.index(f"s={cx.squash(s_src)};") > b.rindex(f"s0={cx.squash(s0_src)};"):
            raise SourceError(f"{where}: scale statements / tail changed")
        em = cx.Emitter({"a_med": "Rat", "a_base": "Rat", "size_x": "Int", "n": "Int", "s": "Rat", "s0": "Rat",
                         "aux": "Rat", "base": "Rat", "sign": "Rat"},
                        dict(funs, sqrt=(["Rat"], "Rat"), log=(["Rat"], "Rat")))
        L.append(f"/-- `{fname}`: `s = …; s0 = …; s0 = FFF_MAX(s0, s); aux -= base; sign = FFF_SIGN(aux); "
                 f"aux = sqrt(2*n*log(s0/s))` ({doc}; `med` = the sample median; `sqrt`, `log` are leaves); "
                 f"returns (sign, s0, s, sign * aux) -/")
        L.append(f"def {lean} (sqrt log : Rat → Rat) (a_med a_base med : Rat) (n : Int) (base : Rat) : Rat × Rat × Rat × Rat :=")
        L.append("  let size_x : Int := n")
        L.append("  let aux : Rat := med")
        if lean == "osLaplaceSrc":
            L.append(f"  let s : Rat := {_c_let(em, 's = ' + subst(s_src).replace('fff_vector_sad(x, aux)', 'a_med'), where)[1]}")
            L.append(f"  let s0 : Rat := {_c_let(em, 's0 = ' + subst(s0_src).replace('fff_vector_sad(x, base)', 'a_base'), where)[1]}")
        else:
            L.append("  let s : Rat := a_med")
            L.append("  let s0 : Rat := a_base")
        for st in ("s0 = FFF_MAX(s0, s)", "aux -= base", "sign = FFF_SIGN(aux)", "aux = sqrt(2*n*log(s0/s))"):
            lhs, t = _c_let(em, st, where)
            L.append(f"  let {lhs} : Rat := {t}")
        L.append(f"  (sign, s0, s, {em.val(cx.cparse('sign * aux'), 'Rat')})")
    # --- two-sample Wilcoxon ---------------------------------------------------------------------------
    src2 = cx.strip_comments(_read(repo, TSC))
    where = TSC + "::_fff_twosample_wilcoxon"
    b = cx.function_body(src2, "_fff_twosample_wilcoxon", TSC)
    m = re.search(r"for\s*\(i=0, b1=x1\.data; i<n1; i\+\+, b1\+=x1\.stride\)\s*\{\s*aux = 0\.0;\s*"
                  r"for\s*\(j=0, b2=x2\.data; j<n2; j\+\+, b2\+=x2\.stride\)\s*\{(.*?)\}\s*aux /= \(double\)n2;\s*w \+= aux;\s*\}"
                  r"\s*return w;", b, re.S)
    if not m or "doublew=0.0,aux;" not in cx.squash(b):
        raise SourceError(f"{where}: loop nest changed")
    chain = m.group(1).replace("*b1", "a").replace("*b2", "b")
    em = cx.Emitter({"a": "Rat", "b": "Rat", "aux": "Rat", "w": "Rat", "n2": "Int"}, funs)
    L.append("/-- `_fff_twosample_wilcoxon`: body of the inner loop (`a` = `*b1`, `b` = `*b2`), then the outer loop "
             "(`aux = 0.0; …; aux /= (double)n2; w += aux`) -/")
    L.append("def tsWilcoxonInnerSrc (a : Rat) (aux : Rat) (b : Rat) : Rat :=")
    L.append("  " + _c_ifchain(em, chain, where, ["aux"]))
    L.append("def tsWilcoxonSrc (x1 x2 : List Rat) : Rat :=")
    L.append("  let n2 : Int := (x2.length : Int)")
    L.append("  x1.foldl (fun w a =>")
    L.append("    let aux : Rat := x2.foldl (tsWilcoxonInnerSrc a) 0")
    L.append(f"    let aux : Rat := {_c_let(em, 'aux /= (double)n2', where)[1]}")
    L.append(f"    {_c_let(em, 'w += aux', where)[1]}) 0")


PRELUDE = """/- GENERATED by harness/props/c17_source.py from nipy/labs/group/permutation_test.py, nipy/labs/utils/zscore.py,
   nipy/algorithms/statistics/mixed_effects_stat.py, nipy/algorithms/statistics/onesample.py, lib/fff/fff_base.h,
   lib/fff/fff_onesample_stat.c and
   lib/fff/fff_twosample_stat.c.  Do not edit.  Props/C17Source.lean proves these are what the model implements. -/
import NipyVerif.Model.C17M
namespace NipyVerif.C17.Src
open NipyVerif.C17

/-! prelude: NumPy / C idioms the emitted terms use -/
def rmin (a b : Rat) : Rat := if a < b then a else b
/-- an integer-valued `Rat` used as an index (Python `int`) -/
def natOf (r : Rat) : Nat := r.floor.toNat
/-- `np.searchsorted(a, v, 'right')` on sorted `a` -/
def searchsortedRight (a : List Rat) (v : Rat) : Nat := (a.filter (fun u => decide (u ≤ v))).length
def meanL (l : List Rat) : Rat := l.sum / ((l.length : Nat) : Rat)
"""


def lean_text(repo):
    L = [PRELUDE]
    L.append("/-! ## permutation_test.py -/")
    _permutation_test(repo, L)
    L.append("\n/-! ## labs/utils/zscore.py -/")
    _zscore(repo, L)
    L.append("\n/-! ## mixed_effects_stat.py -/")
    _mixed_effects(repo, L)
    L.append("\n/-! ## algorithms/statistics/onesample.py -/")
    _onesample_py(repo, L)
    L.append("\n/-! ## lib/fff -/")
    try:
        funs = _c_macros(repo, L)
        _c_onesample(repo, L, funs)
        _c_twosample(repo, L, funs)
        _c_more(repo, L, funs)
    except cx.CParseError as e:
        raise SourceError(f"lib/fff: {e}")
    L.append("\nend NipyVerif.C17.Src")
    return "\n".join(L) + "\n"
