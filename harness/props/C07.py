"""C07 — design-matrix regressors are linear, causal and shift-consistent.

Correspondence (model driver vs the real code, same inputs):
  hrgrid / sample2 / compute2 / fir / tr   the high-resolution grid, `_sample_condition`,
                                           `compute_regressor` from the frame times (exact class)
  sample / compute                         the same with the implementation's grid as input
  polydrift, driftcols                     `_poly_drift`, number of drift columns
  mkdmtx                                   `make_dmtx` names, defaults and refusals, uniqueness flag
  csvw / csvr                              `csv.writer` / `csv.reader` text layer of
                                           `DesignMatrix.write_csv`, `dmtx_from_csv`, paradigm files
  parwrite / parload / parconds            `write_to_csv`, `load_paradigm_from_csv_file`,
                                           conditions handed to `compute_regressor`
  convnames                                `_convolve_regressors`: oversampling handed on, names in order
  mkdrift                                  `_make_drift` for every drift model (mixed case, unknown): columns, names
  hrflen / gammahrf / dkernel              `_gamma_difference_hrf` (length, difference + normalisation of the
                                           observed gamma densities), the three derivative kernels
  fullrank                                 `_full_rank` on the singular values (branch, condition number, new values)
Oracle: the property clauses evaluated directly on the real code.
"""
from __future__ import annotations

import csv
import io
import os
import tempfile
import warnings
from fractions import Fraction

import numpy as np

from harness.core import PropertyCheck
from harness.props import c07_gen as G
from harness.util import Snapshot, all_close, cmp_rats, errname, fr, frs, plist, parse_rats

HRFS, NK = G.HRFS, G.NK


def ustr(s):
    """protocol spelling of a string: code points (matches NipyVerif.C07.encodeStr)"""
    return "u" + ".".join(str(ord(ch)) for ch in s)


def pstrs(xs):
    xs = list(xs)
    return " ".join([str(len(xs))] + [ustr(x) for x in xs])


def opt_rats(xs):
    return "none" if xs is None else "some " + plist(xs)


def frames_of(c):
    ft = c["t0"] + np.arange(c["n"]) * c["tr"]
    dt = c.get("ftdtype", "float64")
    if dt == "int64":
        ft = ft.astype(np.int64)
    elif dt == "float32":
        if np.array_equal(ft.astype(np.float32).astype(np.float64), ft):
            ft = ft.astype(np.float32)
    elif dt == "float64-strided":
        buf = np.zeros(2 * c["n"]); buf[::2] = ft; ft = buf[::2]
    return ft


def events_line(cond):
    """events for the model; the duration is given as (float(onset + duration) - onset), i.e. the offset time
    is the float the implementation computes (`onsets + durations` rounds for decimal values)"""
    if not len(cond[0]):
        return "0"
    out = []
    for o, d, a in zip(*cond):
        off = Fraction(float(np.float64(o) + np.float64(d)))
        out.append(f"{fr(o)} {fr(off - Fraction(float(o)))} {fr(a)}")
    return f"{len(cond[0])} " + " ".join(out)


def events_plain(cond):
    return f"{len(cond[0])} " + " ".join(f"{fr(o)} {fr(d)} {fr(a)}" for o, d, a in zip(*cond)) if len(cond[0]) else "0"


def as_cols(a, n):
    a = np.atleast_2d(np.asarray(a, dtype=float))
    return a if a.shape[0] == n else a.T


def names_precondition(conds, hrf, fir_delays, addnames, driftnames):
    """Python twin of `namesUnique` (Props/C07Names.dmtx_names_nodup_iff): exact precondition under
    which the column names are pairwise distinct."""
    conds = sorted(set(conds))
    ok = True
    if hrf not in HRFS:           # only reachable without a paradigm: no condition columns
        hrf, conds = "canonical", []
    if hrf in ("canonical with derivative", "spm_time", "spm_time_dispersion"):
        ok &= not any(c == c2 + "_derivative" for c in conds for c2 in conds)
    if hrf == "spm_time_dispersion":
        ok &= not any(c == c2 + "_dispersion" for c in conds for c2 in conds)
    if hrf == "fir":
        ok &= (not conds) or len(set(fir_delays)) == len(fir_delays)
    sfx = {"canonical": [""], "spm": [""], "canonical with derivative": ["", "_derivative"],
           "spm_time": ["", "_derivative"], "spm_time_dispersion": ["", "_derivative", "_dispersion"],
           "fir": ["_delay_%d" % d for d in fir_delays]}[hrf]
    cc = {c + s for c in conds for s in sfx}
    ok &= len(set(addnames)) == len(addnames)
    ok &= not (cc & set(addnames)) and not (cc & set(driftnames)) and not (set(addnames) & set(driftnames))
    return bool(ok)


class C07(PropertyCheck):
    id = "C07"
    title = "Design-matrix regressors are linear, causal and shift-consistent"
    lean_modules = ["NipyVerif.Props.C07", "NipyVerif.Props.C07Grid", "NipyVerif.Props.C07Csv",
                    "NipyVerif.Props.C07Par", "NipyVerif.Props.C07Names", "NipyVerif.Props.C07Source",
                    "NipyVerif.Props.C07Drift", "NipyVerif.Props.C07Expr", "NipyVerif.Props.C07Mk"]
    driver = "Drivers/C07.lean"
    rule = ("cases are (frame grid incl. start/dtype, oversampling, min_onset, paradigm, hrf model, drift, "
            "user regressors, names) tuples from a seeded PRNG, plus paradigm files (1-3 sessions) and "
            "design matrices with adversarial column names; non-trivial = at least two events, or a "
            "multi-kernel/fir model, or a start != 0, or a drift of order >= 2, or a refusal branch; kernels with "
            "rarely used arguments (time_length, onset, delays, dispersions, ratio), drift blocks of every model "
            "name (mixed case / unknown), small matrices for _full_rank (rank deficient, badly scaled, equal "
            "singular values; C / Fortran / strided) with cmax from 1.5 to 1e15; "
            "distinct by full JSON of the case. Paradigm files use plain condition names "
            "[A-Za-z0-9_.-] (the loader guesses the dialect); design-matrix CSV names range over all "
            "characters incl. quotes, delimiters, blanks, line breaks, the empty name")
    assumptions = [
        "gamma densities (scipy.stats.gamma.pdf) are a parameter: the kernels the implementation "
        "computed (observed at its own call of _hrf_kernel) are passed to the model as exact dyadic rationals",
        "scipy.interpolate.interp1d(kind=linear) is piecewise-linear interpolation (checked to 1e-9 per case)",
        "np.convolve / np.cumsum / np.linspace are exact on the dyadic inputs generated (model is exact); for "
        "decimal TR / start the model is given the implementation's own high-resolution grid",
        "cosine-drift orthonormality (DCT-II identity) is proved over the reals for the expressions the source "
        "evaluates (Props/C07Drift, tied to the text by cosine_source_as_modelled); np.cos, np.sqrt and "
        "floating-point summation are parameters: the arrays the code returns are compared numerically with that "
        "statement (1e-9)",
        "kernel sums: proved on the model for any densities (Props/C07Mk.gamma_hrf_sums_to_one, hypothesis: the "
        "un-normalised sum is not zero — true for every TR / oversampling generated, checked per case); the float "
        "summation of the implementation is compared to 1e-9",
        "the repr/float round trip of CSV values is Python's guarantee (checked numerically by the oracle, not proved)",
        "np.linalg.svd is a parameter of _full_rank: the singular values the implementation computes are handed to "
        "the model (test c < cmax, shift lda, new values); zero singular values take the regularising branch "
        "(float smax / 0 = inf)",
        "the `onset` argument of the kernel functions shifts the time stamps by onset / dt as written; onsets that "
        "move the whole response out of the window (all densities zero, 0/0) are outside the property",
        "csv.Sniffer (used by load_paradigm_from_csv_file, and by dmtx_from_csv as a fall-back) is external: the "
        "dialect the implementation handed to csv.reader is observed and given to the model's reader",
        "a CSV record containing line breaks inside quotes spans several physical lines which csv.reader joins; the "
        "model reads the record as one character sequence (tied by the correspondence, not proved)",
    ]
    level_note = ("proved for all inputs: superposition / causality / whole-scan shift end to end from the frame "
                  "times (any start, TR, oversampling, min_onset <= 0), grid step and frame times on the grid, fir "
                  "0/amplitude rows, Gram-Schmidt orthogonality (polynomial drift), CSV parse(format) = id over all "
                  "characters, paradigm write/load round trip, exact uniqueness precondition of the column names; "
                  "every condition yields kernelCount columns in condition order (column i*K+j = basis j of "
                  "condition i, fir: <cond>_delay_<d_j>) for every hrf model / fir_delays; drift block of every "
                  "model: polynomial order+1 columns, last one the column of ones, raw entries in [-1, 1]; cosine "
                  "between 1 and n columns when hfcut >= 2 dt; names = columns, 'constant' exactly once, last; "
                  "kernels: hrf /= hrf.sum() sums to one and the three derivative kernels sum to zero for whatever "
                  "gamma densities (parameters); _full_rank: after regularisation smax'/smin' = cmax exactly, shift "
                  ">= 0. Source tie: the sampling-grid, kernel, drift, oversampling and _full_rank expressions are "
                  "regenerated from the text as Lean terms (Gen/C07Expr) and proved equal to the model's definitions "
                  "(Props/C07Expr, 14 *_as_modelled theorems). "
                  "Cosine drift: the columns the source evaluates (expressions regenerated from the text) are proved "
                  "orthonormal and orthogonal to the constant over the reals (DCT-II, Mathlib Real.cos) for every run "
                  "length and order <= n; np.cos / np.sqrt / float summation are parameters (numeric oracle). "
                  "Parameters, compared numerically only: gamma densities (scipy), SVD of _full_rank (singular values "
                  "handed to the model), float repr round trip of CSV values (Python's repr guarantee), pinv-based "
                  "orthogonalisation on ill-conditioned columns (rcond cut-off has no exact counterpart), csv.Sniffer "
                  "(external heuristic; the dialect it returns is observed). Not proved: that no *other* polynomial "
                  "drift column is constant at the value level (needs linear independence of the monomials on the "
                  "frame times); names carry the statement")
    finding_keys = {}

    # ------------------------------------------------------------------ tie (a): source text -> Lean
    def translators(self):
        from harness.core import REPO, TieBroken
        from harness.props import c07_translate
        return c07_translate.translate(REPO, TieBroken)

    # ------------------------------------------------------------------ generation
    def generate(self, rng, tier):
        q = tier == "quick"
        n_s, n_r, n_d, n_p, n_par, n_csv = (700, 700, 450, 50, 220, 450) if q else (10000, 9000, 6000, 500, 2500, 6000)
        cases = []
        cases += G.gen_sample(rng, n_s)
        cases += G.gen_regressor(rng, n_r)
        cases += G.gen_dmtx(rng, n_d)
        for _ in range(n_p):
            tr = rng.choice(G.EXACT_TRS)
            cases.append({"kind": "polydrift", "n": rng.choice([3, 5, 8, 13]), "tr": tr,
                          "t0": rng.choice([0.0, 0.0, tr, -2 * tr, 10.0, 0.5]),
                          "order": rng.choice([0, 1, 2, 3, 4])})
        cases += G.gen_paradigm(rng, n_par)
        cases += G.gen_csv(rng, n_csv)
        for tr in G.EXACT_TRS[:6] + [2.5, 0.8, 1.1]:
            for os_ in ([16] if q else [1, 4, 16, 32]):
                cases.append({"kind": "kernel", "tr": tr, "os": os_})
        cases += G.gen_hrfk(rng, 60 if q else 800)
        cases += G.gen_mkdrift(rng, 120 if q else 1500)
        cases += G.gen_fullrank(rng, 120 if q else 1500)
        for k in range(2 if q else 8):
            cases.append({"kind": "show", "ncols": 1 + k % 4, "n": 5 + k, "rescale": k % 2 == 0})
        # interleave the kinds (the harness reports the first few failures in case order)
        by = {}
        for cs in cases:
            by.setdefault(cs["kind"], []).append(cs)
        order = ["regressor", "paradigm", "csv", "dmtx", "sample", "polydrift", "mkdrift", "fullrank", "hrfk", "kernel", "show"]
        out, k = [], 0
        while any(by.get(kd) for kd in order):
            for kd in order:
                if by.get(kd):
                    out.append(by[kd].pop(0))
        return out

    # ------------------------------------------------------------------ dispatch
    def run_case(self, case):
        warnings.filterwarnings("ignore")
        from nipy.modalities.fmri import hemodynamic_models as hm
        r = getattr(self, "_" + case["kind"])(case, hm)
        r.setdefault("mutated", None)
        return r

    # ------------------------------------------------------------------ _sample_condition
    def _sample(self, c, hm):
        ft = frames_of(c)
        cond = (np.array(c["onsets"], dtype=float), np.array(c["durs"], dtype=float), G.amps_array(c))
        snap = Snapshot(ft=ft, on=cond[0], du=cond[1], am=cond[2])
        tags = ["sample", "exact-grid" if c["exact"] else "inexact-grid", "ft=" + c.get("ftdtype", "float64")]
        ftl = plist(ft.tolist())
        head = f"{ftl} {c['os']} {fr(c['min_onset'])}"
        try:
            reg, hr = hm._sample_condition(cond, ft, c["os"], c["min_onset"])
        except Exception as e:
            # refusal branches of the grid arithmetic: the model must refuse with the same kind
            tags.append("grid-refusal")
            lines, impl = [], []
            if c["exact"]:
                lines = [f"sample2 {head} {events_line(cond)}"]
                impl = [("err", errname(e))]
            degenerate = c["n"] < 2 or c["os"] < 1 or c["min_onset"] > 0
            fail = None if degenerate else (f"_sample_condition raised {type(e).__name__}: {e} for n={c['n']} "
                                            f"tr={c['tr']} t0={c['t0']} oversampling={c['os']} min_onset={c['min_onset']}")
            return {"lines": lines, "impl": impl, "oracle": fail, "nontrivial": True, "tags": tags}
        mut = snap.changed()
        if not (np.isfinite(reg).all() and np.isfinite(hr).all()):
            return {"lines": [], "impl": [], "nontrivial": True, "tags": tags + ["non-finite"], "mutated": mut,
                    "oracle": f"_sample_condition returned non-finite values for n={c['n']} tr={c['tr']} t0={c['t0']} "
                              f"oversampling={c['os']} min_onset={c['min_onset']}"}
        lines = [f"sample {plist(hr)} {events_line(cond)}"]
        impl = [("exact", reg.tolist())]
        if c["exact"]:
            lines.append(f"sample2 {head} {events_line(cond)}")
            impl.append(("exact2", (reg.tolist(), hr.tolist())))
        # oracle: superposition (amplitude-weighted sum of single-event regressors) and causality
        fail = None
        if len(cond[0]):
            tot = np.zeros_like(reg)
            first = len(reg)
            for o, d, a in zip(*cond):
                single, _ = hm._sample_condition((np.array([o]), np.array([d]), np.array([1.0])),
                                                 ft, c["os"], c["min_onset"])
                tot += a * single
                first = min(first, int(min(np.searchsorted(hr, o), len(hr) - 1)))
            if not np.array_equal(tot, reg):
                j = int(np.nonzero(tot != reg)[0][0])
                fail = (f"_sample_condition not additive: regressor[{j}]={reg[j]} but the amplitude-weighted "
                        f"sum of single-event regressors is {tot[j]}")
            elif np.any(reg[:first] != 0) and not c.get("negdur"):
                fail = f"_sample_condition non-zero before first onset index {first}"
            if c.get("negdur"):
                tags.append("negative-duration")
            tags.append("coincident" if len(set(c["onsets"])) < len(c["onsets"]) else "distinct-onsets")
            if min(c["onsets"]) < c["t0"] + c["min_onset"]:
                tags.append("pre-scan")
        if c["min_onset"] > 0:
            tags.append("positive-min-onset")
        return {"lines": lines, "impl": impl, "oracle": fail,
                "nontrivial": len(c["onsets"]) >= 2 or c["t0"] != 0, "tags": tags, "mutated": mut}

    # ------------------------------------------------------------------ compute_regressor
    def _regressor(self, c, hm):
        ft = frames_of(c)
        n, tr, t0, os_, mo = c["n"], c["tr"], c["t0"], c["os"], c["min_onset"]
        cond = (np.array(c["onsets"], dtype=float), np.array(c["durs"], dtype=float), G.amps_array(c))
        hrf = c["hrf"]
        snap = Snapshot(ft=ft, on=cond[0], du=cond[1], am=cond[2])
        # observe the TR and the kernels at compute_regressor's own call of _hrf_kernel
        seen = []
        orig = hm._hrf_kernel

        def spy(hrf_model, tr_, oversampling=16, fir_delays=None):
            ks = orig(hrf_model, tr_, oversampling, fir_delays)
            seen.append((float(tr_), oversampling, [np.array(k, dtype=float) for k in ks]))
            return ks

        def compute(cnd):
            r, nm = hm.compute_regressor(cnd, hrf, ft, con_id="c", oversampling=os_,
                                         fir_delays=c["fir_delays"], min_onset=mo)
            return as_cols(r, n), nm

        hm._hrf_kernel = spy
        try:
            creg, names = compute(cond)
        except Exception as e:
            return {"lines": [], "impl": [], "nontrivial": True, "tags": ["regressor", "raised"],
                    "oracle": f"compute_regressor({hrf}) raised {type(e).__name__}: {e} (n={n}, tr={tr}, t0={t0}, "
                              f"oversampling={os_}, min_onset={mo}, frametimes dtype {ft.dtype})"}
        finally:
            hm._hrf_kernel = orig
        mut = snap.changed()
        tr_seen, _, kernels = seen[0]
        if not (np.isfinite(creg).all() and np.isfinite(tr_seen) and all(np.isfinite(k).all() for k in kernels)):
            return {"lines": [], "impl": [], "nontrivial": True, "tags": ["regressor", "non-finite"], "mutated": mut,
                    "oracle": f"compute_regressor({hrf}) is not finite (TR handed to the kernels: {tr_seen}; n={n}, "
                              f"tr={tr}, t0={t0}, oversampling={os_}, min_onset={mo})"}
        hr_reg, hr = hm._sample_condition(cond, ft, os_, mo)
        ks = " ".join(plist(h) for h in kernels)
        # conditioning of the un-orthogonalised columns (built from the implementation's own pieces):
        # _orthogonalize projects with pinv, whose rcond cut-off an exact model cannot mimic on
        # (nearly) rank-deficient columns; there the model is compared before orthogonalisation.
        conv = np.array([np.convolve(hr_reg, h)[:hr_reg.size] for h in kernels])
        pre = as_cols(hm._resample_regressor(conv, hr, ft), n)
        sv = np.linalg.svd(pre, compute_uv=False)
        well = hrf == "fir" or len(kernels) == 1 or (sv.max() > 0 and sv.min() / sv.max() > 1e-3)
        orth_flag = 1 if (hrf != "fir" and well) else 0
        target = creg if (well or hrf == "fir") else pre
        ftl = plist(ft.tolist())
        lines = [f"tr {ftl}"]
        impl = [("rat", tr_seen, 0.0 if c["exact"] else 1e-12)]
        if c["exact"]:
            lines.append(f"compute2 {ftl} {os_} {fr(mo)} {events_line(cond)} {len(kernels)} {ks} {orth_flag}")
            impl.append(("cols", target.T.tolist()))
            if hrf == "fir":
                # the model's own fir kernels: exactly 0 / amplitude blocks (Props/C07Grid.fir_event_row)
                lines.append(f"fir {ftl} {os_} {fr(mo)} {events_line(cond)} {plist(c['fir_delays'])}")
                impl.append(("cols", creg.T.tolist()))
        else:
            lines.append(f"compute {plist(hr)} {events_line(cond)} {len(kernels)} {ks} {ftl} {orth_flag}")
            impl.append(("cols", target.T.tolist()))
        fail = None
        single_basis = hrf == "fir" or NK[hrf] == 1
        scale = max(1.0, float(np.abs(creg).max()))
        if len(names) != creg.shape[1] or len(set(names)) != len(names):
            fail = f"compute_regressor: {creg.shape[1]} columns but names {names}"
        # linearity for single-basis models (orthogonalisation is a no-op there) and fir
        if fail is None and single_basis:
            tot = np.zeros_like(creg)
            for o, d, a in zip(*cond):
                s, _ = compute((np.array([o]), np.array([d]), np.array([1.0])))
                tot += a * s
            if not np.allclose(tot, creg, rtol=1e-9, atol=1e-9):
                j = np.unravel_index(np.argmax(np.abs(tot - creg)), creg.shape)
                fail = (f"compute_regressor({hrf}) not the amplitude-weighted sum of single-event "
                        f"regressors at row {j[0]} col {j[1]}: {creg[j]} vs {tot[j]}")
        # causality: rows whose frame time is earlier than every onset are zero
        dt = tr / os_
        ftf = np.asarray(ft, dtype=float)
        if fail is None and single_basis:
            early = ftf < (cond[0].min() - 1e-9 * max(1.0, abs(t0)))
            # linear interpolation between grid points one rounding apart from the frame time picks up
            # eps * |t| / dt of the next sample (inexact grids far from the time origin)
            ctol = (1e-12 + 8 * np.finfo(float).eps * float(np.abs(ftf).max()) / dt) * scale
            if np.any(np.abs(creg[early]) > ctol):
                r = int(np.nonzero(np.abs(creg[early]).max(axis=1) > ctol)[0][0])
                fail = (f"compute_regressor({hrf}): row {r} (t={ftf[r]}) is non-zero although every onset is later "
                        f"(first onset {cond[0].min()})")
        # shift consistency under the hypotheses of Props/C07Grid.regressor_shift_whole_scans:
        # no event earlier than t0 + min_onset, the delayed events end one hr step before the grid end;
        # for decimal grids the onsets are moreover strictly inside hr cells (no knife-edge searchsorted)
        m = c["shift"]
        inside = all(abs(((o - t0) / dt) % 1 - 0.5) < 1e-6 and abs(((o + d - t0) / dt) % 1 - 0.5) < 1e-6
                     for o, d in zip(c["onsets"], c["durs"]))
        hyp = (mo <= 0 and all(o >= t0 + mo for o in c["onsets"]) and m < n and
               all(o + d + m * tr + dt <= t0 + n * tr + 1e-9 for o, d in zip(c["onsets"], c["durs"])))
        shift_tested = fail is None and single_basis and hyp and (c["exact"] or inside)
        if shift_tested:
            s, _ = compute((cond[0] + m * tr, cond[1], cond[2]))
            if not np.allclose(s[m:], creg[: n - m], rtol=1e-9, atol=1e-9 * scale):
                j = np.unravel_index(np.argmax(np.abs(s[m:] - creg[: n - m])), creg[: n - m].shape)
                fail = (f"delaying onsets by {m} scans does not delay the {hrf} regressor by {m} rows "
                        f"(tr={tr}, t0={t0}, oversampling={os_}, min_onset={mo}): row {j[0] + m} is {s[m:][j]} "
                        f"but row {j[0]} of the undelayed regressor is {creg[: n - m][j]}")
            elif all(o > t0 - tr for o in c["onsets"]) and not np.allclose(s[:m], 0, atol=1e-12 * scale):
                fail = f"delaying onsets by {m} scans: the first {m} rows of the {hrf} regressor are not zero"
        tags = ["regressor", "hrf=" + hrf.replace(" ", "_"), "exact-grid" if c["exact"] else "inexact-grid",
                "ft=" + c.get("ftdtype", "float64")] + (["shift-tested"] if shift_tested else [])
        tags.append("orth-compared" if orth_flag else "pre-orth-compared")
        if t0 != 0:
            tags.append("start!=0")
        q = Fraction(-mo) * os_ / Fraction(tr)
        tags.append("min_onset-whole-steps" if q.denominator == 1 else "min_onset-fractional-steps")
        return {"lines": lines, "impl": impl, "oracle": fail,
                "nontrivial": len(c["onsets"]) >= 2 or hrf == "fir" or NK[hrf] > 1 or t0 != 0,
                "tags": tags, "mutated": mut}

    # ------------------------------------------------------------------ make_dmtx
    def _paradigm_of(self, c):
        from nipy.modalities.fmri.experimental_paradigm import BlockParadigm, EventRelatedParadigm
        ids, on, du, am = [], [], [], []
        for cd in c["conds"]:
            for o, d, a in zip(cd["onsets"], cd["durs"], cd["amps"]):
                ids.append(cd["name"]); on.append(o); du.append(d); am.append(a)
        amp = None if c["amp_none"] else am
        if c["ptype"] == "event":
            return EventRelatedParadigm(ids, on, amp), ("event", ids, on, None, amp)
        return BlockParadigm(ids, on, du, amp), ("block", ids, on, du, amp)

    @staticmethod
    def _par_line(spec):
        kind, ids, on, du, amp = spec
        s = f"{kind} {pstrs(ids)} {plist(on)}"
        if kind == "block":
            s += " " + opt_rats(du)
        return s + " " + opt_rats(amp)

    def _dmtx(self, c, hm):
        from nipy.modalities.fmri import design_matrix as dm
        n = c["n"]
        ft = frames_of(c)
        if c.get("ftdtype") == "list":
            ft = ft.tolist()
        ftf = np.asarray(ft, dtype=float)
        par, pspec = (None, None) if c["paradigm_none"] else self._paradigm_of(c)
        rs = np.random.RandomState(n * 7 + len(c["conds"]))
        a = c["add"]
        if a["mode"] == "none":
            add = None
        elif a["mode"] == "vector":
            add = rs.randint(-4, 5, size=(n + a.get("rows_off", 0),)).astype(float)
        else:
            add = rs.randint(-4, 5, size=(n + a.get("rows_off", 0), a["ncols"])).astype(float)
        lay = c.get("add_layout", "float64")
        if add is not None:
            if lay in ("int64", "int8", "float32"):
                add = add.astype(lay)
            elif lay == "F" and add.ndim == 2:
                add = np.asfortranarray(add)
            elif lay == "strided":
                buf = np.zeros((2 * add.shape[0],) + add.shape[1:]); buf[::2] = add; add = buf[::2]
            elif lay == "readonly":
                add.setflags(write=False)
        fk = c.get("fir_kind", "list")
        fir_arg = c["fir_delays"]
        if fk == "tuple":
            fir_arg = tuple(fir_arg)
        elif fk.endswith("-array"):
            fir_arg = np.array(fir_arg, dtype=fk[:-6])
        addn = c["add_names"]
        kw = {}
        if c["use_min_onset"]:
            kw["min_onset"] = c["min_onset"] if c["min_onset"] <= 0 else -24
        snap = Snapshot(ft=ft, add=add if add is not None else 0, addn=addn if addn is not None else 0,
                        fd=fir_arg)
        hrf_l, drift_l = c["hrf"].lower(), c["drift"].lower()
        # model line
        sh = "none" if add is None else f"some {add.shape[0]} {add.size}"
        an = "none" if addn is None else "some " + pstrs(addn)
        pl = "none" if pspec is None else "some " + self._par_line(pspec)
        dt_ = ftf[1] - ftf[0]
        line = (f"mkdmtx {n} {fr(dt_)} {pl} {ustr(c['hrf'])} {ustr(c['drift'])} {fr(c['hfcut'])} {c['order']} "
                f"{plist(c['fir_delays'])} {sh} {an}")
        # the float floor of the cosine order is only compared where it cannot sit on an integer boundary
        # (unless every float operation of `2*len_tim*(1/period_cut)*dt` is exact)
        qcos = Fraction(2 * n) * Fraction(float(dt_)) / Fraction(float(c["hfcut"]))
        hf = Fraction(float(c["hfcut"]))
        pow2 = (hf.numerator == 1 or hf.denominator == 1) and \
            (hf.numerator & (hf.numerator - 1)) == 0 and (hf.denominator & (hf.denominator - 1)) == 0
        cos_fragile = drift_l == "cosine" and abs(qcos - round(qcos)) < Fraction(1, 10 ** 9) and \
            not (pow2 and c["exact"])
        tags = ["dmtx", "drift=" + drift_l, "hrf=" + hrf_l.replace(" ", "_"), "ptype=" + c["ptype"],
                "add=" + a["mode"] + ("-badrows" if a.get("rows_off") else ""),
                "addnames=" + ("none" if addn is None else "given"), "add-layout=" + lay, "fir-delays=" + fk]
        if c["paradigm_none"]:
            tags.append("paradigm-none")
        if c["t0"] != 0:
            tags.append("start!=0")
        tmp = tempfile.mkdtemp(prefix="c07-")
        try:
            try:
                if c["light"]:
                    X, names = dm.dmtx_light(ft, par, c["hrf"], c["drift"], c["hfcut"], c["order"], fir_arg,
                                             add, addn, path=os.path.join(tmp, "light.csv"), **kw)
                    d = dm.DesignMatrix(X, names, ftf)
                    tags.append("dmtx_light")
                else:
                    d = dm.make_dmtx(ft, par, c["hrf"], c["drift"], c["hfcut"], c["order"], fir_arg,
                                     add, addn, **kw)
            except Exception as e:
                mut = snap.changed()
                tags.append("refused")
                expected = (hrf_l not in HRFS and par is not None) or drift_l not in ("polynomial", "cosine", "blank") \
                    or (add is not None and add.shape[0] != n) \
                    or (addn is not None and len(addn) != (0 if add is None else (1 if add.ndim == 1 else add.shape[1])))
                fail = None if expected else (
                    f"make_dmtx raised {type(e).__name__}: {e} on a valid specification (hrf={c['hrf']}, "
                    f"drift={c['drift']}, hfcut={c['hfcut']}, n={n}, tr={c['tr']}, t0={c['t0']}, frametimes "
                    f"{c.get('ftdtype')})")
                return {"lines": [line], "impl": [("err", errname(e))], "oracle": fail, "nontrivial": True,
                        "tags": tags, "mutated": mut}
            mut = snap.changed()
            X, names = d.matrix, list(d.names)
            drift, dn = dm._make_drift(drift_l, ftf, c["order"], c["hfcut"])
            nd = drift.shape[1]
            uniq = len(set(names)) == len(names)
            lines, impl = [], []
            if not cos_fragile:
                lines.append(line)
                impl.append(("text", pstrs(names) + " | unique=" + ("1" if uniq else "0")))
            else:
                tags.append("cosine-order-on-integer-boundary")
            nadd = 0 if add is None else (1 if add.ndim == 1 else add.shape[1])
            addnames = [] if add is None else (addn if addn is not None else ["reg%d" % k for k in range(nadd)])
            condnames = [] if par is None else [cd["name"] for cd in c["conds"]]
            pre = names_precondition(condnames, hrf_l, c["fir_delays"], addnames, dn)
            tags.append("names-precondition" if pre else "names-collide")
            fail = None
            if X.shape != (n, len(names)):
                fail = f"make_dmtx: matrix shape {X.shape} vs {len(names)} names"
            elif pre and not uniq:
                fail = f"make_dmtx: duplicate column names {names} although conditions, user names and drifts do not clash"
            elif names[-1] != "constant" or not np.allclose(X[:, -1], X[0, -1]) or X[0, -1] == 0:
                fail = "make_dmtx: last column is not a non-zero constant named 'constant'"
            elif nadd and not np.array_equal(X[:, len(names) - nd - nadd: len(names) - nd],
                                             add.reshape(n, nadd)) and np.linalg.cond(X) < 1e14:
                fail = "make_dmtx: the user regressors are not the columns between conditions and drifts"
            else:
                D = drift[:, :-1]
                if drift_l == "cosine" and D.shape[1]:
                    Gm = D.T @ D
                    if not np.allclose(Gm, np.eye(Gm.shape[0]), atol=1e-9):
                        fail = "cosine drift columns are not orthonormal"
                    elif not np.allclose(D.T @ np.ones(n), 0, atol=1e-9):
                        fail = "cosine drift columns are not orthogonal to the constant"
                if drift_l == "polynomial" and nd >= 2:
                    Gm = drift.T @ drift
                    off = Gm - np.diag(np.diag(Gm))
                    if np.abs(off).max() > 1e-8 * max(1.0, np.abs(Gm).max()):
                        fail = f"polynomial drift columns not mutually orthogonal (max off-diag {np.abs(off).max()})"
            # conditions handed to compute_regressor, observed at make_dmtx's own calls
            if par is not None and hrf_l in HRFS:
                l2, i2, f2 = self._conds_lines(dm, par, pspec, hrf_l, ftf, c["fir_delays"])
                lines += l2; impl += i2
                fail = fail or f2
            # CSV: text layer tie + round trip
            l3, i3, f3, t3 = self._csv_roundtrip(dm, d, tmp)
            lines += l3; impl += i3; tags += t3
            fail = fail or f3
        finally:
            for f in os.listdir(tmp):
                os.unlink(os.path.join(tmp, f))
            os.rmdir(tmp)
        return {"lines": lines, "impl": impl, "oracle": fail, "nontrivial": True, "tags": tags, "mutated": mut}

    def _conds_lines(self, dm, par, pspec, hrf_l, ftf, fir_delays):
        """`parconds`: the (onsets, durations, amplitudes) per condition that `_convolve_regressors` hands to
        `compute_regressor`, in its order"""
        seen = []
        orig = dm.compute_regressor

        kws, regs = [], []

        def spy(exp_condition, hrf_model, frametimes, con_id='cond', **kw):
            on, du, am = (np.asarray(x, dtype=float) for x in exp_condition)
            seen.append((str(con_id), on.tolist(), du.tolist(), am.tolist()))
            kws.append(kw.get("oversampling"))
            r = orig(exp_condition, hrf_model, frametimes, con_id=con_id, **kw)
            regs.append((np.array(as_cols(r[0], len(frametimes))), list(r[1])))
            return r

        dm.compute_regressor = spy
        try:
            rmat, hnames = dm._convolve_regressors(par, hrf_l, ftf, fir_delays)
        except Exception as e:
            return [f"parconds {self._par_line(pspec)}"], [("err", errname(e))], None
        finally:
            dm.compute_regressor = orig
        txt = " ; ".join(f"{ustr(cid)} {events_plain((on, du, am))}" for cid, on, du, am in seen)
        lines, impl, fail = [f"parconds {self._par_line(pspec)}"], [("text", txt)], None
        if seen and len(set(kws)) == 1 and kws[0] is not None and all(int(d) == d and d >= 0 for d in fir_delays):
            # `convnames`: oversampling handed to compute_regressor and the names, in order
            lines.append(f"convnames {ustr(hrf_l)} {pstrs([str(x) for x in pspec[1]])} "
                         f"{plist([int(d) for d in fir_delays])}")
            impl.append(("text", f"{kws[0]} {pstrs([str(x) for x in hnames])}"))
            # documented order of the columns (Props/C07Mk.convolve_column_position): the block of
            # condition i is what compute_regressor returned for it, names likewise
            rmat = as_cols(rmat, len(ftf))
            k0 = 0
            for i, (reg, nms) in enumerate(regs):
                k1 = k0 + reg.shape[1]
                if list(hnames[k0:k1]) != nms or not np.array_equal(rmat[:, k0:k1], reg, equal_nan=True):
                    fail = (f"_convolve_regressors({hrf_l}): columns {k0}..{k1 - 1} are not the regressors of "
                            f"condition {seen[i][0]!r} in compute_regressor's order (names {list(hnames[k0:k1])} vs {nms})")
                    break
                k0 = k1
            if fail is None and k0 != rmat.shape[1]:
                fail = f"_convolve_regressors({hrf_l}): {rmat.shape[1]} columns for {k0} regressors"
        return lines, impl, fail

    def _csv_roundtrip(self, dm, d, tmp):
        """write_csv -> dmtx_from_csv: format / parse tied to the model, round trip as oracle"""
        names, X = list(d.names), d.matrix
        lines, impl, tags, fail = [], [], [], None
        p = os.path.join(tmp, "d.csv")
        try:
            d.write_csv(p)
        except Exception as e:
            return [], [], f"write_csv of names {names} raised {type(e).__name__}: {e}", ["csv-write-raised"]
        with open(p, newline='') as f:
            phys = f.readlines()
        with open(p, newline='') as f:
            rd = csv.reader(f)
            try:
                next(rd)
                nhead = rd.line_num
            except StopIteration:
                nhead = len(phys)
        header_raw = "".join(phys[:nhead])
        lines.append(f"csvw 44 {pstrs(names)}")
        impl.append(("text", ustr(header_raw)))
        # the dialect dmtx_from_csv hands to csv.reader
        seen = []
        orig = csv.reader

        def spy(f, dialect='excel', *a, **kw):
            dd = csv.get_dialect(dialect) if isinstance(dialect, str) else dialect
            seen.append((dd.delimiter, dd.quotechar or '"', bool(dd.doublequote), bool(dd.skipinitialspace)))
            return orig(f, dialect, *a, **kw)

        csv.reader = spy
        try:
            d2 = dm.dmtx_from_csv(p)
            n2, X2 = list(d2.names), d2.matrix
            err = None
        except Exception as e:
            err = e
        finally:
            csv.reader = orig
        if err is not None:
            tags.append("csv-read-raised")
            if X.shape[1] > 0:
                fail = f"CSV round trip of names {names} ({X.shape[0]} rows) raised {type(err).__name__}: {err}"
            return lines, impl, fail, tags
        dl, q, dq, sk = seen[-1]
        tags.append("csv-dialect=" + ("excel" if (dl, q, sk) == (",", '"', False) else "other"))
        lines.append(f"csvr {ord(dl)} {ord(q)} {int(dq)} {int(sk)} {ustr(header_raw)}")
        impl.append(("text", pstrs(n2)))
        if n2 != names or X2.shape != X.shape or not np.array_equal(X2, X):
            fail = f"CSV round trip does not reproduce names and values (names {names} -> {n2})"
        if any(ch in nm for nm in names for ch in '",;\t \n\r') or "" in names:
            tags.append("csv-adversarial-names")
        return lines, impl, fail, tags

    def _csv(self, c, hm):
        from nipy.modalities.fmri import design_matrix as dm
        names = c["names"]
        X = np.array(c["values"], dtype=float).reshape(len(c["values"]), len(names))
        d = dm.DesignMatrix(X, names)
        snap = Snapshot(X=X, names=names)
        tmp = tempfile.mkdtemp(prefix="c07-")
        try:
            lines, impl, fail, tags = self._csv_roundtrip(dm, d, tmp)
        finally:
            for f in os.listdir(tmp):
                os.unlink(os.path.join(tmp, f))
            os.rmdir(tmp)
        return {"lines": lines, "impl": impl, "oracle": fail, "nontrivial": len(names) >= 1,
                "tags": ["csv"] + tags, "mutated": snap.changed()}

    # ------------------------------------------------------------------ paradigm I/O
    def _paradigm(self, c, hm):
        from nipy.modalities.fmri import design_matrix as dm
        from nipy.modalities.fmri import experimental_paradigm as ep
        tags = ["paradigm", "sessions=%d" % len(c["sessions"])]
        lines, impl, fail = [], [], None
        tmp = tempfile.mkdtemp(prefix="c07-")
        ft = np.asarray(frames_of(c), dtype=float)
        try:
            pars, raw_all = [], ""
            for k, s in enumerate(c["sessions"]):
                if s["ptype"] == "event":
                    par = ep.EventRelatedParadigm(s["ids"], s["onsets"], s["amps"])
                    spec = ("event", s["ids"], s["onsets"], None, s["amps"])
                else:
                    par = ep.BlockParadigm(s["ids"], s["onsets"], s["durs"], s["amps"])
                    spec = ("block", s["ids"], s["onsets"], s["durs"], s["amps"])
                pars.append((par, spec))
                p1 = os.path.join(tmp, f"s{k}.csv")
                snap = Snapshot(ids=par.con_id, on=par.onset)
                par.write_to_csv(p1, s["id"])
                if snap.changed():
                    return {"lines": [], "impl": [], "oracle": None, "tags": tags, "mutated": snap.changed()}
                with open(p1, newline='') as f:
                    raw = f.read()
                raw_all += raw
                # rows written (numbers through float()) vs the model's rows
                rows = list(csv.reader(io.StringIO(raw, newline=''), delimiter=' '))
                obs = " ; ".join(" ".join([str(len(r)), ustr(r[0]), ustr(r[1])] + [fr(float(x)) for x in r[2:]])
                                 for r in rows)
                lines.append(f"parwrite {ustr(s['id'])} {self._par_line(spec)}")
                impl.append(("text", obs))
                # text layer of the first rows: the model's writer reproduces the raw line
                for r, rawline in list(zip(rows, raw.splitlines(keepends=True)))[:2]:
                    lines.append(f"csvw 32 {pstrs(r)}")
                    impl.append(("text", ustr(rawline)))
            mal = c["malformed"]
            if mal == "empty-file":
                raw_all = ""
            elif mal == "three-columns":
                raw_all = "".join(" ".join(ln.split(" ")[:3]) + "\r\n" for ln in raw_all.splitlines()
                                  if '"' not in ln)
                if not raw_all:
                    mal = None
            ncolset = {len(r) for r in csv.reader(io.StringIO(raw_all, newline=''), delimiter=' ')}
            ragged = len(ncolset) > 1
            if ragged:
                tags.append("ragged")
            if mal:
                tags.append(mal)
            path = os.path.join(tmp, "all.csv")
            with open(path, "w", newline='') as f:
                f.write(raw_all)
            want = [s["id"] for s in c["sessions"]]
            if mal == "absent-session":
                want = ["nope"]
            if c["load_session"] == "none":
                want = [None]
            for sid in want:
                # the dialect the loader hands to csv.reader
                seen = []
                orig = csv.reader

                def spy(f, dialect='excel', *a, **kw):
                    dd = csv.get_dialect(dialect) if isinstance(dialect, str) else dialect
                    seen.append(dd)
                    return orig(f, dialect, *a, **kw)

                csv.reader = spy
                try:
                    got = ep.load_paradigm_from_csv_file(path, sid)
                    err = None
                except Exception as e:
                    err = e
                finally:
                    csv.reader = orig
                # the rows as the loader's reader sees them
                rows = []
                if seen:
                    rows = list(orig(io.StringIO(raw_all, newline=''), seen[-1]))
                try:
                    rl = " ".join([str(len(rows))] + [" ".join([str(len(r)), ustr(r[0]), ustr(r[1])] +
                                                              [fr(float(x)) for x in r[2:5]]) for r in rows])
                    model_ok = all(len(r) >= 3 for r in rows)
                except (ValueError, IndexError):
                    model_ok = False
                valid = not mal or mal == "three-columns"
                if err is not None:
                    tags.append("load-raised")
                    if model_ok and seen:
                        lines.append(f"parload {'-' if sid is None else ustr(sid)} {rl}")
                        impl.append(("err", errname(err)))
                    if valid and not ragged:
                        fail = fail or (f"load_paradigm_from_csv_file raised {type(err).__name__}: {err} on a file "
                                        f"written by write_to_csv (sessions {[s['id'] for s in c['sessions']]})")
                    continue
                if model_ok:
                    lines.append(f"parload {'-' if sid is None else ustr(sid)} {rl}")
                    impl.append(("text", self._fmt_loaded(got, sid)))
                if not valid or ragged:
                    continue
                # oracle: the design from the loaded paradigm equals the design from the original
                loaded = got if sid is None else {sid: got}
                for (par, spec), s in zip(pars, c["sessions"]):
                    if s["id"] not in loaded:
                        if sid is None:
                            fail = fail or f"session {s['id']!r} missing from the loaded dictionary {sorted(loaded)}"
                        continue
                    q = loaded[s["id"]]
                    if mal == "three-columns":
                        par = ep.EventRelatedParadigm(s["ids"], s["onsets"])
                    try:
                        d1 = dm.make_dmtx(ft, par, c["hrf"], "blank", fir_delays=c["fir_delays"])
                        d2 = dm.make_dmtx(ft, q, c["hrf"], "blank", fir_delays=c["fir_delays"])
                    except Exception as e:
                        fail = fail or (f"make_dmtx on the paradigm loaded from CSV (session {s['id']!r}, "
                                        f"{s['ptype']}, amplitudes {'given' if s['amps'] is not None else 'absent'}) "
                                        f"raised {type(e).__name__}: {e}")
                        continue
                    if list(d1.names) != list(d2.names) or d1.matrix.shape != d2.matrix.shape or \
                            not np.allclose(d1.matrix, d2.matrix, rtol=1e-12, atol=1e-12):
                        fail = fail or (f"design from the paradigm loaded from CSV differs from the design of the "
                                        f"original paradigm (session {s['id']!r}, {s['ptype']})")
                    tags.append("roundtrip-design-compared")
        finally:
            for f in os.listdir(tmp):
                os.unlink(os.path.join(tmp, f))
            os.rmdir(tmp)
        return {"lines": lines, "impl": impl, "oracle": fail, "nontrivial": True, "tags": tags}

    @staticmethod
    def _fmt_par(p):
        blk = p.type == "block"
        ids = [str(x) for x in p.con_id]
        on = [float(x) for x in p.onset]
        du = None if not blk or p.duration is None else [float(x) for x in p.duration]
        am = None if p.amplitude is None else [float(x) for x in p.amplitude]
        for nm, arr in (("onset", p.onset), ("amplitude", p.amplitude), ("duration", getattr(p, "duration", None))):
            if arr is not None and np.asarray(arr).dtype.kind not in "fiu":
                return f"{nm}-array-of-dtype-{np.asarray(arr).dtype.kind}"
        return (("block " if blk else "event ") + pstrs(ids) + " " + plist(on) + " " + opt_rats(du) + " "
                + opt_rats(am))

    def _fmt_loaded(self, got, sid):
        if sid is not None:
            return "None" if got is None else self._fmt_par(got)
        return " ;; ".join(ustr(str(k)) + " " + ("None" if got[k] is None else self._fmt_par(got[k]))
                           for k in sorted(got))

    # ------------------------------------------------------------------ drifts, kernels, show
    def _polydrift(self, c, hm):
        from nipy.modalities.fmri import design_matrix as dm
        ft = c.get("t0", 0.0) + np.arange(c["n"]) * c["tr"]
        snap = Snapshot(ft=ft)
        try:
            pol = dm._poly_drift(c["order"], ft)
        except Exception as e:
            return {"lines": [], "impl": [], "nontrivial": True, "tags": ["polydrift", "raised"],
                    "oracle": f"_poly_drift(order={c['order']}) raised {type(e).__name__}: {e} for frame times "
                              f"{ft.tolist()}"}
        mut = snap.changed()
        line = f"polydrift2 {c['order']} {plist(ft)}"
        fail = None
        if not np.isfinite(pol).all():
            fail = f"_poly_drift(order={c['order']}) is not finite for frame times {ft.tolist()}"
        elif c["order"] >= 1:
            Gm = pol.T @ pol
            off = Gm - np.diag(np.diag(Gm))
            if np.abs(off).max() > 1e-8 * max(1.0, np.abs(Gm).max()):
                fail = f"polynomial drift columns not mutually orthogonal (max off-diag {np.abs(off).max()})"
        # pinv-based projection: compare with the exact model only where the monomials are well conditioned
        tm = np.abs(ft).max()
        well = fail is None and np.linalg.cond(np.vander(ft / tm, c["order"] + 1)) < 1e6
        return {"lines": [line] if well else [], "impl": [("cols", pol.T.tolist())] if well else [], "oracle": fail,
                "nontrivial": c["order"] >= 2, "tags": ["polydrift"] + ([] if well else ["polydrift-ill-conditioned"]),
                "mutated": mut}

    # ------------------------------------------------------------------ kernels from their pieces
    def _hrfk(self, c, hm):
        """`_gamma_difference_hrf` / derivative kernels: the gamma densities (scipy) are observed at the
        implementation's own calls and handed to the model, which forms the difference, normalises and takes
        the finite differences (Props/C07Mk: sum one / sum zero)"""
        tr, os_, tl, onset, which = c["tr"], c["os"], c["time_length"], c["onset"], c["which"]
        pdfs, kernels = [], []
        g_orig, spm_orig, glo_orig, gd_orig = hm.gamma, hm.spm_hrf, hm.glover_hrf, hm._gamma_difference_hrf

        class GammaSpy:
            @staticmethod
            def pdf(x, *a, **kw):
                v = g_orig.pdf(x, *a, **kw)
                pdfs.append(np.array(v, dtype=float))
                return v

        def wrap(f):
            def g(*a, **kw):
                h = f(*a, **kw)
                kernels.append(np.array(h, dtype=float))
                return h
            return g

        lines, impl, fail, tags = [], [], None, ["hrfk", "which=" + which]
        try:
            hm.gamma = GammaSpy
            if which == "gamma":
                h = hm._gamma_difference_hrf(tr, os_, tl, onset, c["delay"], c["undershoot"], c["dispersion"],
                                             c["u_dispersion"], c["ratio"])
                ratio = c["ratio"]
            elif which in ("spm", "glover"):
                h = (hm.spm_hrf if which == "spm" else hm.glover_hrf)(tr, os_, tl, onset)
                ratio = 0.167 if which == "spm" else 0.35
            else:
                hm.spm_hrf, hm.glover_hrf = wrap(spm_orig), wrap(glo_orig)
                hm._gamma_difference_hrf = wrap(gd_orig)
                f = {"spm_time": hm.spm_time_derivative, "glover_time": hm.glover_time_derivative,
                     "spm_disp": hm.spm_dispersion_derivative}[which]
                h = f(tr, os_, tl, onset)
        except Exception as e:
            return {"lines": [], "impl": [], "nontrivial": True, "tags": tags + ["raised"],
                    "oracle": f"{which} kernel raised {type(e).__name__}: {e} (tr={tr}, oversampling={os_}, "
                              f"time_length={tl}, onset={onset})"}
        finally:
            hm.gamma, hm.spm_hrf, hm.glover_hrf, hm._gamma_difference_hrf = g_orig, spm_orig, glo_orig, gd_orig
        h = np.asarray(h, dtype=float)
        # number of time stamps: int(float(time_length) / dt), dt = tr / oversampling (a float)
        dt = tr / os_
        q = Fraction(float(tl)) / Fraction(float(dt))
        if abs(q - round(q)) > Fraction(1, 10 ** 9) or float(tl) / dt == q:
            lines.append(f"hrflen {fr(Fraction(float(dt)) * os_)} {os_} {fr(tl)}")
            impl.append(("text", str(len(h))))
        else:
            tags.append("length-on-integer-boundary")
        if not np.isfinite(h).all():
            # an `onset` that moves the whole response out of the window (all densities zero) is outside
            # the property (the design-matrix code only uses onset = 0 and the derivative steps)
            outside = (onset + 0.1) / dt >= tl / 4
            return {"lines": lines, "impl": impl, "nontrivial": True, "tags": tags + ["non-finite"],
                    "oracle": None if outside else f"{which} kernel is not finite (tr={tr}, oversampling={os_}, "
                                                   f"time_length={tl}, onset={onset})"}
        if which in ("gamma", "spm", "glover"):
            if len(pdfs) == 2:
                lines.append(f"gammahrf {plist(pdfs[0])} {plist(pdfs[1])} {fr(ratio)}")
                impl.append(("rats", h.tolist(), 1e-11))
            if abs(h.sum() - 1) > 1e-9:
                fail = (f"{which} kernel (tr={tr}, oversampling={os_}, time_length={tl}, onset={onset}) sums to "
                        f"{h.sum()}, not 1")
        else:
            # the two kernels whose difference is taken, in the order of the source expression
            base = [k for k in kernels]
            if which == "spm_disp":
                # _gamma_difference_hrf is also what spm_hrf calls: keep the outermost results
                # (call order: _gamma_difference_hrf(dispersion) ; spm_hrf -> _gamma_difference_hrf)
                base = [kernels[0], kernels[-1]]
            if len(base) >= 2:
                h1, h0 = base[0], base[-1]
                step = 0.01 if which == "spm_disp" else 0.1
                lines.append(f"dkernel {fr(step)} {plist(h1)} {plist(h0)}")
                impl.append(("rats", h.tolist(), 1e-9 * max(1.0, float(np.abs(h).max()))))
                if abs(h1.sum() - 1) > 1e-9 or abs(h0.sum() - 1) > 1e-9:
                    fail = f"{which}: the kernels differenced sum to {h1.sum()} and {h0.sum()}, not 1"
            if fail is None and abs(h.sum()) > 1e-8 * max(1.0, float(np.abs(h).sum())):
                fail = (f"{which} (tr={tr}, oversampling={os_}, time_length={tl}, onset={onset}): the derivative "
                        f"kernel sums to {h.sum()}, not 0")
        return {"lines": lines, "impl": impl, "oracle": fail, "nontrivial": True, "tags": tags}

    # ------------------------------------------------------------------ _make_drift, every model
    def _mkdrift(self, c, hm):
        from nipy.modalities.fmri import design_matrix as dm
        n, model, order, hfcut = c["n"], c["model"], c["order"], c["hfcut"]
        ft = c["t0"] + np.arange(n) * c["tr"]
        snap = Snapshot(ft=ft)
        ml = model.lower()
        dt_ = ft[1] - ft[0]
        line = f"mkdrift {ustr(model)} {n} {fr(dt_)} {fr(hfcut)} {order}"
        tags = ["mkdrift", "model=" + (ml if ml in ("polynomial", "cosine", "blank") else "unknown")]
        qcos = Fraction(2 * n) * Fraction(float(dt_)) / Fraction(float(hfcut))
        hf = Fraction(float(hfcut))
        pow2 = (hf.numerator & (hf.numerator - 1)) == 0 and (hf.denominator & (hf.denominator - 1)) == 0
        fragile = ml == "cosine" and abs(qcos - round(qcos)) < Fraction(1, 10 ** 9) and not pow2
        try:
            drift, names = dm._make_drift(model, ft, order, hfcut)
        except Exception as e:
            known = ml in ("polynomial", "cosine", "blank")
            fail = (f"_make_drift({model!r}, order={order}, hfcut={hfcut}) raised {type(e).__name__}: {e} for "
                    f"{n} frames") if known else None
            return {"lines": [line], "impl": [("err", errname(e))], "oracle": fail, "nontrivial": True,
                    "tags": tags + ["refused"], "mutated": snap.changed()}
        mut = snap.changed()
        lines, impl = ([], []) if fragile else ([line], [("text", f"{drift.shape[1]} {pstrs(names)}")])
        fail = None
        if drift.shape != (n, len(names)):
            fail = f"_make_drift({model!r}): block of shape {drift.shape} for {len(names)} names"
        elif names.count("constant") != 1 or names[-1] != "constant":
            fail = f"_make_drift({model!r}): the constant is not named exactly once, last: {names}"
        elif not np.isfinite(drift).all():
            fail = f"_make_drift({model!r}, order={order}, hfcut={hfcut}): block is not finite (frame times {ft.tolist()})"
        elif not (np.all(drift[:, -1] == drift[0, -1]) and drift[0, -1] != 0):
            fail = f"_make_drift({model!r}): the last column is not a non-zero constant"
        elif ml == "polynomial" and drift.shape[1] != order + 1:
            fail = f"_make_drift(polynomial, order={order}): {drift.shape[1]} columns, documented {order + 1}"
        elif ml == "blank" and drift.shape[1] != 1:
            fail = f"_make_drift(blank): {drift.shape[1]} columns"
        elif ml == "cosine" and not (1 <= drift.shape[1] <= max(1, n)) and 2 * dt_ / hfcut <= 1:
            fail = f"_make_drift(cosine, hfcut={hfcut}): {drift.shape[1]} columns for {n} frames"
        elif sum(1 for j in range(drift.shape[1]) if np.ptp(drift[:, j]) <= 1e-12 * max(1.0, abs(drift[0, j]))) != 1 \
                and n > 1 and drift.shape[1] <= n:
            fail = f"_make_drift({model!r}, order={order}, hfcut={hfcut}): the block contains a second constant column"
        return {"lines": lines, "impl": impl, "oracle": fail, "nontrivial": ml != "blank", "tags": tags, "mutated": mut}

    # ------------------------------------------------------------------ _full_rank
    def _fullrank(self, c, hm):
        from nipy.modalities.fmri import design_matrix as dm
        X = np.array(c["rows"], dtype=float)
        if c["layout"] == "F":
            X = np.asfortranarray(X)
        elif c["layout"] == "strided":
            buf = np.zeros((X.shape[0], 2 * X.shape[1])); buf[:, ::2] = X; X = buf[:, ::2]
        cmax = 1e15 if c["default_cmax"] else c["cmax"]
        snap = Snapshot(X=X)
        s = np.linalg.svd(X, 0)[1]
        tags = ["fullrank", "layout=" + c["layout"]]
        try:
            X2, c2 = dm._full_rank(X) if c["default_cmax"] else dm._full_rank(X, cmax)
        except Exception as e:
            return {"lines": [], "impl": [], "nontrivial": True, "tags": tags + ["raised"],
                    "oracle": f"_full_rank raised {type(e).__name__}: {e} on {X.tolist()} (cmax={cmax})"}
        mut = snap.changed()
        X2 = np.asarray(X2, dtype=float)
        kept = X2 is X or (X2.shape == X.shape and np.array_equal(X2, X) and float(c2) != float(cmax))
        lines, impl = [], []
        smax, smin = float(s.max()), float(s.min())
        knife = smin != 0 and abs(smax / smin / cmax - 1) < 1e-9
        if np.isfinite(X2).all() and not knife:
            s2 = np.sort(np.linalg.svd(X2, 0)[1])[::-1]
            lines.append(f"fullrank {plist(s)} {fr(cmax)}")
            impl.append(("fullrank", "keep" if kept else "shift", float(c2), s2.tolist(), smax))
        tags.append("kept" if kept else "regularised")
        fail = None
        if X2.shape != X.shape:
            fail = f"_full_rank changed the shape {X.shape} -> {X2.shape}"
        elif not np.isfinite(X2).all():
            fail = f"_full_rank returned non-finite values for {X.tolist()} (cmax={cmax})"
        elif not kept and cmax <= 1e6:
            # Props/C07Mk.full_rank_condition: afterwards the condition number is cmax (when the extreme
            # singular values differ)
            cn = np.linalg.cond(X2)
            if smax != smin and abs(cn / cmax - 1) > 1e-6:
                fail = (f"_full_rank(cmax={cmax}) returned a matrix of condition number {cn} for singular values "
                        f"{s.tolist()}")
        elif kept and smin > 0 and smax / smin >= cmax * (1 + 1e-9):
            fail = f"_full_rank(cmax={cmax}) left a matrix of condition number {smax / smin} unchanged"
        return {"lines": lines, "impl": impl, "oracle": fail, "nontrivial": True, "tags": tags, "mutated": mut}

    def _kernel(self, c, hm):
        fail = None
        for f in (hm.spm_hrf, hm.glover_hrf):
            h = f(c["tr"], c["os"])
            if abs(h.sum() - 1) > 1e-9:
                fail = f"{f.__name__}(tr={c['tr']}, oversampling={c['os']}) sums to {h.sum()}"
        return {"lines": [], "impl": [], "oracle": fail, "nontrivial": True, "tags": ["kernel"]}

    def _show(self, c, hm):
        """DesignMatrix.show / show_contrast draw one tick label per column and leave the matrix alone"""
        import matplotlib
        matplotlib.use("Agg")
        import matplotlib.pyplot as plt
        from nipy.modalities.fmri import design_matrix as dm
        rs = np.random.RandomState(c["n"])
        X = rs.randint(1, 5, size=(c["n"], c["ncols"])).astype(float)
        names = ["c%d" % k for k in range(c["ncols"])]
        d = dm.DesignMatrix(X, names)
        snap = Snapshot(X=X)
        fail = None
        try:
            ax = d.show(rescale=c["rescale"])
            if [t.get_text() for t in ax.get_xticklabels()] != names:
                fail = "DesignMatrix.show: tick labels are not the column names"
            ax2 = d.show_contrast(np.ones(c["ncols"]))
            if [t.get_text() for t in ax2.get_xticklabels()] != names:
                fail = "DesignMatrix.show_contrast: tick labels are not the column names"
        except Exception as e:
            fail = f"DesignMatrix.show raised {type(e).__name__}: {e}"
        finally:
            plt.close("all")
        return {"lines": [], "impl": [], "oracle": fail, "nontrivial": False, "tags": ["show"],
                "mutated": snap.changed()}

    # ------------------------------------------------------------------ compare
    def compare(self, case, impl_obs, model_out):
        kind, val = impl_obs[0], impl_obs[1]
        if kind == "exact":
            want = frs(val)
            return None if want == model_out else cmp_rats(val, model_out, 0, 0) or "exact text differs"
        if kind == "exact2":
            reg, grid = val
            if " | " not in model_out and model_out.strip() != "|":
                return f"impl returned a regressor and a grid, model says {model_out[:80]}"
            mr, _, mg = model_out.partition(" | ")
            if mr.strip() == "|":
                mr, mg = "", ""
            d = None if frs(grid) == mg.strip() else (cmp_rats(grid, mg, 0, 0) or "grid text differs")
            if d:
                return "high-resolution grid: " + d
            d = None if frs(reg) == mr.strip() else (cmp_rats(reg, mr, 0, 0) or "regressor text differs")
            return ("regressor: " + d) if d else None
        if kind == "rat":
            tol = impl_obs[2]
            return cmp_rats([val], model_out, tol, 0)
        if kind == "err":
            return None if model_out == val else f"impl raised {val}, model says {model_out[:120]}"
        if kind == "text":
            return None if model_out == val else f"impl={val[:300]} model={model_out[:300]}"
        if kind == "rats":
            if model_out.startswith(("error", "bad-op")):
                return f"model says {model_out}"
            return cmp_rats(val, model_out, 1e-9, impl_obs[2])
        if kind == "fullrank":
            _, flag, c2, s2, smax = impl_obs
            if " | " not in model_out:
                return f"model says {model_out[:120]}"
            head, _, vals = model_out.partition(" | ")
            mflag, mc = head.split()
            if mflag != flag:
                return f"impl branch {flag}, model branch {mflag}"
            d = cmp_rats([c2], mc, 1e-9, 0)
            if d:
                return "condition number: " + d
            ms = sorted(parse_rats(vals), reverse=True)
            if len(ms) != len(s2):
                return f"{len(s2)} singular values, model has {len(ms)}"
            if not all_close(s2, ms, 1e-7, 1e-9 * max(1.0, smax)):
                return f"singular values impl={s2} model={[float(x) for x in ms]}"
            return None
        if kind == "cols":
            if model_out.startswith(("error", "bad-op")):
                return f"model says {model_out}"
            mcols = [parse_rats(s) for s in model_out.split(" | ")] if model_out.strip() else []
            if len(mcols) != len(val):
                return f"column count impl={len(val)} model={len(mcols)}"
            # orthogonalised columns: the implementation projects with pinv, so the error is relative
            # to the size of the un-orthogonalised data, i.e. of the largest column
            big = max((abs(float(x)) for col in mcols for x in col), default=1.0)
            for j, (a, b) in enumerate(zip(val, mcols)):
                scale = max(1.0, max((abs(float(x)) for x in b), default=1.0))
                tol = 1e-8 * scale if len(mcols) == 1 else 1e-6 * max(big, 1e-3)
                if not all_close(a, b, 1e-8, tol):
                    return f"column {j}: impl={a[:6]} model={[float(x) for x in b[:6]]}"
            return None
        return "unknown observation kind"

    # ------------------------------------------------------------------ shrink / classify
    def shrink(self, case):
        k = case["kind"]
        if "onsets" in case and len(case["onsets"]) > 1:
            n = len(case["onsets"])
            for i in range(n):
                c = dict(case)
                for key in ("onsets", "durs", "amps"):
                    c[key] = case[key][:i] + case[key][i + 1:]
                yield c
        if case.get("n", 0) > 3 and k in ("sample", "regressor"):
            c = dict(case); c["n"] = case["n"] - 1
            yield c
        if k in ("sample", "regressor") and case.get("ftdtype", "float64") != "float64":
            c = dict(case); c["ftdtype"] = "float64"
            yield c
        if k == "regressor" and case.get("shift", 1) > 1:
            c = dict(case); c["shift"] = 1
            yield c
        if k == "dmtx":
            if len(case["conds"]) > 1:
                for i in range(len(case["conds"])):
                    c = dict(case); c["conds"] = case["conds"][:i] + case["conds"][i + 1:]
                    yield c
            for i, cd in enumerate(case["conds"]):
                if len(cd["onsets"]) > 1:
                    c = dict(case); cd2 = dict(cd)
                    for key in ("onsets", "durs", "amps"):
                        cd2[key] = cd[key][:1]
                    c["conds"] = case["conds"][:i] + [cd2] + case["conds"][i + 1:]
                    yield c
            if case["add"]["mode"] != "none":
                c = dict(case); c["add"] = {"mode": "none"}; c["add_names"] = None
                yield c
            if case["n"] > 4:
                c = dict(case); c["n"] = max(4, case["n"] // 2)
                yield c
        if k == "csv":
            if len(case["names"]) > 1:
                for i in range(len(case["names"])):
                    c = dict(case)
                    c["names"] = case["names"][:i] + case["names"][i + 1:]
                    c["values"] = [r[:i] + r[i + 1:] for r in case["values"]]
                    yield c
            if len(case["values"]) > 1:
                c = dict(case); c["values"] = case["values"][:1]
                yield c
            for i, nm in enumerate(case["names"]):
                if len(nm) > 1:
                    for j in range(len(nm)):
                        c = dict(case); c["names"] = list(case["names"]); c["names"][i] = nm[:j] + nm[j + 1:]
                        yield c
        if k == "paradigm":
            if len(case["sessions"]) > 1:
                for i in range(len(case["sessions"])):
                    c = dict(case); c["sessions"] = case["sessions"][:i] + case["sessions"][i + 1:]
                    yield c
            for i, s in enumerate(case["sessions"]):
                if len(s["ids"]) > 1:
                    c = dict(case); s2 = dict(s)
                    for key in ("ids", "onsets", "durs"):
                        s2[key] = s[key][:-1]
                    s2["amps"] = None if s["amps"] is None else s["amps"][:-1]
                    c["sessions"] = case["sessions"][:i] + [s2] + case["sessions"][i + 1:]
                    yield c

    def classify(self, case, failure):
        return None


CHECK = C07()
