"""C07 — design-matrix regressors are linear, causal and shift-consistent.

Correspondence: `_sample_condition`, `compute_regressor`, `_poly_drift`,
`make_dmtx` names vs the Lean model (exact / 1e-9).  Oracle: the property
clauses evaluated directly on the real code.
"""
from __future__ import annotations

import os
import tempfile
import warnings

import numpy as np

from harness.core import PropertyCheck
from harness.util import Snapshot, all_close, cmp_rats, fr, frs, plist, parse_rats

def enc(name):
    """protocol-safe spelling of a column name (the model only appends [a-z0-9_] suffixes)"""
    return "".join(ch if (ch.isalnum() or ch == "_") else "%%%02X" % ord(ch) for ch in name)


HRFS = ["canonical", "canonical with derivative", "spm", "spm_time", "spm_time_dispersion", "fir"]
NK = {"canonical": 1, "canonical with derivative": 2, "spm": 1, "spm_time": 2,
      "spm_time_dispersion": 3}
# TRs for which the oversampled grid of _sample_condition is exactly uniform in binary64
EXACT_TRS = [0.5, 1.0, 2.0, 4.0, 1.5, 3.0]


def _events(rng, n, tr, kind):
    """dyadic onsets/durations/amplitudes; coincident and pre-scan events on purpose"""
    total = n * tr
    k = rng.choice([1, 1, 2, 3, 4, 6])
    dt = tr / 16
    onsets, durs, amps = [], [], []
    for _ in range(k):
        r = rng.random()
        if r < 0.15 and onsets:
            o = rng.choice(onsets)                      # coincident
        elif r < 0.25:
            o = -rng.choice([0.5, 1.0, 3.0, 30.0])      # pre-scan
        elif r < 0.6:
            o = rng.randrange(0, max(1, int(total / dt))) * dt   # on the hr grid
        else:
            o = rng.randrange(0, max(1, int(total / dt))) * dt + dt / 2   # strictly inside a cell
        onsets.append(o)
        durs.append(0.0 if kind == "event" else rng.choice([0.0, dt, tr / 2, tr, 2.5 * tr, 40 * tr]))
        amps.append(rng.choice([1.0, 1.0, 2.0, 0.5, -1.0, 0.25, 3.0]))
    return onsets, durs, amps


class C07(PropertyCheck):
    id = "C07"
    title = "Design-matrix regressors are linear, causal and shift-consistent"
    lean_modules = ["NipyVerif.Props.C07"]
    driver = "Drivers/C07.lean"
    rule = ("cases are (frame grid, paradigm, hrf model, drift) tuples from a seeded PRNG; "
            "non-trivial = at least two events or a multi-kernel/fir model or a drift of order >= 2; "
            "distinct by full JSON of the case")
    assumptions = [
        "gamma densities (scipy.stats.gamma.pdf) are a parameter: the kernels the implementation "
        "computed are passed to the model as exact dyadic rationals",
        "scipy.interpolate.interp1d(kind=linear) is piecewise-linear interpolation (checked to 1e-9 per case)",
        "np.convolve / np.cumsum are exact on the dyadic inputs generated (model is exact)",
        "cosine-drift orthonormality (DCT-II identity) and CSV float repr round trip are checked numerically by the oracle, not proved",
    ]
    finding_keys = {}

    def generate(self, rng, tier):
        n_s, n_r, n_d, n_p = (300, 160, 120, 30) if tier == "quick" else (4000, 1500, 1200, 300)
        cases = []
        for _ in range(n_s):
            n = rng.choice([2, 3, 4, 5, 8, 12])
            tr = rng.choice(EXACT_TRS + [2.5, 0.75])
            kind = rng.choice(["event", "block"])
            on, du, am = _events(rng, n, tr, kind)
            cases.append({"kind": "sample", "n": n, "tr": tr, "t0": rng.choice([0.0, 0.0, tr, 2 * tr]),
                          "os": rng.choice([1, 2, 16]), "min_onset": rng.choice([-24.0, -24.0, 0.0, -2 * tr]),
                          "onsets": on, "durs": du, "amps": am})
        for _ in range(n_r):
            n = rng.choice([3, 4, 6, 9])
            tr = rng.choice(EXACT_TRS)
            kind = rng.choice(["event", "block"])
            on, du, am = _events(rng, n, tr, kind)
            hrf = rng.choice(HRFS + ["fir", "fir"])
            if hrf != "fir" and NK[hrf] > 1:
                n = rng.choice([6, 9, 12])   # orthogonalisation by pinv is ill-conditioned on 3-4 rows
            os_ = rng.choice([1, 2, 4]) if hrf == "fir" else rng.choice([2, 4, 16])
            if rng.random() < 0.5:   # shift-testable: every onset strictly inside an hr cell, early in the run
                dt = tr / os_
                on = [(rng.randrange(0, max(1, (n // 2) * os_)) + 0.5) * dt for _ in on]
            cases.append({"kind": "regressor", "n": n, "tr": tr, "hrf": hrf,
                          "os": os_,
                          "fir_delays": sorted(rng.sample(range(0, 5), rng.choice([1, 2, 3]))),
                          "onsets": on, "durs": du, "amps": am, "shift": rng.choice([1, 2, 3])})
        for _ in range(n_d):
            n = rng.choice([4, 6, 10, 17, 32])
            tr = rng.choice(EXACT_TRS)
            ncond = rng.choice([1, 2, 3, 5])
            kind = rng.choice(["event", "block"])
            evs = []
            for c in range(ncond):
                on, du, am = _events(rng, n, tr, kind)
                evs.append({"name": rng.choice(["a", "b", "c1", "cond_x", "face", "house", "face,upright", "a b",
                                                    'say "x"', "semi;colon", "tab\there", "x'y", "1.5", "é"]) + str(c),
                            "onsets": on, "durs": du, "amps": am})
            cases.append({"kind": "dmtx", "n": n, "tr": tr, "hrf": rng.choice(HRFS), "ptype": kind,
                          "conds": evs, "fir_delays": sorted(rng.sample(range(0, 6), rng.choice([1, 2, 4]))),
                          "drift": rng.choice(["polynomial", "cosine", "blank"]),
                          "order": rng.choice([0, 1, 2, 3, 5]),
                          # cut-off periods below the Nyquist period 2*TR are excluded: they ask for more
                          # cosine columns than scans, for which no orthonormal family exists
                          "hfcut": rng.choice([h for h in [128, 32, 16, 8, 5, 2 * tr, 3 * tr] if h >= 2 * tr]),
                          "nadd": rng.choice([0, 0, 1, 3]), "named_add": rng.random() < 0.5,
                          "amp_none": rng.random() < 0.2})
        for _ in range(n_p):
            cases.append({"kind": "polydrift", "n": rng.choice([3, 5, 8, 13]),
                          "tr": rng.choice(EXACT_TRS), "order": rng.choice([0, 1, 2, 3, 4])})
        for tr in EXACT_TRS + [2.5, 0.8, 1.1]:
            for os_ in ([16] if tier == "quick" else [1, 4, 16, 32]):
                cases.append({"kind": "kernel", "tr": tr, "os": os_})
        return cases

    # ------------------------------------------------------------------
    def run_case(self, case):
        warnings.filterwarnings("ignore")
        from nipy.modalities.fmri import hemodynamic_models as hm
        k = case["kind"]
        return getattr(self, "_" + k)(case, hm)

    def _sample(self, c, hm):
        ft = c["t0"] + np.arange(c["n"]) * c["tr"]
        cond = (np.array(c["onsets"]), np.array(c["durs"]), np.array(c["amps"]))
        snap = Snapshot(ft=ft, on=cond[0], du=cond[1], am=cond[2])
        reg, hr = hm._sample_condition(cond, ft, c["os"], c["min_onset"])
        mut = snap.changed()
        ev = " ".join(f"{fr(o)} {fr(d)} {fr(a)}" for o, d, a in zip(*cond))
        line = f"sample {plist(hr)} {len(cond[0])} {ev}"
        # oracle: superposition (amplitude-weighted sum of single-event regressors) and causality
        tot = np.zeros_like(reg)
        first = len(reg)
        for o, d, a in zip(*cond):
            single, _ = hm._sample_condition((np.array([o]), np.array([d]), np.array([1.0])),
                                             ft, c["os"], c["min_onset"])
            tot += a * single
            first = min(first, int(min(np.searchsorted(hr, o), len(hr) - 1)))
        fail = None
        if not np.array_equal(tot, reg):
            j = int(np.nonzero(tot != reg)[0][0])
            fail = (f"_sample_condition not additive: regressor[{j}]={reg[j]} but the amplitude-weighted "
                    f"sum of single-event regressors is {tot[j]}")
        elif np.any(reg[:first] != 0):
            fail = f"_sample_condition non-zero before first onset index {first}"
        tags = ["sample", "coincident" if len(set(c["onsets"])) < len(c["onsets"]) else "distinct-onsets"]
        if min(c["onsets"]) < c["t0"] + c["min_onset"]:
            tags.append("pre-scan")
        return {"lines": [line], "impl": [("exact", reg.tolist())], "oracle": fail,
                "nontrivial": len(c["onsets"]) >= 2, "tags": tags, "mutated": mut}

    def _regressor(self, c, hm):
        ft = np.arange(c["n"]) * c["tr"]
        cond = (np.array(c["onsets"]), np.array(c["durs"]), np.array(c["amps"]))
        hrf, os_ = c["hrf"], c["os"]
        snap = Snapshot(ft=ft, on=cond[0], du=cond[1], am=cond[2])
        creg, names = hm.compute_regressor(cond, hrf, ft, con_id="c", oversampling=os_,
                                           fir_delays=c["fir_delays"])
        mut = snap.changed()
        creg = np.atleast_2d(creg)
        if creg.shape[0] != c["n"]:
            creg = creg.T
        tr = float(ft.max()) / (ft.size - 1)
        kernels = hm._hrf_kernel(hrf, tr, os_, c["fir_delays"])
        _, hr = hm._sample_condition(cond, ft, os_, -24)
        ev = " ".join(f"{fr(o)} {fr(d)} {fr(a)}" for o, d, a in zip(*cond))
        ks = " ".join(plist(h) for h in kernels)
        # conditioning of the un-orthogonalised columns (built from the implementation's own pieces):
        # _orthogonalize projects with pinv, whose rcond cut-off an exact model cannot mimic on
        # (nearly) rank-deficient columns; there the model is compared before orthogonalisation.
        hr_reg, _ = hm._sample_condition(cond, ft, os_, -24)
        conv = np.array([np.convolve(hr_reg, h)[:hr_reg.size] for h in kernels])
        pre = np.atleast_2d(hm._resample_regressor(conv, hr, ft))
        pre = pre if pre.shape[0] == c["n"] else pre.T
        sv = np.linalg.svd(pre, compute_uv=False)
        well = hrf == "fir" or len(kernels) == 1 or (sv.max() > 0 and sv.min() / sv.max() > 1e-3)
        orth_flag = 1 if (hrf != "fir" and well) else 0
        target = creg if (well or hrf == "fir") else pre
        line = (f"compute {plist(hr)} {len(cond[0])} {ev} {len(kernels)} {ks} {plist(ft)} {orth_flag}")
        fail = None
        if len(names) != creg.shape[1] or len(set(names)) != len(names):
            fail = f"compute_regressor: {creg.shape[1]} columns but names {names}"
        # linearity for single-basis models (orthogonalisation is a no-op there) and fir
        if fail is None and (hrf == "fir" or NK[hrf] == 1):
            tot = np.zeros_like(creg)
            for o, d, a in zip(*cond):
                s, _ = hm.compute_regressor((np.array([o]), np.array([d]), np.array([1.0])), hrf, ft,
                                            con_id="c", oversampling=os_, fir_delays=c["fir_delays"])
                s = np.atleast_2d(s)
                s = s if s.shape[0] == c["n"] else s.T
                tot += a * s
            if not np.allclose(tot, creg, rtol=1e-9, atol=1e-9):
                j = np.unravel_index(np.argmax(np.abs(tot - creg)), creg.shape)
                fail = (f"compute_regressor({hrf}) not the amplitude-weighted sum of single-event "
                        f"regressors at row {j[0]} col {j[1]}: {creg[j]} vs {tot[j]}")
        # shift consistency: onsets strictly inside hr cells, non-negative, whole-scan delay
        dt = c["tr"] / os_
        inside = all(o >= 0 and abs((o / dt) % 1 - 0.5) < 1e-12 for o in c["onsets"])
        m = c["shift"]
        if fail is None and inside and (hrf == "fir" or NK[hrf] == 1) and m < c["n"]:
            cond2 = (cond[0] + m * c["tr"], cond[1], cond[2])
            s, _ = hm.compute_regressor(cond2, hrf, ft, con_id="c", oversampling=os_,
                                        fir_delays=c["fir_delays"])
            s = np.atleast_2d(s)
            s = s if s.shape[0] == c["n"] else s.T
            if not np.allclose(s[m:], creg[: c["n"] - m], rtol=1e-9, atol=1e-9) or \
               not np.allclose(s[:m], 0, atol=1e-12):
                fail = (f"delaying onsets by {m} scans does not delay the {hrf} regressor by {m} rows")
        tags = ["regressor", "hrf=" + hrf.replace(" ", "_")] + (["shift-tested"] if inside else [])
        tags.append("orth-compared" if orth_flag else "pre-orth-compared")
        return {"lines": [line], "impl": [("cols", target.T.tolist())], "oracle": fail,
                "nontrivial": len(c["onsets"]) >= 2 or hrf == "fir" or NK[hrf] > 1,
                "tags": tags, "mutated": mut}

    def _dmtx(self, c, hm):
        from nipy.modalities.fmri import design_matrix as dm
        from nipy.modalities.fmri.experimental_paradigm import BlockParadigm, EventRelatedParadigm
        ft = np.arange(c["n"]) * c["tr"]
        ids, on, du, am = [], [], [], []
        for cd in c["conds"]:
            for o, d, a in zip(cd["onsets"], cd["durs"], cd["amps"]):
                ids.append(cd["name"]); on.append(o); du.append(d); am.append(a)
        amp = None if c["amp_none"] else am
        if c["ptype"] == "event":
            par = EventRelatedParadigm(ids, on, amp)
        else:
            par = BlockParadigm(ids, on, du, amp)
        rs = np.random.RandomState(c["n"] * 7 + c["nadd"])
        add = rs.randint(-4, 5, size=(c["n"], c["nadd"])).astype(float) if c["nadd"] else None
        addn = [["mot", "trans,x", "rot y", "reg;z"][k % 4] + str(k) for k in range(c["nadd"])] \
            if (c["named_add"] and c["nadd"]) else None
        snap = Snapshot(ft=ft, add=add if add is not None else 0)
        try:
            d = dm.make_dmtx(ft, par, c["hrf"], c["drift"], c["hfcut"], c["order"], c["fir_delays"],
                             add, addn)
        except Exception as e:
            return {"lines": [], "impl": [], "nontrivial": True, "tags": ["dmtx", "raised"],
                    "oracle": f"make_dmtx raised {type(e).__name__}: {e} on a valid specification "
                              f"(drift={c['drift']}, hfcut={c['hfcut']}, n={c['n']}, tr={c['tr']})"}
        mut = snap.changed()
        X, names = d.matrix, d.names
        drift, dn = dm._make_drift(c["drift"], ft, c["order"], c["hfcut"])
        nd = drift.shape[1]
        conds = sorted({cd["name"] for cd in c["conds"]})
        hrf_tok = c["hrf"].replace(" ", "_")
        addnames = addn if addn is not None else [f"reg{k}" for k in range(c["nadd"])]
        line = (f"names {hrf_tok} {len(conds)} {' '.join(map(enc, conds))} {plist(c['fir_delays'])} "
                f"{len(addnames)} {' '.join(map(enc, addnames))} {nd}").replace("  ", " ")
        fail = None
        if X.shape != (c["n"], len(names)):
            fail = f"make_dmtx: matrix shape {X.shape} vs {len(names)} names"
        elif len(set(names)) != len(names):
            fail = f"make_dmtx: duplicate column names {names}"
        elif names[-1] != "constant" or not np.allclose(X[:, -1], X[0, -1]) or X[0, -1] == 0:
            fail = "make_dmtx: last column is not a non-zero constant named 'constant'"
        else:
            D = drift[:, :-1]
            if c["drift"] == "cosine" and D.shape[1]:
                G = D.T @ D
                if not np.allclose(G, np.eye(G.shape[0]), atol=1e-9):
                    fail = "cosine drift columns are not orthonormal"
                elif not np.allclose(D.T @ np.ones(c["n"]), 0, atol=1e-9):
                    fail = "cosine drift columns are not orthogonal to the constant"
            if c["drift"] == "polynomial" and nd >= 2:
                G = drift.T @ drift
                off = G - np.diag(np.diag(G))
                if np.abs(off).max() > 1e-8 * max(1.0, np.abs(G).max()):
                    fail = f"polynomial drift columns not mutually orthogonal (max off-diag {np.abs(off).max()})"
        if fail is None:
            tmp = tempfile.mkdtemp(prefix="c07-")
            try:
                p = os.path.join(tmp, "d.csv")
                try:
                    d.write_csv(p)
                    d2 = dm.dmtx_from_csv(p)
                    if list(d2.names) != list(names) or not np.array_equal(d2.matrix, X):
                        fail = f"CSV round trip does not reproduce names and values (names {list(names)} -> {list(d2.names)})"
                except Exception as e:
                    fail = f"CSV round trip of names {list(names)} raised {type(e).__name__}: {e}"
            finally:
                for f in os.listdir(tmp):
                    os.unlink(os.path.join(tmp, f))
                os.rmdir(tmp)
        tags = ["dmtx", "drift=" + c["drift"], "hrf=" + hrf_tok, "ptype=" + c["ptype"]]
        return {"lines": [line], "impl": [("names", [enc(x) for x in names])], "oracle": fail,
                "nontrivial": True, "tags": tags, "mutated": mut}

    def _polydrift(self, c, hm):
        from nipy.modalities.fmri import design_matrix as dm
        ft = np.arange(c["n"]) * c["tr"]
        snap = Snapshot(ft=ft)
        pol = dm._poly_drift(c["order"], ft)
        mut = snap.changed()
        line = f"polydrift {c['order']} {plist(ft)} {fr(float(ft.max()))}"
        return {"lines": [line], "impl": [("cols", pol.T.tolist())], "oracle": None,
                "nontrivial": c["order"] >= 2, "tags": ["polydrift"], "mutated": mut}

    def _kernel(self, c, hm):
        fail = None
        for f in (hm.spm_hrf, hm.glover_hrf):
            h = f(c["tr"], c["os"])
            if abs(h.sum() - 1) > 1e-9:
                fail = f"{f.__name__}(tr={c['tr']}, oversampling={c['os']}) sums to {h.sum()}"
        return {"lines": [], "impl": [], "oracle": fail, "nontrivial": True, "tags": ["kernel"],
                "mutated": None}

    # ------------------------------------------------------------------
    def compare(self, case, impl_obs, model_out):
        kind, val = impl_obs
        if kind == "exact":
            want = frs(val)
            return None if want == model_out else cmp_rats(val, model_out, 0, 0) or "exact text differs"
        if kind == "cols":
            if model_out.startswith(("error", "bad-op")):
                return f"model says {model_out}"
            mcols = [parse_rats(s) for s in model_out.split(" | ")] if model_out.strip() else []
            if len(mcols) != len(val):
                return f"column count impl={len(val)} model={len(mcols)}"
            # orthogonalised columns: the implementation projects with pinv, so the error is relative
            # to the size of the un-orthogonalised data, i.e. of the largest column
            big = max((abs(float(x)) for col in mcols for x in col), default=1.0)
            for j, (a, b) in enumerate(zip(val, mcols)):
                scale = max(1.0, max((abs(float(x)) for x in b), default=1.0))
                tol = 1e-8 * scale if len(mcols) == 1 else 1e-6 * max(big, 1e-3)
                if not all_close(a, b, 1e-8, tol):
                    return f"column {j}: impl={a[:6]} model={[float(x) for x in b[:6]]}"
            return None
        if kind == "names":
            return None if " ".join(val) == model_out else f"impl={val} model={model_out}"
        return "unknown observation kind"

    def shrink(self, case):
        if "onsets" in case and len(case["onsets"]) > 1:
            n = len(case["onsets"])
            for i in range(n):
                c = dict(case)
                for k in ("onsets", "durs", "amps"):
                    c[k] = case[k][:i] + case[k][i + 1:]
                yield c
        if case.get("n", 0) > 3 and case["kind"] in ("sample", "regressor"):
            c = dict(case); c["n"] = case["n"] - 1
            yield c

    def classify(self, case, failure):
        return None


CHECK = C07()
