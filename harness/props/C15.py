"""C15 — intrinsic volumes, Euler characteristic and EC densities are exact.

Implementation under test: the *current text* of /repo's intvol.pyx run through
harness.decython (the installed .so is a second witness, reported separately:
it is stale when the .pyx was edited), utils.py triangulation helpers, rft.py.

Correspondence (Lean model NipyVerif.Model.C15): per-voxel simplex tables for
the strides actually used (tie T2), EC1d/2d/3d, the rational part of every
simplex visited by Lips1d/2d/3d (finished here with sqrt/acos), Hermite
coefficients of rft.Q, ECquasi add/mul/deriv.
Oracle: the property's clauses on the real code (independent brute-force
complex, box formula, invariances, published EC densities).
"""
from __future__ import annotations

import ast
import itertools
import math
import os
import warnings
from fractions import Fraction

import numpy as np

from harness.core import REPO, PropertyCheck, TieBroken
from harness.util import close, cmp_rats, fr, frs, parse_rats

PYX = "nipy/algorithms/statistics/intvol.pyx"
PI = math.pi

# ---------------------------------------------------------------------------
# independent reference: the Kuhn complex of a mask and its intrinsic volumes
# ---------------------------------------------------------------------------


def _chains(d):
    """all chains 0 = a0 < a1 < ... < ak in {0,1}^d (componentwise order), k >= 0"""
    pts = [p for p in itertools.product((0, 1), repeat=d)]
    le = lambda a, b: all(x <= y for x, y in zip(a, b)) and a != b
    out = [[pts[0]]]
    frontier = [[pts[0]]]
    while frontier:
        nxt = []
        for c in frontier:
            for p in pts:
                if le(c[-1], p):
                    nxt.append(c + [p])
        out += nxt
        frontier = nxt
    return out


_CH = {d: _chains(d) for d in (1, 2, 3)}


def complex_of(mask):
    """simplices (tuples of grid points) of the lattice triangulation with all vertices in the mask"""
    d = mask.ndim
    sh = mask.shape
    res = []
    for x in zip(*np.nonzero(mask)):
        for c in _CH[d]:
            vs = [tuple(int(a + b) for a, b in zip(x, v)) for v in c]
            if all(all(q < s for q, s in zip(v, sh)) and mask[v] for v in vs):
                res.append(vs)
    return res


def _vol(vs):
    """(dim)-volume of a simplex with vertex coordinate vectors vs (Gram determinant)"""
    k = len(vs) - 1
    if k == 0:
        return 1.0
    E = np.array([v - vs[0] for v in vs[1:]])
    g = np.linalg.det(E @ E.T)
    return math.sqrt(max(g, 0.0)) / math.factorial(k)


def _ext_angle_sum(vs):
    """mu1 of a tetrahedron: sum over edges of length * (pi - dihedral) / (2 pi), via face normals"""
    tot = 0.0
    for a, b in itertools.combinations(range(4), 2):
        c, d = [i for i in range(4) if i not in (a, b)]
        e = vs[b] - vs[a]
        ln = np.linalg.norm(e)
        if ln == 0:
            continue
        u = e / ln
        p = (vs[c] - vs[a]) - np.dot(vs[c] - vs[a], u) * u
        q = (vs[d] - vs[a]) - np.dot(vs[d] - vs[a], u) * u
        npq = np.linalg.norm(p) * np.linalg.norm(q)
        if npq == 0:
            continue
        dih = math.acos(max(-1.0, min(1.0, float(np.dot(p, q) / npq))))
        tot += ln * (PI - dih) / (2 * PI)
    return tot


def simplex_mu(vs, j):
    """j-th intrinsic volume of a closed simplex (vertex coordinate vectors)"""
    k = len(vs) - 1
    if j > k:
        return 0.0
    if j == 0:
        return 1.0
    if j == k:
        return _vol(vs)
    if j == k - 1:     # half the (k-1)-dimensional boundary measure
        return 0.5 * sum(_vol([v for i, v in enumerate(vs) if i != o]) for o in range(k + 1))
    if k == 3 and j == 1:
        return _ext_angle_sum(vs)
    raise AssertionError


def reference_mu(mask, coords):
    """mu_j(|K|) = sum over simplices (-1)^(dim - j) mu_j(simplex)   (additivity / Euler relation)"""
    d = mask.ndim
    mu = [0.0] * (d + 1)
    for s in complex_of(mask):
        vs = [np.array(coords[(slice(None),) + v], dtype=float) for v in s]
        for j in range(len(s)):
            mu[j] += (-1) ** (len(s) - 1 - j) * simplex_mu(vs, j)
    return mu


def reference_ec(mask):
    return sum((-1) ** (len(s) - 1) for s in complex_of(mask))


# ---------------------------------------------------------------------------
# published EC densities (Worsley 1994; Worsley et al. 1996, Table II, unit lambda)
# ---------------------------------------------------------------------------
def published_density(kind, x, dim, dfn=None, dfd=None):
    """returns (value, scale): scale is the size of the largest term, for the tolerance"""
    from scipy import stats
    from scipy.special import gammaln
    tp = 2 * PI
    if kind == "gauss":
        e = math.exp(-x * x / 2)
        return [(stats.norm.sf(x), 1), (e / tp, e / tp), (tp ** -1.5 * x * e, tp ** -1.5 * x * e),
                (tp ** -2 * (x * x - 1) * e, tp ** -2 * (x * x + 1) * e)][dim]
    if kind == "t":
        v = dfd
        b = (1 + x * x / v) ** (-(v - 1) / 2)
        g = math.exp(gammaln((v + 1) / 2) - gammaln(v / 2)) / math.sqrt(v / 2)
        return [(stats.t.sf(x, v), 1), (b / tp, b / tp), (tp ** -1.5 * g * x * b,) * 2,
                (tp ** -2 * ((v - 1) / v * x * x - 1) * b, tp ** -2 * ((v - 1) / v * x * x + 1) * b)][dim]
    if kind == "chi2":
        k = dfn
        e = math.exp(-x / 2)
        c = 2 ** ((k - 2) / 2) * math.exp(gammaln(k / 2))
        return [(stats.chi2.sf(x, k), 1),
                (x ** ((k - 1) / 2) * e / (tp ** .5 * c),) * 2,
                (x ** ((k - 2) / 2) * e * (x - (k - 1)) / (tp * c), x ** ((k - 2) / 2) * e * (x + k - 1) / (tp * c)),
                (x ** ((k - 3) / 2) * e * (x * x - (2 * k - 1) * x + (k - 1) * (k - 2)) / (tp ** 1.5 * c),
                 x ** ((k - 3) / 2) * e * (x * x + (2 * k - 1) * x + (k - 1) * (k - 2)) / (tp ** 1.5 * c))][dim]
    if kind == "F":
        k, v = dfn, dfd
        y = k * x / v
        b = (1 + y) ** (-(v + k - 2) / 2)
        lg = lambda a: math.exp(gammaln(a) - gammaln(v / 2) - gammaln(k / 2))
        if dim == 0:
            return stats.f.sf(x, k, v), 1
        if dim == 1:
            r = tp ** -.5 * lg((v + k - 1) / 2) * 2 ** .5 * y ** ((k - 1) / 2) * b
            return r, r
        if dim == 2:
            pre = tp ** -1 * lg((v + k - 2) / 2) * y ** ((k - 2) / 2) * b
            return pre * ((v - 1) * y - (k - 1)), pre * ((v - 1) * y + (k - 1))
        pre = tp ** -1.5 * lg((v + k - 3) / 2) * 2 ** -.5 * y ** ((k - 3) / 2) * b
        return (pre * ((v - 1) * (v - 2) * y * y - (2 * v * k - v - k - 1) * y + (k - 1) * (k - 2)),
                pre * ((v - 1) * (v - 2) * y * y + abs(2 * v * k - v - k - 1) * y + (k - 1) * (k - 2)))
    raise AssertionError(kind)


# ---------------------------------------------------------------------------
def _mask_of(case):
    sh = tuple(case["shape"])
    bits = case["bits"]
    return np.array([int(c) for c in bits], dtype=np.int64).reshape(sh)


LAYOUTS = ["C", "C", "C", "F", "T", "strided", "neg"]
MDTYPES = ["int64", "int64", "uint8", "bool", "float64", "int8", "int32"]


def _present(arr, layout, dtype=None):
    """the same array values in another memory layout (how callers permute axes or cut sub-volumes) / dtype:
    C-contiguous, Fortran-ordered, a transposed view of a C array, a strided slice of a larger array, a view
    with a negative stride"""
    a = np.array(arr, dtype=dtype) if dtype is not None else np.array(arr)
    if layout == "F":
        return np.asfortranarray(a)
    if layout == "T":
        return np.ascontiguousarray(a.T).T
    if layout == "strided" and a.ndim:
        big = np.zeros(tuple(2 * s + 1 for s in a.shape), dtype=a.dtype)
        sl = tuple(slice(1, 2 * s + 1, 2) for s in a.shape)
        big[sl] = a
        return big[sl]
    if layout == "neg" and a.ndim:
        return np.ascontiguousarray(a[..., ::-1])[..., ::-1]
    return np.ascontiguousarray(a)


def _bits(mask):
    return "".join(str(int(v)) for v in np.asarray(mask).ravel())


def _mask_line(mask):
    sh = list(mask.shape) + [1] * (3 - mask.ndim)
    return f"{sh[0]} {sh[1]} {sh[2]} " + " ".join(str(int(v)) for v in mask.ravel())


def _affine_coords(shape, A, b):
    idx = np.indices(shape).astype(np.float64)
    A = np.asarray(A, dtype=np.float64)
    return np.tensordot(A, idx, axes=(1, 0)) + np.asarray(b, dtype=np.float64).reshape((-1,) + (1,) * len(shape))


def _embed(mask, big, off):
    out = np.zeros(big, dtype=mask.dtype)
    out[tuple(slice(o, o + s) for o, s in zip(off, mask.shape))] = mask
    return out


class C15(PropertyCheck):
    id = "C15"
    title = "Intrinsic volumes, Euler characteristic and EC densities are exact"
    lean_modules = ["NipyVerif.Props.C15"]
    driver = "Drivers/C15.lean"
    rule = ("cases: binary masks in 1/2/3-d (thorough: every mask on 3x3, 2x2x3 and length 8; random masks on "
            "larger grids, boxes and masks touching faces/edges/corners), dyadic affine coordinate fields, "
            "per-shape simplex tables, rft Q/ECquasi/density parameter tuples; distinct by JSON of the case; "
            "non-trivial = mask with at least one edge of the complex, or dim >= 1 density, or degree >= 2 polynomial")
    assumptions = [
        "sqrt and acos (libm) are parameters: the model yields the exact rational argument of every sqrt/acos of "
        "mu1_edge, mu2_tri, mu3_tet, _mu1_tetface; the harness finishes in binary64 and compares to 1e-9",
        "mu1/mu2 of a solid box (dihedral angles) and all EC densities of order >= 1 (exp, Gamma, t/F/chi2 tails from "
        "scipy.stats) are checked numerically against the published closed forms, not proved",
        "intvol.pyx is executed through harness/decython.py (C typing of declared scalars emulated); the installed "
        ".so is compared as a second witness and a disagreement is reported as tag so-differs (stale .so), not as a verdict",
        "ChiBarSquared (its __call__ is dead code raising AttributeError), Roy and OneSidedF are outside the density oracle",
        "flat stride arithmetic of the padded mask is tied by the per-shape table check (model tables are grid offsets)",
    ]
    level_note = ("EC counts, table/complex identity, box EC, invariances, Gram/volume identities, Hermite recursion are "
                  "proved for all inputs of the model; mu1/mu2 box values and EC densities of order >= 1 are numeric")
    finding_keys = {}

    # ---- tie (a): regenerate the maximal simplices from utils.py -------------
    def translators(self):
        path = os.path.join(REPO, "nipy/algorithms/statistics/utils.py")
        try:
            tree = ast.parse(open(path).read())
        except Exception as e:
            raise TieBroken(f"utils.py does not parse: {e}")
        fn = next((n for n in tree.body if isinstance(n, ast.FunctionDef) and n.name == "cube_with_strides_center"), None)
        if fn is None:
            raise TieBroken("cube_with_strides_center not found in utils.py")
        found = {}
        want_loops = {
            3: "for k in range(2):\n    for j in range(2):\n        for i in range(2):\n            "
               "vertices.append((center[0] + i) * strides[0] + (center[1] + j) * strides[1] + (center[2] + k) * strides[2])",
            2: "for j in range(2):\n    for i in range(2):\n        "
               "vertices.append((center[0] + i) * strides[0] + (center[1] + j) * strides[1])",
            1: "vertices = [center[0], center[0] + strides[0]]",
        }
        for node in ast.walk(fn):
            if isinstance(node, ast.If) and isinstance(node.test, ast.Compare) and \
                    isinstance(node.test.left, ast.Name) and node.test.left.id == "d" and \
                    isinstance(node.test.comparators[0], ast.Constant):
                d = node.test.comparators[0].value
                if d not in (1, 2, 3):
                    continue
                mx = loops = None
                for st in node.body:
                    if isinstance(st, ast.Assign) and isinstance(st.targets[0], ast.Name):
                        if st.targets[0].id == "maximal":
                            try:
                                mx = [list(t) for t in ast.literal_eval(st.value)]
                            except Exception:
                                raise TieBroken(f"maximal simplices for d={d} are not a literal")
                        if st.targets[0].id == "vertices" and d == 1:
                            loops = ast.unparse(st)
                    if isinstance(st, ast.For):
                        loops = ast.unparse(st)
                if mx is None or loops is None or loops.strip() != want_loops[d]:
                    raise TieBroken(f"cube_with_strides_center: vertex enumeration for d={d} has an unexpected shape")
                found[d] = mx
        if set(found) != {1, 2, 3}:
            raise TieBroken("cube_with_strides_center: could not find the d == 1, 2, 3 branches")
        tail = [ast.unparse(s) for s in fn.body[-2:]]
        if tail != ["maximal = [tuple((vertices[j] for j in m)) for m in maximal]", "return complex(maximal)"]:
            raise TieBroken("cube_with_strides_center: tail has an unexpected shape")

        def lit(m):
            return "[" + ", ".join("[" + ", ".join(str(int(v)) for v in s) + "]" for s in m) + "]"
        txt = ("/- GENERATED by harness/props/C15.py from nipy/algorithms/statistics/utils.py\n"
               "   (`cube_with_strides_center`): the hard-coded maximal simplices, as corner\n"
               "   numbers `n = i + 2 j + 4 k`.  Do not edit. -/\n"
               "namespace NipyVerif.Gen.C15\n"
               f"def maximal3 : List (List Nat) := {lit(found[3])}\n"
               f"def maximal2 : List (List Nat) := {lit(found[2])}\n"
               f"def maximal1 : List (List Nat) := {lit(found[1])}\n"
               "end NipyVerif.Gen.C15\n")
        return [("NipyVerif/Gen/C15Tables.lean", txt)]

    # ---- generation ------------------------------------------------------------
    def generate(self, rng, tier):
        quick = tier == "quick"
        cases = []

        def rand_mask(sh, p=None):
            p = rng.choice([0.3, 0.5, 0.7, 0.9]) if p is None else p
            n = int(np.prod(sh))
            return "".join("1" if rng.random() < p else "0" for _ in range(n))

        # simplex tables for a spread of shapes (incl. thin and empty axes)
        for sh in [(1,), (2,), (5,), (1, 1), (1, 3), (3, 1), (2, 2), (3, 4), (1, 1, 1), (2, 2, 3), (3, 1, 2),
                   (1, 4, 1), (4, 3, 2), (2, 3, 1), (5, 6, 7)]:
            cases.append({"kind": "tables", "shape": list(sh)})
        # exhaustive small domains named by the property
        if quick:
            for sh, n in [((3, 3), 140), ((2, 2, 3), 180), ((8,), 80)]:
                tot = 2 ** int(np.prod(sh))
                for v in sorted(rng.sample(range(tot), n)) + [tot - 1, 0, 1]:
                    cases.append({"kind": "ec", "shape": list(sh), "bits": format(v, f"0{int(np.prod(sh))}b")})
        else:
            for sh in [(3, 3), (2, 2, 3), (8,)]:
                nb = int(np.prod(sh))
                for v in range(2 ** nb):
                    cases.append({"kind": "ec", "shape": list(sh), "bits": format(v, f"0{nb}b")})
        # random masks on larger grids; solid boxes; full arrays (touch every face/edge/corner)
        n_r = 150 if quick else 1500
        shapes = [(5,), (11,), (4, 5), (6, 3), (1, 6), (6, 1), (3, 4, 2), (4, 4, 4), (2, 5, 3), (3, 3, 1), (1, 3, 3),
                  (3, 1, 3), (1, 1, 4), (5, 1, 1), (2, 2, 2), (3, 4), (7, 8), (0, 3), (2, 0, 2)]
        for _ in range(n_r):
            sh = rng.choice(shapes)
            r = rng.random()
            if r < 0.2:
                bits = "1" * int(np.prod(sh))
            elif r < 0.4 and int(np.prod(sh)) > 0:   # solid box somewhere, often touching the border
                lo = [rng.randrange(0, s) for s in sh]
                hi = [rng.randrange(l + 1, s + 1) for l, s in zip(lo, sh)]
                m = np.zeros(sh, dtype=int)
                m[tuple(slice(l, h) for l, h in zip(lo, hi))] = 1
                bits = _bits(m)
            else:
                bits = rand_mask(sh)
            cases.append({"kind": "ec", "shape": list(sh), "bits": bits, "layout": rng.choice(LAYOUTS),
                          "mdtype": rng.choice(MDTYPES)})
        # malformed masks (refusal branch)
        for _ in range(10 if quick else 60):
            sh = rng.choice([(4,), (2, 3), (2, 2, 2)])
            n = int(np.prod(sh))
            bits = list(rand_mask(sh))
            bits[rng.randrange(n)] = rng.choice(["2", "3", "7"])
            cases.append({"kind": "ec", "shape": list(sh), "bits": "".join(bits)})
        # Lips: masks + dyadic affine coordinate fields
        n_l = 110 if quick else 1400
        lshapes = [(2,), (5,), (8,), (2, 2), (3, 3), (3, 4), (4, 2), (1, 4), (3, 1), (2, 2, 2), (2, 2, 3), (3, 3, 3),
                   (3, 2, 4), (2, 3, 1), (1, 3, 2), (3, 1, 1), (1, 1, 3)]
        for t in range(n_l):
            sh = rng.choice(lshapes)
            d = len(sh)
            r = rng.random()
            if r < 0.3:
                bits = "1" * int(np.prod(sh))
            elif r < 0.45:
                lo = [rng.randrange(0, s) for s in sh]
                hi = [rng.randrange(l + 1, s + 1) for l, s in zip(lo, sh)]
                m = np.zeros(sh, dtype=int)
                m[tuple(slice(l, h) for l, h in zip(lo, hi))] = 1
                bits = _bits(m)
            else:
                bits = rand_mask(sh)
            N = rng.choice([d, d, d + 1, d + 2])
            kindA = rng.random()
            if kindA < 0.4:      # axis-aligned voxel sizes
                A = [[0.0] * d for _ in range(N)]
                for a in range(d):
                    A[a][a] = rng.choice([0.5, 1.0, 2.0, 3.0, 0.25, 1.5])
            else:
                # general dyadic affine (oblique, sheared, reflected); injective: a rank-deficient map
                # collapses simplices and the image is no longer a simplicial complex
                while True:
                    A = [[rng.choice([-2.0, -1.0, -0.5, 0.0, 0.0, 0.5, 1.0, 2.0, 1.5]) for _ in range(d)]
                         for _ in range(N)]
                    if np.linalg.matrix_rank(np.array(A)) == d:
                        break
            b = [rng.choice([0.0, 0.0, 1.0, -3.5, 8.0]) for _ in range(N)]
            # voxel sizes far from 1 in the units of the coordinates (millimetre voxels in metres, microns, ...):
            # every mu_j is homogeneous of degree j, no absolute size is special
            cs = rng.choice([1.0] * 5 + [2.0 ** -7, 2.0 ** -10, 2.0 ** -14, 2.0 ** 6])
            if cs != 1.0:
                A = [[v * cs for v in row] for row in A]
            cases.append({"kind": "lips", "shape": list(sh), "bits": bits, "A": A, "b": b,
                          "lam": rng.choice([0.5, 2.0, 3.0]),
                          "perm": list(rng.sample(range(d), d)),
                          "layout": rng.choice(LAYOUTS), "clayout": rng.choice(LAYOUTS),
                          "mdtype": rng.choice(MDTYPES)})
        # rft: Hermite / Q polynomials, quasi-polynomial arithmetic, densities
        for dim in range(-1, 9 if quick else 14):
            cases.append({"kind": "hermite", "dim": dim})
        for _ in range(40 if quick else 400):
            def q():
                return {"c": [float(rng.choice([-3, -2, -1, 0, 1, 2, 3, 0.5])) for _ in range(rng.choice([1, 2, 3, 4]))],
                        "e2": rng.choice([0, 1, 2, 3, 4, 7])}
            cases.append({"kind": "quasi", "op": rng.choice(["add", "mul", "deriv"]), "a": q(), "b": q(),
                          "m": rng.choice([1.0, 2.0, 4.0, 8.0, 0.5, 16.0]), "mb_differs": rng.random() < 0.1,
                          "x": rng.choice([-1.5, -0.25, 0.0, 0.5, 1.0, 2.0])})
        n_d = 160 if quick else 2500
        for _ in range(n_d):
            stat = rng.choice(["gauss", "t", "F", "F", "chi2", "chi2", "hotelling", "mlf", "chi2_dfd", "F_inf"])
            dfn = rng.choice([1, 2, 3, 4, 5, 6, 8, 12])
            dfd = rng.choice([1, 2, 3, 4, 5, 7, 10, 20, 40.5, 100, 1000])
            dim = rng.choice([0, 0, 1, 2, 3])
            cases.append({"kind": "density", "stat": stat, "dfn": dfn, "dfd": dfd, "dim": dim,
                          "x": rng.choice([0.25, 0.5, 1.0, 1.75, 2.5, 3.0, 4.5, 6.0, 9.0])})
        return cases

    # ---- per case ----------------------------------------------------------------
    def run_case(self, case):
        warnings.filterwarnings("ignore")
        return getattr(self, "_" + case["kind"])(case)

    def _iv(self):
        from harness.decython import load_pyx
        from nipy.algorithms.statistics import intvol as so
        return load_pyx(PYX), so

    def _tables(self, c):
        from nipy.algorithms.statistics.utils import cube_with_strides_center, join_complexes
        from nipy.utils.arrays import strides_from
        sh = tuple(c["shape"])
        d = len(sh)
        pshape = np.array(sh) + 1
        strides = np.array(strides_from(pshape, np.bool_), dtype=np.intp)
        centers = [p for p in itertools.product((0, 1), repeat=d) if any(p)]
        union = join_complexes(*[cube_with_strides_center(p, strides) for p in centers])
        cc = cube_with_strides_center((0,) * d, strides)
        lines, impl = [], []
        st = [int(s) for s in strides] + [0] * (3 - d)
        for k in range(2, d + 2):
            uniq = cc[k].difference(union[k])
            impl.append(sorted(tuple(int(v) for v in s) for s in uniq))
            lines.append(f"table {d} {k} {st[0]} {st[1]} {st[2]}")
        return {"lines": lines, "impl": [("table", t) for t in impl], "oracle": None,
                "nontrivial": True, "tags": [f"tables{d}d"], "mutated": None}

    def _call(self, f, *a):
        from harness.util import errname
        try:
            return f(*a)
        except Exception as e:    # noqa: BLE001
            return errname(e)

    def _ec(self, c):
        iv, so = self._iv()
        mask = _mask_of(c)
        d = mask.ndim
        f = {1: "EC1d", 2: "EC2d", 3: "EC3d"}[d]
        binary = set(c["bits"]) <= {"0", "1"}
        tags = [f"ec{d}d"]
        lay, mdt = c.get("layout", "C"), c.get("mdtype", "int64")
        if not binary:
            mdt = "int64"
        tags += [f"layout={lay}", f"mask-dtype={mdt}"]
        val = self._call(getattr(iv, f), _present(mask, lay, mdt))
        sov = self._call(getattr(so, f), _present(mask, lay, mdt))
        if str(sov) != str(val) and not (isinstance(val, (int, float)) and isinstance(sov, (int, float)) and val == sov):
            tags.append("so-differs")
        line = f"ec{d} " + _mask_line(mask)
        if not binary:
            ok = isinstance(val, str) and val == "error:valueError"
            return {"lines": [line], "impl": [("ec", val, d)],
                    "oracle": None if ok else f"{f} accepted a non-binary mask {mask.tolist()} and returned {val}",
                    "nontrivial": True, "tags": tags + ["non-binary"], "mutated": None}
        if isinstance(val, str):
            return {"lines": [], "impl": [], "nontrivial": True, "tags": tags + ["raised"],
                    "oracle": f"{f} raised {val} on a binary mask of shape {mask.shape}"}
        fail = None
        ref = reference_ec(mask)
        if val != ref:
            fail = (f"{f}(mask) = {val} but the simplicial complex of the mask (all lattice-triangulation simplices "
                    f"with vertices in the mask) has Euler characteristic {ref}; mask={mask.tolist()}")
        if fail is None and mask.size and mask.all() and val != 1:
            fail = f"{f} of a solid {mask.shape} box is {val}, not 1"
        # invariances (on the real code, against its own value)
        if fail is None:
            rs = np.random.RandomState(int(c["bits"] or "0", 2) % (2 ** 31) + 7 * d)
            pad = [int(v) for v in rs.randint(0, 3, size=d)]
            big = tuple(s + p + int(q) for s, p, q in zip(mask.shape, pad, rs.randint(0, 3, size=d)))
            v2 = self._call(getattr(iv, f), _embed(mask, big, pad))
            if v2 != val:
                fail = f"{f} changes from {val} to {v2} when the mask is placed at offset {pad} in an array of shape {big}"
        if fail is None and d >= 2:
            perm = [1, 0] if d == 2 else [[1, 0, 2], [0, 2, 1], [2, 0, 1]][int(c["bits"][:3] or "0", 2) % 3]
            v3 = self._call(getattr(iv, f), np.ascontiguousarray(mask.transpose(perm)))
            if v3 != val:
                fail = f"{f} changes from {val} to {v3} under the axis permutation {perm}"
        if fail is None and d < 3:
            # thin-slab embeddings in the next dimension
            g = {1: "EC2d", 2: "EC3d"}[d]
            for ax in range(d + 1):
                v4 = self._call(getattr(iv, g), np.expand_dims(mask, ax))
                if v4 != val:
                    fail = (f"{f}(mask) = {val} but {g} of the same mask embedded as a thin slab "
                            f"(new axis {ax}) = {v4}; mask={mask.tolist()}")
                    break
        tags.append("solid" if mask.size and mask.all() else "empty" if not mask.any() else "generic")
        if mask.size and mask.flat[0]:
            tags.append("touches-origin")
        return {"lines": [line], "impl": [("ec", val, d)], "oracle": fail,
                "nontrivial": bool(mask.size) and ref != int(mask.sum()), "tags": tags, "mutated": None}

    def _lips(self, c):
        iv, so = self._iv()
        from harness.util import Snapshot
        mask = _mask_of(c)
        d = mask.ndim
        f = {1: "Lips1d", 2: "Lips2d", 3: "Lips3d"}[d]
        coords = _affine_coords(mask.shape, c["A"], c["b"])
        tags = [f"lips{d}d", f"N={coords.shape[0]}"]
        lay, clay, mdt = c.get("layout", "C"), c.get("clayout", "C"), c.get("mdtype", "int64")
        tags += [f"layout={lay}", f"coords-layout={clay}", f"mask-dtype={mdt}"]
        pmask, pcoords = _present(mask, lay, mdt), _present(coords, clay)
        snap = Snapshot(mask=pmask, coords=pcoords)
        val = self._call(getattr(iv, f), pcoords, pmask)
        mut = snap.changed()
        sov = self._call(getattr(so, f), _present(coords, clay), _present(mask, lay, mdt))
        if isinstance(val, str) or isinstance(sov, str):
            if str(val) != str(sov):
                tags.append("so-differs")
        elif not np.allclose(val, sov, rtol=1e-9, atol=1e-9):
            tags.append("so-differs")
        if isinstance(val, str):
            return {"lines": [], "impl": [], "nontrivial": True, "tags": tags + ["raised"], "mutated": mut,
                    "oracle": f"{f} raised {val} on a binary mask of shape {mask.shape} with affine coordinates"}
        val = [float(v) for v in val]
        # the model works on the squeezed problem exactly as Lips3d/Lips2d delegate
        sq = np.squeeze(mask) if d == 3 else mask
        if d == 3 and sq.ndim < 3:
            cs = coords.reshape((coords.shape[0],) + sq.shape)
            dd = sq.ndim
        else:
            cs, dd = coords, d
        lines, impl = [], []
        if dd >= 1 and sq.size:
            line = (f"lips {dd} " + _mask_line(sq) + f" {cs.shape[0]} " +
                    " ".join(frs(cs[a].ravel().tolist()) for a in range(cs.shape[0])))
            lines, impl = [line], [("lips", val, dd)]
        fail = None
        # mu_j is homogeneous of degree j in the coordinates: the tolerance of mu_j is relative to h^j, h the
        # largest voxel step (an absolute tolerance would hide a wrong mu_3 of small voxels, and raise false
        # alarms on large ones)
        h = max([abs(v) for row in c["A"] for v in row] + [2.0 ** -40])
        hs = max(1.0, float(max(mask.shape)))
        tols = [1e-9 * max(1, mask.size) * max((h * hs) ** j, 2.0 ** -1000) for j in range(5)]
        tol = tols[0]
        ref = reference_mu(mask, coords)
        for j, (a, b) in enumerate(zip(val, ref + [0.0] * (len(val) - len(ref)))):
            if abs(a - b) > tols[j]:
                fail = (f"{f}: mu{j} = {a!r} but the simplicial complex of the mask has mu{j} = {b!r} "
                        f"(mask={mask.tolist()}, A={c['A']}, b={c['b']})")
                break
        A = np.asarray(c["A"], dtype=float)
        axis_aligned = A.shape[0] >= d and all(A[a, a] > 0 for a in range(d)) and \
            np.count_nonzero(A) == d
        if fail is None and mask.all() and axis_aligned:
            e = [(s - 1) * A[a, a] for a, s in enumerate(mask.shape)]
            box = [1.0, sum(e), sum(x * y for x, y in itertools.combinations(e, 2)), float(np.prod(e)) if d == 3 else 0.0]
            box = box[:d + 1]
            for j, (a, b) in enumerate(zip(val, box)):
                if abs(a - b) > tols[j]:
                    fail = f"{f}: solid box with edge lengths {e}: mu{j} = {a!r}, expected {b!r}"
                    break
            tags.append("box")
        if fail is None:   # rescaling of coordinates: mu_j scales by lam^j
            lam = c["lam"]
            v2 = self._call(getattr(iv, f), coords * lam, mask)
            if isinstance(v2, str) or any(abs(float(x) - lam ** j * y) > tols[j] * max(1.0, lam ** j) for j, (x, y) in enumerate(zip(v2, val))):
                fail = f"{f}: rescaling the coordinates by {lam} gives {v2}, expected mu_j * {lam}^j of {val}"
        if fail is None:   # position / padding
            rs = np.random.RandomState(len(c["bits"]) * 31 + int(c["bits"][:24] or "0", 2))
            pad = [int(v) for v in rs.randint(0, 3, size=d)]
            big = tuple(s + p + int(q) for s, p, q in zip(mask.shape, pad, rs.randint(0, 2, size=d)))
            v3 = self._call(getattr(iv, f), _affine_coords(big, c["A"], c["b"]), _embed(mask, big, pad))
            if isinstance(v3, str) or any(abs(float(x) - y) > tols[j] for j, (x, y) in enumerate(zip(v3, val))):
                fail = f"{f}: placing the mask at offset {pad} in an array of shape {big} changes {val} to {v3}"
        if fail is None and d >= 2:   # axis permutation (mask and coordinate field together)
            perm = c["perm"]
            # permuted as callers do it: transposed views (not re-packed) when the case asks for a non-C layout
            pc, pm = coords.transpose([0] + [p + 1 for p in perm]), mask.transpose(perm)
            if lay == "C":
                pc, pm = np.ascontiguousarray(pc), np.ascontiguousarray(pm)
            v4 = self._call(getattr(iv, f), pc, pm)
            if isinstance(v4, str) or any(abs(float(x) - y) > tols[j] for j, (x, y) in enumerate(zip(v4, val))):
                fail = f"{f}: axis permutation {perm} changes {val} to {v4}"
        if fail is None and d < 3:    # thin slab in the next dimension
            g = {1: "Lips2d", 2: "Lips3d"}[d]
            ax = len(c["bits"]) % (d + 1)
            v5 = self._call(getattr(iv, g), np.expand_dims(coords, ax + 1), np.expand_dims(mask, ax))
            if isinstance(v5, str) or any(abs(float(x) - y) > tols[j] for j, (x, y) in enumerate(zip(list(v5), val + [0.0]))):
                fail = f"{g} of the mask embedded as a thin slab (axis {ax}) = {v5}, but {f} = {val}"
        ec = self._call(getattr(iv, f.replace("Lips", "EC")), mask)
        if fail is None and ec != val[0]:
            fail = f"{f}[0] = {val[0]} but {f.replace('Lips', 'EC')} = {ec}"
        return {"lines": lines, "impl": impl, "oracle": fail, "nontrivial": mask.sum() >= 2,
                "tags": tags, "mutated": mut}

    def _hermite(self, c):
        from nipy.algorithms.statistics import rft
        from harness.util import errname
        dim = c["dim"]
        try:
            q = rft.Q(dim)
            obs = ("poly", [float(v) for v in q.c[::-1]])
        except Exception as e:   # noqa: BLE001
            obs = ("err", errname(e))
        fail = None
        if dim >= 1 and obs[0] == "poly":
            # He_{n+1}(x) = x He_n(x) - He_n'(x) on the real polynomials
            n = dim - 1
            if n >= 1:
                p, pm = np.poly1d(q.c), rft.Q(dim - 1)
                lhs = np.poly1d(p.c)
                rhs = np.poly1d([1, 0]) * np.poly1d(pm.c) - np.poly1d(pm.c).deriv()
                if not np.allclose((lhs - rhs).c, 0, atol=1e-9):
                    fail = f"Q({dim}) is not x*Q({dim - 1}) - Q({dim - 1})' (Hermite recursion)"
        return {"lines": [f"hermite {dim}"], "impl": [obs], "oracle": fail, "nontrivial": dim >= 3,
                "tags": ["hermite"], "mutated": None}

    def _quasi(self, c):
        from nipy.algorithms.statistics import rft
        from harness.util import errname
        m = c["m"]
        mb = m * 2 if (c["mb_differs"] and c["op"] != "deriv") else m
        a = rft.ECquasi(c["a"]["c"][::-1], m=m, exponent=c["a"]["e2"] / 2)
        b = rft.ECquasi(c["b"]["c"][::-1], m=mb, exponent=c["b"]["e2"] / 2)
        x = c["x"]

        def ev(cs, e2, mm):
            return float(np.polyval(cs[::-1], x)) * (1 + x * x / mm) ** (-e2 / 2)
        qa = f"{len(c['a']['c'])} {frs(c['a']['c'])} {fr(m)} {c['a']['e2']}"
        qb = f"{len(c['b']['c'])} {frs(c['b']['c'])} {fr(mb)} {c['b']['e2']}"
        fail = None
        line = {"add": f"qadd {qa} {qb}", "mul": f"qmul {qa} {qb}", "deriv": f"qderiv {qa}"}[c["op"]]
        try:
            if c["op"] == "add":
                r = a + b
                want = ev(c["a"]["c"], c["a"]["e2"], m) + ev(c["b"]["c"], c["b"]["e2"], mb)
            elif c["op"] == "mul":
                r = a * b
                want = ev(c["a"]["c"], c["a"]["e2"], m) * ev(c["b"]["c"], c["b"]["e2"], mb)
            else:
                r = a.deriv()
                p = np.poly1d(c["a"]["c"][::-1])
                e = c["a"]["e2"] / 2
                want = float(p.deriv()(x)) * (1 + x * x / m) ** (-e) - e * float(p(x)) * (2 * x / m) * (1 + x * x / m) ** (-e - 1)
            if r is None:
                obs = ("none",)
            else:
                obs = ("quasi", int(round(2 * r.exponent)), [float(v) for v in r.coeffs[::-1]])
                got = float(r(x))
                if not close(got, want, 1e-9, 1e-9):
                    fail = f"ECquasi {c['op']}: value at x={x} is {got}, expected {want} (a={c['a']}, b={c['b']}, m={m})"
        except Exception as e:   # noqa: BLE001
            obs = ("err", errname(e))
        return {"lines": [line], "impl": [obs], "oracle": fail, "nontrivial": len(c["a"]["c"]) >= 2,
                "tags": ["quasi-" + c["op"]], "mutated": None}

    def _density(self, c):
        from scipy import stats
        from nipy.algorithms.statistics import rft
        st, dfn, dfd, dim, x = c["stat"], c["dfn"], c["dfd"], c["dim"], c["x"]
        tags = ["density-" + st, f"dim{dim}"]
        want = scale = None
        try:
            if st == "gauss":
                got = rft.Gaussian().density(x, dim); want, scale = published_density("gauss", x, dim)
            elif st == "t":
                got = rft.TStat(dfd=dfd).density(x, dim); want, scale = published_density("t", x, dim, dfd=dfd)
            elif st == "chi2":
                got = rft.ChiSquared(dfn=dfn).density(x, dim); want, scale = published_density("chi2", x, dim, dfn=dfn)
            elif st == "F":
                got = rft.FStat(dfn=dfn, dfd=dfd).density(x, dim)
                if dim == 0 or dfn + dfd > dim:
                    want, scale = published_density("F", x, dim, dfn=dfn, dfd=dfd)
            elif st == "F_inf":
                got = rft.FStat(dfn=dfn).density(x, dim)
                if dim == 0:
                    want, scale = stats.chi2.sf(dfn * x, dfn), 1
                else:
                    w, s = published_density("chi2", dfn * x, dim, dfn=dfn); want, scale = w, s
            elif st == "chi2_dfd":
                got = rft.ChiSquared(dfn=dfn, dfd=dfd).density(x, dim)
                if dim == 0:
                    want, scale = stats.f.sf(x / dfn, dfn, dfd), 1
                elif dfn + dfd > dim:
                    want, scale = published_density("F", x / dfn, dim, dfn=dfn, dfd=dfd)
            elif st == "hotelling":
                k = min(dfn, 4)
                dd = max(dfd, k + 1)
                got = rft.Hotelling(dfd=dd, k=k).density(x, 0)
                dim = 0
                want, scale = stats.f.sf(x * (dd - k + 1) / (k * dd), k, dd - k + 1), 1
            else:   # multilinear form over one sphere: chi tail
                k = min(dfn, 6)
                got = rft.MultilinearForm(k).density(x, 0)
                dim = 0
                want, scale = stats.chi.sf(x, k), 1
        except Exception as e:   # noqa: BLE001
            return {"lines": [], "impl": [], "nontrivial": True, "tags": tags + ["raised"],
                    "oracle": f"{st} density(x={x}, dim={dim}, dfn={dfn}, dfd={dfd}) raised {type(e).__name__}: {e}"}
        got = float(got)
        fail = None
        if want is not None:
            # rounding in the quasi-polynomial evaluation (and in the gammaln differences of the closed form)
            # grows with the degrees of freedom: relative 1e-8, loosened in proportion to max(dfn, dfd) / 10
            tol = 1e-8 * max(1.0, max(dfn or 0, dfd or 0) / 10.0) * max(abs(scale), 1e-300)
            if not (abs(got - want) <= tol):
                what = "the upper-tail probability" if dim == 0 else "the published closed form"
                fail = (f"EC density of order {dim} of the {st} field (dfn={dfn}, dfd={dfd}) at x={x} is {got!r}, "
                        f"but {what} is {want!r}")
        else:
            tags.append("no-closed-form")
        return {"lines": [], "impl": [], "oracle": fail, "nontrivial": dim >= 1, "tags": tags, "mutated": None}

    # ---- comparison ----------------------------------------------------------------
    def compare(self, case, impl_obs, model_out):
        kind = impl_obs[0]
        if kind == "table":
            want = sorted(tuple(int(v) for v in s.split()) for s in model_out.split(" | ")) if model_out.strip() else []
            return None if want == impl_obs[1] else f"impl table {impl_obs[1]} model {want}"
        if kind == "ec":
            val, d = impl_obs[1], impl_obs[2]
            if isinstance(val, str):
                return None if val == model_out else f"impl {val} model {model_out}"
            m = model_out.split()
            if model_out.startswith(("error", "bad-op")) or not m:
                return f"impl {val} model {model_out}"
            return None if int(m[0]) == val else f"impl {val} model {m[0]}"
        if kind == "lips":
            return self._cmp_lips(impl_obs[1], impl_obs[2], model_out)
        if kind == "poly":
            return cmp_rats(impl_obs[1], model_out, 1e-9, 1e-9)
        if kind == "err":
            return None if impl_obs[1] == model_out else f"impl {impl_obs[1]} model {model_out}"
        if kind == "none":
            return None if model_out == "none" else f"impl None model {model_out}"
        if kind == "quasi":
            if model_out.startswith(("error", "bad-op", "none")):
                return f"impl quasi model {model_out}"
            toks = model_out.split()
            e2, coef = int(toks[0]), [Fraction(t) for t in toks[1:]]
            if e2 != impl_obs[1]:
                return f"exponent*2 impl {impl_obs[1]} model {e2}"
            a = list(impl_obs[2])
            while len(a) > 1 and a[-1] == 0:
                a.pop()
            if a == [0.0]:
                a = []
            if len(a) != len(coef):
                n = max(len(a), len(coef))
                a += [0.0] * (n - len(a)); coef += [Fraction(0)] * (n - len(coef))
            for k, (u, v) in enumerate(zip(a, coef)):
                if not close(u, v, 1e-9, 1e-9):
                    return f"coefficient {k}: impl {u} model {float(v)}"
            return None
        return "unknown observation kind"

    @staticmethod
    def _cmp_lips(val, d, model_out):
        if model_out.startswith(("error", "bad-op")):
            return f"impl {val} model {model_out}"
        parts = [p.strip() for p in model_out.split(";")]
        if len(parts) != 4:
            return f"unparsable model output {model_out[:80]!r}"
        l0 = float(Fraction(parts[0]))

        def groups(s):
            return [[float(Fraction(t)) for t in g.split()] for g in s.split("|")] if s.strip() else []
        sq = lambda v: math.sqrt(v) if v > 0 else 0.0
        mu2tri = lambda L: 0.0 if L < 0 else math.sqrt(L) * 0.5

        def face(A00, npl, ipp):
            if A00 <= 0 or npl <= 0:
                return 0.0
            r = ipp / math.sqrt(npl)
            ac = 0.0 if r >= 1 else PI if r <= -1 else math.acos(r)
            return (PI - ac) * math.sqrt(A00) / (2 * PI)
        l1 = l2 = l3 = 0.0
        for (e,) in groups(parts[1]):
            l1 += sq(e)
        for L, e01, e02, e12 in groups(parts[2]):
            l2 += mu2tri(L)
            l1 -= 0.5 * (sq(e01) + sq(e02) + sq(e12))
        for g in groups(parts[3]):
            v2 = g[0]
            l3 += 0.0 if v2 <= 0 else math.sqrt(v2) / 6.0
            l2 -= 0.5 * sum(mu2tri(L) for L in g[1:5])
            l1 += sum(face(*g[5 + 3 * t: 8 + 3 * t]) for t in range(6))
        mu = [l0, l1, l2, l3][:d + 1] + [0.0] * (len(val) - d - 1)
        n = max(1, len(groups(parts[1])))
        scale = max(1.0, max(abs(v) for v in val))
        for j, (a, b) in enumerate(zip(val, mu)):
            if abs(a - b) > 1e-9 * scale * n:
                return f"mu{j}: impl {a!r} model {b!r}"
        return None

    # ---- shrinking / classification -----------------------------------------------------
    def shrink(self, case):
        if case.get("kind") in ("ec", "lips") and "bits" in case:
            bits = case["bits"]
            for i, ch in enumerate(bits):
                if ch != "0":
                    c = dict(case); c["bits"] = bits[:i] + "0" + bits[i + 1:]
                    yield c
            sh = case["shape"]
            m = None
            for ax, s in enumerate(sh):
                if s > 1 and set(bits) <= {"0", "1"}:
                    m = _mask_of(case) if m is None else m
                    for sl in (slice(0, s - 1), slice(1, s)):
                        sub = m[tuple(sl if a == ax else slice(None) for a in range(len(sh)))]
                        c = dict(case); c["shape"] = list(sub.shape); c["bits"] = _bits(sub)
                        yield c

    def classify(self, case, failure):
        return None


CHECK = C15()
