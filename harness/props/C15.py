"""C15 — intrinsic volumes, Euler characteristic and EC densities are exact.

Implementation under test: the *current text* of /repo's intvol.pyx run through
harness.decython (the installed .so is a second witness, reported separately:
it is stale when the .pyx was edited), utils.py triangulation helpers,
nipy/utils/arrays.py, rft.py.

Tie (a), translators -> lean/NipyVerif/Gen/C15Tables.lean: the hard-coded maximal
simplices of cube_with_strides_center, the centres of the neighbour cubes united
in EC*d / Lips*d (intvol.pyx) and in decompose2d/3d (utils.py), whether Lips3d
handles a 0-d squeezed mask; shape fingerprints of complex, join_complexes,
decompose2d/3d, strides_from.

Correspondence (Lean model NipyVerif.Model.C15*, driver lines):
  table / cubeflat / decompose       tables for the strides actually used, cubes at any centre, whole-box lists
  ec1 ec2 ec3                        EC1d/2d/3d
  lips                               rational argument of every sqrt/acos of every simplex visited (finished here)
  lipsloop / lipsspec                Lips1d/2d/3d as written (flat indices, Gram matrix, squeeze/delegation) and the
                                     grid-point form, with the driver's certified sqrt and fixed-point acos
  sqrtq acosq                        that libm instantiation against math.sqrt / math.acos
  strides                            strides_from
  hermite qfin                       rft.Q for dfd = inf / finite (Gamma factors as parameters)
  qadd qmul qderiv, eq <op>          ECquasi operations (m finite and inf): change_exponent, compatible, add, sub,
                                     mul, scalar, pow, deriv(k), __call__, ==
  ivmul quasi eccone                 IntrinsicVolumes product, ECcone.quasi, ECcone.__call__ (kernel, tail, 2 pi
                                     powers as parameters)
  (wave 5) stathist: quasi line for the state of a statistic object after a history of evaluations;
  ecvec: eccone lines for the elements of a batch evaluation; Gen/C15Source.lean: function bodies of intvol.pyx /
  rft.py as Lean terms (harness/props/c15_translate.py), proved to be the model's in Props/C15Source.lean
Oracle: the property's clauses on the real code (independent brute-force
complex, box formula, invariances, published EC densities, closed forms of the
search regions, decompose = complex of the box, curvature coefficients).
"""
from __future__ import annotations

import ast
import itertools
import math
import os
import warnings
from fractions import Fraction

import numpy as np

from harness.core import REPO, PropertyCheck, TieBroken
from harness.util import close, cmp_rats, fr, frs, parse_rats

PYX = "nipy/algorithms/statistics/intvol.pyx"
KEY_SINGLE_VOXEL = "lips3d-single-voxel"
PI = math.pi

# ---------------------------------------------------------------------------
# independent reference: the Kuhn complex of a mask and its intrinsic volumes
# ---------------------------------------------------------------------------


def _chains(d):
    """all chains 0 = a0 < a1 < ... < ak in {0,1}^d (componentwise order), k >= 0"""
    pts = [p for p in itertools.product((0, 1), repeat=d)]
    le = lambda a, b: all(x <= y for x, y in zip(a, b)) and a != b
    out = [[pts[0]]]
    frontier = [[pts[0]]]
    while frontier:
        nxt = []
        for c in frontier:
            for p in pts:
                if le(c[-1], p):
                    nxt.append(c + [p])
        out += nxt
        frontier = nxt
    return out


_CH = {d: _chains(d) for d in (1, 2, 3)}


def complex_of(mask):
    """simplices (tuples of grid points) of the lattice triangulation with all vertices in the mask"""
    d = mask.ndim
    sh = mask.shape
    res = []
    for x in zip(*np.nonzero(mask)):
        for c in _CH[d]:
            vs = [tuple(int(a + b) for a, b in zip(x, v)) for v in c]
            if all(all(q < s for q, s in zip(v, sh)) and mask[v] for v in vs):
                res.append(vs)
    return res


def _vol(vs):
    """(dim)-volume of a simplex with vertex coordinate vectors vs (Gram determinant)"""
    k = len(vs) - 1
    if k == 0:
        return 1.0
    E = np.array([v - vs[0] for v in vs[1:]])
    g = np.linalg.det(E @ E.T)
    return math.sqrt(max(g, 0.0)) / math.factorial(k)


def _ext_angle_sum(vs):
    """mu1 of a tetrahedron: sum over edges of length * (pi - dihedral) / (2 pi), via face normals"""
    tot = 0.0
    for a, b in itertools.combinations(range(4), 2):
        c, d = [i for i in range(4) if i not in (a, b)]
        e = vs[b] - vs[a]
        ln = np.linalg.norm(e)
        if ln == 0:
            continue
        u = e / ln
        p = (vs[c] - vs[a]) - np.dot(vs[c] - vs[a], u) * u
        q = (vs[d] - vs[a]) - np.dot(vs[d] - vs[a], u) * u
        npq = np.linalg.norm(p) * np.linalg.norm(q)
        if npq == 0:
            continue
        dih = math.acos(max(-1.0, min(1.0, float(np.dot(p, q) / npq))))
        tot += ln * (PI - dih) / (2 * PI)
    return tot


def simplex_mu(vs, j):
    """j-th intrinsic volume of a closed simplex (vertex coordinate vectors)"""
    k = len(vs) - 1
    if j > k:
        return 0.0
    if j == 0:
        return 1.0
    if j == k:
        return _vol(vs)
    if j == k - 1:     # half the (k-1)-dimensional boundary measure
        return 0.5 * sum(_vol([v for i, v in enumerate(vs) if i != o]) for o in range(k + 1))
    if k == 3 and j == 1:
        return _ext_angle_sum(vs)
    raise AssertionError


def reference_mu(mask, coords):
    """mu_j(|K|) = sum over simplices (-1)^(dim - j) mu_j(simplex)   (additivity / Euler relation)"""
    d = mask.ndim
    mu = [0.0] * (d + 1)
    for s in complex_of(mask):
        vs = [np.array(coords[(slice(None),) + v], dtype=float) for v in s]
        for j in range(len(s)):
            mu[j] += (-1) ** (len(s) - 1 - j) * simplex_mu(vs, j)
    return mu


def reference_ec(mask):
    return sum((-1) ** (len(s) - 1) for s in complex_of(mask))


# ---------------------------------------------------------------------------
# published EC densities (Worsley 1994; Worsley et al. 1996, Table II, unit lambda)
# ---------------------------------------------------------------------------
def published_density(kind, x, dim, dfn=None, dfd=None):
    """returns (value, scale): scale is the size of the largest term, for the tolerance"""
    from scipy import stats
    from scipy.special import gammaln
    tp = 2 * PI
    if kind == "gauss":
        e = math.exp(-x * x / 2)
        return [(stats.norm.sf(x), 1), (e / tp, e / tp), (tp ** -1.5 * x * e, tp ** -1.5 * x * e),
                (tp ** -2 * (x * x - 1) * e, tp ** -2 * (x * x + 1) * e)][dim]
    if kind == "t":
        v = dfd
        b = (1 + x * x / v) ** (-(v - 1) / 2)
        g = math.exp(gammaln((v + 1) / 2) - gammaln(v / 2)) / math.sqrt(v / 2)
        return [(stats.t.sf(x, v), 1), (b / tp, b / tp), (tp ** -1.5 * g * x * b,) * 2,
                (tp ** -2 * ((v - 1) / v * x * x - 1) * b, tp ** -2 * ((v - 1) / v * x * x + 1) * b)][dim]
    if kind == "chi2":
        k = dfn
        e = math.exp(-x / 2)
        c = 2 ** ((k - 2) / 2) * math.exp(gammaln(k / 2))
        return [(stats.chi2.sf(x, k), 1),
                (x ** ((k - 1) / 2) * e / (tp ** .5 * c),) * 2,
                (x ** ((k - 2) / 2) * e * (x - (k - 1)) / (tp * c), x ** ((k - 2) / 2) * e * (x + k - 1) / (tp * c)),
                (x ** ((k - 3) / 2) * e * (x * x - (2 * k - 1) * x + (k - 1) * (k - 2)) / (tp ** 1.5 * c),
                 x ** ((k - 3) / 2) * e * (x * x + (2 * k - 1) * x + (k - 1) * (k - 2)) / (tp ** 1.5 * c))][dim]
    if kind == "F":
        k, v = dfn, dfd
        y = k * x / v
        b = (1 + y) ** (-(v + k - 2) / 2)
        lg = lambda a: math.exp(gammaln(a) - gammaln(v / 2) - gammaln(k / 2))
        if dim == 0:
            return stats.f.sf(x, k, v), 1
        if dim == 1:
            r = tp ** -.5 * lg((v + k - 1) / 2) * 2 ** .5 * y ** ((k - 1) / 2) * b
            return r, r
        if dim == 2:
            pre = tp ** -1 * lg((v + k - 2) / 2) * y ** ((k - 2) / 2) * b
            return pre * ((v - 1) * y - (k - 1)), pre * ((v - 1) * y + (k - 1))
        pre = tp ** -1.5 * lg((v + k - 3) / 2) * 2 ** -.5 * y ** ((k - 3) / 2) * b
        return (pre * ((v - 1) * (v - 2) * y * y - (2 * v * k - v - k - 1) * y + (k - 1) * (k - 2)),
                pre * ((v - 1) * (v - 2) * y * y + abs(2 * v * k - v - k - 1) * y + (k - 1) * (k - 2)))
    raise AssertionError(kind)


# ---------------------------------------------------------------------------
def _mask_of(case):
    sh = tuple(case["shape"])
    bits = case["bits"]
    return np.array([int(c) for c in bits], dtype=np.int64).reshape(sh)


LAYOUTS = ["C", "C", "C", "F", "T", "strided", "neg"]
MDTYPES = ["int64", "int64", "uint8", "bool", "float64", "int8", "int32"]


def _present(arr, layout, dtype=None):
    """the same array values in another memory layout (how callers permute axes or cut sub-volumes) / dtype:
    C-contiguous, Fortran-ordered, a transposed view of a C array, a strided slice of a larger array, a view
    with a negative stride"""
    a = np.array(arr, dtype=dtype) if dtype is not None else np.array(arr)
    if layout == "F":
        return np.asfortranarray(a)
    if layout == "T":
        return np.ascontiguousarray(a.T).T
    if layout == "strided" and a.ndim:
        big = np.zeros(tuple(2 * s + 1 for s in a.shape), dtype=a.dtype)
        sl = tuple(slice(1, 2 * s + 1, 2) for s in a.shape)
        big[sl] = a
        return big[sl]
    if layout == "neg" and a.ndim:
        return np.ascontiguousarray(a[..., ::-1])[..., ::-1]
    return np.ascontiguousarray(a)


def _bits(mask):
    return "".join(str(int(v)) for v in np.asarray(mask).ravel())


def _mask_line(mask):
    sh = list(mask.shape) + [1] * (3 - mask.ndim)
    return f"{sh[0]} {sh[1]} {sh[2]} " + " ".join(str(int(v)) for v in mask.ravel())


def _affine_coords(shape, A, b):
    idx = np.indices(shape).astype(np.float64)
    A = np.asarray(A, dtype=np.float64)
    return np.tensordot(A, idx, axes=(1, 0)) + np.asarray(b, dtype=np.float64).reshape((-1,) + (1,) * len(shape))


def _embed(mask, big, off):
    out = np.zeros(big, dtype=mask.dtype)
    out[tuple(slice(o, o + s) for o, s in zip(off, mask.shape))] = mask
    return out


class C15(PropertyCheck):
    id = "C15"
    title = "Intrinsic volumes, Euler characteristic and EC densities are exact"
    lean_modules = ["NipyVerif.Props.C15", "NipyVerif.Props.C15B", "NipyVerif.Props.C15Loop", "NipyVerif.Props.C15C",
                    "NipyVerif.Props.C15D", "NipyVerif.Props.C15E", "NipyVerif.Props.C15Source", "NipyVerif.Props.C15F"]
    driver = "Drivers/C15.lean"
    rule = ("cases: binary masks in 1/2/3-d (thorough: every mask on 3x3, 2x2x3 and length 8; random masks on "
            "larger grids, boxes and masks touching faces/edges/corners; C/F/transposed/strided/negative-stride layouts, "
            "bool/uint8/int/float masks), dyadic affine coordinate fields (oblique, reflected, N = d..d+2 components, voxel "
            "scales 2^-14..2^6), per-shape simplex tables, cubes at arbitrary (negative) centres and strides, "
            "decompose2d/3d of boxes, strides_from for dtypes of every item size and both orders, the driver's sqrt/acos, "
            "rft Q (dfd = inf and finite) / ECquasi operation / IntrinsicVolumes product / ECcone.quasi / ECcone.__call__ "
            "/ density parameter tuples; histories of evaluations on one statistic object (every class incl. OneSidedF, "
            "search region as list / tuple / int8 / float32 / IntrinsicVolumes) with the object observed before and after "
            "each step; thresholds as arrays of rank 0..2 incl. empty, list / float32 / int16 / Fortran / strided / "
            "negative-stride / read-only; distinct by JSON of the case; non-trivial = mask with at least one edge of the "
            "complex, or dim >= 1 density, or degree >= 2 polynomial, or a product / assembly of >= 2 terms")
    assumptions = [
        "libm is a parameter of the Lips model (structure Num: sqrt, acos, PI). Theorems hold for every Num, or under the "
        "stated law sqrt(l^2 v) = |l| sqrt(v) (rescaling) / sqrt(det^2) = |det| (box volume in 3 coordinates); the "
        "driver instantiates sqrt by sqrtQ, proved to be the exact root rounded down on a 2^-64 relative grid "
        "(sqrtQ_spec), and acos / PI by fixed-point series that are only tested against math.acos (numq cases)",
        "floating point: the model is exact rational arithmetic; results of Lips*d are compared at 1e-9 relative to h^j "
        "(h the largest voxel step), EC densities at 1e-8 relative + 1e-12 absolute, ECquasi coefficients at 1e-9",
        "rft: powers of 2 pi, the kernels exp(-x^2/2) and (1+x^2/m)^(-(m-1)/2), sqrt(1+x^2/m), the tail probabilities "
        "(scipy.stats) and the Gamma factors of Q(dim, dfd) are parameters of the model (values computed by the harness "
        "with independent scipy calls: rgamma, not exp(gammaln)). chi^2 field (dfd = inf), orders 1..3: the polynomial "
        "identities are proved for every n (hermite_inversion, chi2_density_closed_form) given that the sphere curvatures "
        "over powers of 2 pi are kappa_n N!/(2^j j! k!) - a Gamma identity at half-integers checked numerically (chi2coef "
        "cases). F field, chi^2 with finite dfd, Hotelling, Roy, multilinear forms: closed forms / tails numeric only",
        "mu1 of a solid 3-d box (dihedral angle sums around edges: acos is opaque) is checked numerically against a+b+c; "
        "proved for every box and affine field: mu0 = 1 (ec*_box), mu3 / mu2 / mu1 top-dimensional (lips3_box_volume, "
        "lips2_box_area, lips1_length), half the surface area of 3-d boxes (lips3_box_mu2) and half the perimeter of 2-d "
        "boxes (lips2_box_mu1)",
        "intvol.pyx is executed through harness/decython.py (C typing of declared scalars emulated); the installed "
        ".so is compared as a second witness and a disagreement is reported as tag so-differs (stale .so), not as a verdict",
        "the set-iteration order of the tables d2/d3/d4 in the code is not modelled (sums are order-independent up to "
        "rounding); shapes with a zero extent are outside the loop theorems (the loops do not run)",
        "ChiBarSquared (its __call__ is dead code raising AttributeError) and Roy/OneSidedF closed forms are outside the "
        "density oracle (Roy and OneSidedF are executed; Roy goes through the eccone correspondence)",
        "source tie (wave 5): Gen/C15Source.lean is regenerated by harness/props/c15_translate.py from the text of "
        "intvol.pyx (mu1_edge, mu2_tri, mu1_tri, mu3_tet, mu2_tet, limited_acos, _mu1_tetface, mu1_tet: whole bodies, "
        "statement by statement; sqrt / acos / PI are the fields of Num) and rft.py (ECquasi.denom_poly, compatible, "
        "__mul__ both branches, __call__, __pow__, change_exponent, __add__ (finite m), the two terms of deriv; "
        "IntrinsicVolumes.__mul__; the weight, kernels, tail test and tail term of ECcone.__call__; the test, exponent and "
        "Q-dimension of _quasi_polynomials; the even/odd test of quasi; loop count, Gamma argument, factor and index of Q; "
        "the cone and threshold transform of the seven statistic classes as a table); np.power / np.exp / gammaln / np.log "
        "are named leaves (parameters of the theorems). A source shape the translator does not know raises TieBroken. "
        "Not regenerated: the EC / Lips loop nests of intvol.pyx (modelled by hand, tables regenerated), __sub__ / __eq__ / "
        "__repr__ / __setattr__ of ECquasi, the m = inf branches other than their shape, mu_sphere / mu_ball / "
        "volume2ball / scale_space (numeric oracle only)",
        "a cast of the threshold to float64 at the head of a statistic's __call__ and statements after its last "
        "ECcone.__call__ (state restoring) are not part of the regenerated table of cones; they are covered by the "
        "ecvec / stathist cases (batch = element-wise in every dtype; the object is the same cone after an evaluation)",
        "not executed on purpose: utils.z_score / multiple_fast_inv / multiple_mahalanobis (statistics helpers of other "
        "properties, C20), ECquasi.__div__ semantics under Python 3 (`/` never reaches it; the stub is only called directly)",
    ]
    level_note = ("proved for all inputs of the model: table/complex identity and tiling of the cube by the hard-coded "
                  "simplices; EC loops = Euler characteristic, box EC, EC invariances; the Lips1d/2d/3d loops as written "
                  "(flat indices, strides, % nvox wrap, Gram matrix, _convert_stride) equal the sums over the complex, "
                  "their invariance under padding, position, coordinate translation, axis permutation, thin-slab "
                  "embedding, the rescaling law, exact top-dimensional volume/area/length of every box under every affine "
                  "field; strides_from; decompose tables; ECquasi operations incl. deriv (formal derivative, chain rule), "
                  "Hermite three-term recurrence and inversion, Gaussian, t and chi^2 densities of order 1..3 (polynomial parts); "
                  "mu2 of 3-d boxes and mu1 of 2-d boxes; the regenerated source terms are the model's (Props/C15Source: "
                  "every mu* routine of intvol.pyx, ECquasi add / mul / call / pow / change_exponent / deriv terms, "
                  "IntrinsicVolumes.__mul__, _quasi_polynomials, the Q loop); IntrinsicVolumes.__mul__ is polynomial "
                  "multiplication (commutative, associative, unit [1]; search and product of ECcone interchangeable; "
                  "product of three intervals = (1, a+b+c, ab+bc+ca, abc)) (Props/C15F). Numeric only (oracle): mu1 of 3-d boxes (angle sums), F / "
                  "Hotelling / Roy / multilinear densities, tail probabilities, Gamma identities; acos/PI of the driver")
    finding_keys = {KEY_SINGLE_VOXEL: "(fixed in /repo 577b5e1) Lips3d on a mask of shape (1,1,1) with the voxel set returned "
                                      "[0,0,0,0]: after np.squeeze the mask is 0-d and neither delegation branch ran; the "
                                      "complex is one vertex (mu0 = 1, EC3d gives 1)"}

    # ---- tie (a): regenerate the maximal simplices from utils.py -------------
    def translators(self):
        path = os.path.join(REPO, "nipy/algorithms/statistics/utils.py")
        try:
            tree = ast.parse(open(path).read())
        except Exception as e:
            raise TieBroken(f"utils.py does not parse: {e}")
        fn = next((n for n in tree.body if isinstance(n, ast.FunctionDef) and n.name == "cube_with_strides_center"), None)
        if fn is None:
            raise TieBroken("cube_with_strides_center not found in utils.py")
        found = {}
        want_loops = {
            3: "for k in range(2):\n    for j in range(2):\n        for i in range(2):\n            "
               "vertices.append((center[0] + i) * strides[0] + (center[1] + j) * strides[1] + (center[2] + k) * strides[2])",
            2: "for j in range(2):\n    for i in range(2):\n        "
               "vertices.append((center[0] + i) * strides[0] + (center[1] + j) * strides[1])",
            1: "vertices = [center[0], center[0] + strides[0]]",
        }
        for node in ast.walk(fn):
            if isinstance(node, ast.If) and isinstance(node.test, ast.Compare) and \
                    isinstance(node.test.left, ast.Name) and node.test.left.id == "d" and \
                    isinstance(node.test.comparators[0], ast.Constant):
                d = node.test.comparators[0].value
                if d not in (1, 2, 3):
                    continue
                mx = loops = None
                for st in node.body:
                    if isinstance(st, ast.Assign) and isinstance(st.targets[0], ast.Name):
                        if st.targets[0].id == "maximal":
                            try:
                                mx = [list(t) for t in ast.literal_eval(st.value)]
                            except Exception:
                                raise TieBroken(f"maximal simplices for d={d} are not a literal")
                        if st.targets[0].id == "vertices" and d == 1:
                            loops = ast.unparse(st)
                    if isinstance(st, ast.For):
                        loops = ast.unparse(st)
                if mx is None or loops is None or loops.strip() != want_loops[d]:
                    raise TieBroken(f"cube_with_strides_center: vertex enumeration for d={d} has an unexpected shape")
                found[d] = mx
        if set(found) != {1, 2, 3}:
            raise TieBroken("cube_with_strides_center: could not find the d == 1, 2, 3 branches")
        tail = [ast.unparse(s) for s in fn.body[-2:]]
        if tail != ["maximal = [tuple((vertices[j] for j in m)) for m in maximal]", "return complex(maximal)"]:
            raise TieBroken("cube_with_strides_center: tail has an unexpected shape")

        def lit(m):
            return "[" + ", ".join("[" + ", ".join(str(int(v)) for v in s) + "]" for s in m) + "]"

        def tl(ts):
            return "[" + ", ".join("(" + ", ".join(str(int(v)) for v in t) + ")" if len(t) > 1 else str(int(t[0]))
                                   for t in ts) + "]"
        zero_dim = self._lips3d_zero_dim_branch()
        cen = self._centre_tables(tree)
        txt = ("/- GENERATED by harness/props/C15.py from nipy/algorithms/statistics/utils.py\n"
               "   (`cube_with_strides_center`): the hard-coded maximal simplices, as corner\n"
               "   numbers `n = i + 2 j + 4 k`.  Do not edit. -/\n"
               "namespace NipyVerif.Gen.C15\n"
               f"def maximal3 : List (List Nat) := {lit(found[3])}\n"
               f"def maximal2 : List (List Nat) := {lit(found[2])}\n"
               f"def maximal1 : List (List Nat) := {lit(found[1])}\n"
               "/-- intvol.pyx `Lips3d`: does the delegation block after `np.squeeze` handle `mask.ndim == 0`\n"
               "    (`value[0] = check_cast_bin8(mask)`)?  Without it a single-voxel mask returns zeros. -/\n"
               f"def lips3dZeroDim : Bool := {'true' if zero_dim else 'false'}\n"
               "/-- centres of the forward neighbour cubes united by `join_complexes` in EC3d/Lips3d and EC2d/Lips2d\n"
               "    (intvol.pyx), and of the backward neighbours in `decompose3d` / `decompose2d` (utils.py) -/\n"
               f"def neighbours3 : List (Nat × Nat × Nat) := {tl(cen['n3'])}\n"
               f"def neighbours2 : List (Nat × Nat × Nat) := {tl([t + (0,) for t in cen['n2']])}\n"
               f"def decomp3Neg3 : List (Int × Int × Int) := {tl(cen['d3_3'])}\n"
               f"def decomp3Neg2 : List (Int × Int) := {tl(cen['d3_2'])}\n"
               f"def decomp3Neg1 : List Int := {tl(cen['d3_1'])}\n"
               f"def decomp2Neg2 : List (Int × Int) := {tl(cen['d2_2'])}\n"
               f"def decomp2Neg1 : List Int := {tl(cen['d2_1'])}\n"
               "end NipyVerif.Gen.C15\n")
        from harness.props import c15_translate
        return [("NipyVerif/Gen/C15Tables.lean", txt)] + c15_translate.translate(REPO, TieBroken)

    # shapes (sha1 of the unparsed AST without docstring, centre literals masked) of the table builders the model
    # writes out by hand; an edit of their structure breaks the tie, an edit of a centre literal flows into Lean
    SHAPES = {"complex": "02dd5d89159f478c", "join_complexes": "18df53189eacfe58",
              "decompose3d": "1ef4728da8ba8e3c", "decompose2d": "bb0c8fbfe59feb79", "strides_from": "83e6e80fccb01001"}

    @staticmethod
    def _shape_of(fn):
        import hashlib
        import re
        fn = ast.parse(ast.unparse(fn)).body[0]
        if fn.body and isinstance(fn.body[0], ast.Expr) and isinstance(getattr(fn.body[0], "value", None), ast.Constant):
            fn.body = fn.body[1:]
        t = re.sub(r"cube_with_strides_center\(\((?:-?\d+,?\s*)+\)", "cube_with_strides_center((CENTER)", ast.unparse(fn))
        return hashlib.sha1(t.encode()).hexdigest()[:16]

    def _centre_tables(self, utils_tree):
        """the centre literals passed to cube_with_strides_center in intvol.pyx (EC/Lips) and utils.py (decompose*)"""
        import re
        fns = {n.name: n for n in utils_tree.body if isinstance(n, ast.FunctionDef)}
        try:
            atree = ast.parse(open(os.path.join(REPO, "nipy/utils/arrays.py")).read())
        except Exception as e:
            raise TieBroken(f"nipy/utils/arrays.py does not parse: {e}")
        fns.update({n.name: n for n in atree.body if isinstance(n, ast.FunctionDef) and n.name == "strides_from"})
        for name, want in self.SHAPES.items():
            if name not in fns:
                raise TieBroken(f"{name} not found")
            got = self._shape_of(fns[name])
            if got != want:
                raise TieBroken(f"{name} has an unexpected shape (fingerprint {got}, modelled {want})")

        def centres(fn):
            """[(centres of `union = …`, centre of the following `c = …`)] in source order"""
            out, cur = [], None
            for node in ast.walk(fn):
                pass
            for st in [n for n in ast.walk(fn) if isinstance(n, ast.Assign) and isinstance(n.targets[0], ast.Name)]:
                tgt = st.targets[0].id
                calls = [c for c in ast.walk(st.value) if isinstance(c, ast.Call) and
                         getattr(c.func, "id", None) == "cube_with_strides_center"]
                if tgt == "union" and calls:
                    try:
                        cur = [tuple(ast.literal_eval(c.args[0])) for c in calls]
                    except Exception:
                        raise TieBroken(f"{fn.name}: a neighbour centre is not a literal")
                    out.append([st.lineno, cur, None])
                elif tgt == "c" and calls:
                    ctr = tuple(ast.literal_eval(calls[0].args[0]))
                    cands = [o for o in out if o[0] < st.lineno and o[2] is None]
                    if not cands or any(ctr) or len(ctr) != len(cands[-1][1][0]):
                        raise TieBroken(f"{fn.name}: the cube at the voxel is not centred at the origin")
                    cands[-1][2] = ctr
            out.sort()
            if any(o[2] is None for o in out):
                raise TieBroken(f"{fn.name}: union without its origin cube")
            return [o[1] for o in out]
        d3, d2 = centres(fns["decompose3d"]), centres(fns["decompose2d"])
        if [len(x[0]) for x in d3] != [3, 2, 1] or [len(x[0]) for x in d2] != [2, 1]:
            raise TieBroken("decompose3d/2d: unexpected sequence of unions")
        res = {"d3_3": d3[0], "d3_2": d3[1], "d3_1": d3[2], "d2_2": d2[0], "d2_1": d2[1]}
        # intvol.pyx is not Python: the union blocks are matched textually
        try:
            txt = open(os.path.join(REPO, PYX)).read()
        except Exception as e:
            raise TieBroken(f"intvol.pyx unreadable: {e}")
        per = {}
        for name in ("EC3d", "Lips3d", "Lips2d", "EC2d"):
            m = re.search(rf"^def {name}\(.*?\):\n(.*?)(?=^def |^cpdef |\Z)", txt, re.S | re.M)
            if not m:
                raise TieBroken(f"{name} not found in intvol.pyx")
            body = "\n".join(l for l in m.group(1).splitlines() if not l.strip().startswith("#"))
            blocks = re.findall(r"union = join_complexes\(\*\[(.*?)\]\)\s*\n\s*c = cube_with_strides_center\(\(([\d, ]+)\), strides\)",
                                body, re.S)
            if len(blocks) != 1:
                raise TieBroken(f"{name}: expected one `union = join_complexes(*[…])` followed by the origin cube")
            inner, origin = blocks[0]
            items = [x.strip() for x in inner.split("cube_with_strides_center") if x.strip()]
            cs = []
            for it in items:
                mm = re.fullmatch(r"\(\(([\d, ]+)\), strides\),?", it)
                if not mm:
                    raise TieBroken(f"{name}: unexpected element of the union: {it[:40]!r}")
                cs.append(tuple(int(v) for v in mm.group(1).split(",")))
            if any(int(v) for v in origin.split(",")):
                raise TieBroken(f"{name}: the cube at the voxel is not centred at the origin")
            per[name] = cs
        if per["EC3d"] != per["Lips3d"] or per["EC2d"] != per["Lips2d"]:
            raise TieBroken("EC*d and Lips*d unite different neighbour cubes")
        if any(len(t) != 3 for t in per["EC3d"]) or any(len(t) != 2 for t in per["EC2d"]):
            raise TieBroken("neighbour centres of the wrong dimension")
        res["n3"], res["n2"] = per["EC3d"], per["EC2d"]
        return res

    def _lips3d_zero_dim_branch(self):
        """shape of the delegation block of Lips3d in the current intvol.pyx text"""
        import re
        try:
            txt = open(os.path.join(REPO, PYX)).read()
        except Exception as e:
            raise TieBroken(f"intvol.pyx unreadable: {e}")
        m = re.search(r"^def Lips3d\(coords, mask\):\n(.*?)^def ", txt, re.S | re.M)
        if not m:
            raise TieBroken("Lips3d not found in intvol.pyx")
        body = "\n".join(l for l in m.group(1).splitlines() if not l.strip().startswith("#"))
        blk = re.search(r"    mask = np\.squeeze\(mask\)\n    if mask\.ndim < 3:\n        value = np\.zeros\(4\)\n"
                        r"        coords = coords\.reshape\(\(coords\.shape\[0\],\) \+ mask\.shape\)\n"
                        r"        if mask\.ndim == 2:\n            value\[:3\] = Lips2d\(coords, mask\)\n"
                        r"        elif mask\.ndim == 1:\n            value\[:2\] = Lips1d\(coords, mask\)\n"
                        r"(        elif mask\.ndim == 0:\n            value\[0\] = check_cast_bin8\(mask\)\n)?"
                        r"        return value\n", body)
        if not blk:
            raise TieBroken("Lips3d: the squeeze / delegation block has an unexpected shape")
        return blk.group(1) is not None

    # ---- generation ------------------------------------------------------------
    def generate(self, rng, tier):
        quick = tier == "quick"
        cases = []

        def rand_mask(sh, p=None):
            p = rng.choice([0.3, 0.5, 0.7, 0.9]) if p is None else p
            n = int(np.prod(sh))
            return "".join("1" if rng.random() < p else "0" for _ in range(n))

        # simplex tables for a spread of shapes (incl. thin and empty axes)
        for sh in [(1,), (2,), (5,), (1, 1), (1, 3), (3, 1), (2, 2), (3, 4), (1, 1, 1), (2, 2, 3), (3, 1, 2),
                   (1, 4, 1), (4, 3, 2), (2, 3, 1), (5, 6, 7)]:
            cases.append({"kind": "tables", "shape": list(sh)})
        # exhaustive small domains named by the property
        if quick:
            for sh, n in [((3, 3), 140), ((2, 2, 3), 180), ((8,), 80)]:
                tot = 2 ** int(np.prod(sh))
                for v in sorted(rng.sample(range(tot), n)) + [tot - 1, 0, 1]:
                    cases.append({"kind": "ec", "shape": list(sh), "bits": format(v, f"0{int(np.prod(sh))}b")})
        else:
            for sh in [(3, 3), (2, 2, 3), (8,)]:
                nb = int(np.prod(sh))
                for v in range(2 ** nb):
                    cases.append({"kind": "ec", "shape": list(sh), "bits": format(v, f"0{nb}b")})
        # random masks on larger grids; solid boxes; full arrays (touch every face/edge/corner)
        n_r = 150 if quick else 1500
        shapes = [(5,), (11,), (4, 5), (6, 3), (1, 6), (6, 1), (3, 4, 2), (4, 4, 4), (2, 5, 3), (3, 3, 1), (1, 3, 3),
                  (3, 1, 3), (1, 1, 4), (5, 1, 1), (2, 2, 2), (3, 4), (7, 8), (0, 3), (2, 0, 2)]
        for _ in range(n_r):
            sh = rng.choice(shapes)
            r = rng.random()
            if r < 0.2:
                bits = "1" * int(np.prod(sh))
            elif r < 0.4 and int(np.prod(sh)) > 0:   # solid box somewhere, often touching the border
                lo = [rng.randrange(0, s) for s in sh]
                hi = [rng.randrange(l + 1, s + 1) for l, s in zip(lo, sh)]
                m = np.zeros(sh, dtype=int)
                m[tuple(slice(l, h) for l, h in zip(lo, hi))] = 1
                bits = _bits(m)
            else:
                bits = rand_mask(sh)
            cases.append({"kind": "ec", "shape": list(sh), "bits": bits, "layout": rng.choice(LAYOUTS),
                          "mdtype": rng.choice(MDTYPES)})
        # malformed masks (refusal branch)
        for _ in range(10 if quick else 60):
            sh = rng.choice([(4,), (2, 3), (2, 2, 2)])
            n = int(np.prod(sh))
            bits = list(rand_mask(sh))
            bits[rng.randrange(n)] = rng.choice(["2", "3", "7"])
            cases.append({"kind": "ec", "shape": list(sh), "bits": "".join(bits)})
        # Lips: masks + dyadic affine coordinate fields
        n_l = 110 if quick else 1400
        lshapes = [(2,), (5,), (8,), (2, 2), (3, 3), (3, 4), (4, 2), (1, 4), (3, 1), (2, 2, 2), (2, 2, 3), (3, 3, 3),
                   (3, 2, 4), (2, 3, 1), (1, 3, 2), (3, 1, 1), (1, 1, 3), (2, 1, 3), (1, 4, 1), (1,),
                   # a single voxel in a 3-d array, directly or as a 1 x 1 mask embedded as a thin slab: Lips3d returned
                   # zeros there (fixed in /repo 577b5e1: `elif mask.ndim == 0` branch; the model follows the source
                   # text through Gen.C15.lips3dZeroDim)
                   (1, 1, 1), (1, 1)]
        for t in range(n_l):
            sh = rng.choice(lshapes)
            d = len(sh)
            r = rng.random()
            if r < 0.3:
                bits = "1" * int(np.prod(sh))
            elif r < 0.45:
                lo = [rng.randrange(0, s) for s in sh]
                hi = [rng.randrange(l + 1, s + 1) for l, s in zip(lo, sh)]
                m = np.zeros(sh, dtype=int)
                m[tuple(slice(l, h) for l, h in zip(lo, hi))] = 1
                bits = _bits(m)
            else:
                bits = rand_mask(sh)
            N = rng.choice([d, d, d + 1, d + 2])
            kindA = rng.random()
            if kindA < 0.4:      # axis-aligned voxel sizes
                A = [[0.0] * d for _ in range(N)]
                for a in range(d):
                    A[a][a] = rng.choice([0.5, 1.0, 2.0, 3.0, 0.25, 1.5])
            else:
                # general dyadic affine (oblique, sheared, reflected); injective: a rank-deficient map
                # collapses simplices and the image is no longer a simplicial complex
                while True:
                    A = [[rng.choice([-2.0, -1.0, -0.5, 0.0, 0.0, 0.5, 1.0, 2.0, 1.5]) for _ in range(d)]
                         for _ in range(N)]
                    if np.linalg.matrix_rank(np.array(A)) == d:
                        break
            b = [rng.choice([0.0, 0.0, 1.0, -3.5, 8.0]) for _ in range(N)]
            # voxel sizes far from 1 in the units of the coordinates (millimetre voxels in metres, microns, ...):
            # every mu_j is homogeneous of degree j, no absolute size is special
            cs = rng.choice([1.0] * 5 + [2.0 ** -7, 2.0 ** -10, 2.0 ** -14, 2.0 ** 6])
            if cs != 1.0:
                A = [[v * cs for v in row] for row in A]
            cases.append({"kind": "lips", "shape": list(sh), "bits": bits, "A": A, "b": b,
                          "lam": rng.choice([0.5, 2.0, 3.0]),
                          "perm": list(rng.sample(range(d), d)),
                          "layout": rng.choice(LAYOUTS), "clayout": rng.choice(LAYOUTS),
                          "mdtype": rng.choice(MDTYPES)})
        # the driver's libm (certified sqrt, fixed-point acos) across magnitudes and near the ends of [-1, 1]
        for _ in range(30 if quick else 300):
            e = rng.choice([-60, -30, -14, -7, -2, 0, 1, 3, 10, 40])
            cases.append({"kind": "numq", "op": "sqrt", "x": rng.choice([1, 2, 3, 5, 7, 9, 10, 255, 1023]) * 2.0 ** e})
            k = rng.choice([1, 2, 3, 5, 10, 20, 30, 45, 52])
            x = rng.choice([rng.randrange(-1023, 1024) / 1024.0, 1 - 2.0 ** -k, -1 + 2.0 ** -k, 2.0 ** -k, -2.0 ** -k, 0.0])
            cases.append({"kind": "numq", "op": "acos", "x": x})
        cases.append({"kind": "numq", "op": "sqrt", "x": 0.0})
        # strides_from: dtypes of every item size (incl. the empty dtype), both orders and a refused one, ranks 0..5
        for _ in range(40 if quick else 400):
            rank = rng.choice([0, 1, 1, 2, 2, 3, 3, 3, 4, 5])
            cases.append({"kind": "strides", "shape": [rng.choice([0, 1, 1, 2, 3, 4, 5, 7, 12]) for _ in range(rank)],
                          "dtype": rng.choice(["bool", "i1", "u2", "i4", "f4", "f8", "i8", "c16", "S3", "U2", "V5", "V0"]),
                          "order": rng.choice(["C", "C", "C", "F", "F", "A"])})
        # utils.py table builders: cubes at any centre (negative too) and strides (degenerate ones collapse vertices),
        # decompose2d/3d of boxes incl. thin ones, every dim
        for _ in range(40 if quick else 500):
            d = rng.choice([1, 2, 2, 3, 3, 3])
            st = rng.choice([[1], [5], [3, 1], [1, 1], [4, 2], [12, 4, 1], [4, 2, 1], [2, 1, 1], [1, 1, 1], [6, 1, 3],
                             [9, 3, 1, 1], []])
            st = st if rng.random() < 0.15 else [rng.choice([1, 2, 3, 5, 12, 20]) for _ in range(d)]
            cen = [rng.choice([-2, -1, -1, 0, 0, 1, 3]) for _ in range(d if rng.random() < 0.9 else rng.choice([0, 4]))]
            cases.append({"kind": "tab", "op": "cubeflat", "k": rng.choice([1, 2, 2, 3, 3, 4, 5]), "center": cen,
                          "strides": st})
        for t in range(30 if quick else 400):
            d = rng.choice([2, 3])
            sh = [rng.choice([1, 2, 2, 3, 4, 5]) for _ in range(d)]
            cases.append({"kind": "tab", "op": "decompose", "shape": sh, "dim": rng.choice([1, 2, 2, 3, 3, 4, 4, 5])})
            if t % 3 == 0:
                cases.append({"kind": "tab", "op": "testec", "shape": sh})
        # the remaining public pieces of rft.py: ball / sphere search regions, scale space, one-sided F, the refusals
        for _ in range(40 if quick else 400):
            cases.append({"kind": "rftmisc", "n": rng.choice([1, 2, 3, 4, 5]), "r": rng.choice([0.5, 1.0, 2.0, 3.5]),
                          "vol": rng.choice([1.0, 8.0, 100.0, 0.125]), "dfn": rng.choice([2, 3, 4, 6]),
                          "dfd": rng.choice(["inf", 5, 12, 40.5]), "x": rng.choice([0.5, 1.0, 2.5, 4.0, 9.0]),
                          "w": rng.choice([[1.0, 2.0], [0.5, 4.0], [2.0, 2.5]]), "dim": rng.choice([0, 1, 2, 3])})
        # rft: Hermite / Q polynomials, quasi-polynomial arithmetic, densities
        for dim in range(-1, 9 if quick else 14):
            cases.append({"kind": "hermite", "dim": dim})
        for _ in range(40 if quick else 400):
            def q():
                return {"c": [float(rng.choice([-3, -2, -1, 0, 1, 2, 3, 0.5])) for _ in range(rng.choice([1, 2, 3, 4]))],
                        "e2": rng.choice([0, 1, 2, 3, 4, 7])}
            cases.append({"kind": "quasi", "op": rng.choice(["add", "mul", "deriv"]), "a": q(), "b": q(),
                          "m": rng.choice([1.0, 2.0, 4.0, 8.0, 0.5, 16.0]), "mb_differs": rng.random() < 0.1,
                          "x": rng.choice([-1.5, -0.25, 0.0, 0.5, 1.0, 2.0])})
        def eqq():
            return {"c": [float(rng.choice([-3, -2, -1, 0, 1, 2, 3, 0.5, 0.25])) for _ in range(rng.choice([1, 2, 3, 4]))],
                    "e2": rng.choice([0, 1, 2, 3, 4, 7]), "m": rng.choice([1.0, 2.0, 4.0, 4.0, 8.0, 0.5, 16.0, "inf", "inf"])}
        for _ in range(90 if quick else 900):
            a, b = eqq(), eqq()
            if rng.random() < 0.7:
                b["m"] = a["m"]
            if rng.random() < 0.15:
                b = dict(a, c=list(a["c"]) + [0.0] * rng.choice([0, 0, 1]))
            cases.append({"kind": "eq", "op": rng.choice(["chexp", "compat", "add", "sub", "mul", "smul", "pow", "deriv",
                                                           "deriv", "call", "call", "eqtest"]),
                          "a": a, "b": b, "k": rng.choice([0, 1, 2, 3, 0.5, -1, 1.5, 2.0, -2.5]), "n": rng.choice([1, 1, 2, 3]),
                          "x": rng.choice([-1.5, -0.25, 0.0, 0.5, 1.0, 2.0])})
        for _ in range(25 if quick else 250):
            cases.append({"kind": "qfin", "dim": rng.choice([-1, 0, 1, 2, 3, 4, 5, 6, 7, 9]),
                          "dfd": rng.choice([1, 2, 3, 4, 5, 6, 7, 10, 20, 40.5, 100])})
        for n in range(1, 13 if quick else 31):
            cases.append({"kind": "chi2coef", "n": n})
        for _ in range(15 if quick else 150):
            cases.append({"kind": "ivmul", "a": [float(rng.choice([0, 1, 2, 3, 0.5, 6.25])) for _ in range(rng.choice([1, 2, 3, 4]))],
                          "b": [float(rng.choice([0, 1, 2, 0.5, 4])) for _ in range(rng.choice([1, 1, 2, 3, 5]))]})
        for _ in range(60 if quick else 700):
            st = rng.choice(["gauss", "t", "chi2", "chi2", "F", "F", "hotelling", "roy", "mlf"])
            cc = {"stat": st, "dfn": rng.choice([1, 2, 3, 4, 5, 6]), "k": rng.choice([1, 2, 3]),
                  "dfd": rng.choice(["inf", 3, 4, 5, 7, 10, 20, 40.5]) if st != "t" else rng.choice([3, 4, 5, 7, 10, 20, 40.5]),
                  "dims": [rng.choice([1, 2, 3]) for _ in range(rng.choice([1, 2]))]}
            if st == "gauss":
                cc["mu"] = [float(rng.choice([0, 1, 2, 0.5])) for _ in range(rng.choice([1, 1, 2, 3]))]
            if st == "mlf":
                cc["dfd"] = "inf"
            if rng.random() < 0.5:
                cases.append(dict(cc, kind="quasiasm", dim=rng.choice([0, 1, 1, 2, 3, 4])))
            else:
                xx = rng.choice([0.25, 0.5, 1.0, 1.75, 2.5, 3.0, 4.5])
                if st in ("gauss", "t") and rng.random() < 0.35:
                    xx = -xx
                cases.append(dict(cc, kind="eccone", x=xx,
                                  search=[float(rng.choice([0, 0, 1, 2, 0.5, 10])) for _ in range(rng.choice([1, 2, 3, 4]))]))
        # wave 5: histories on ONE statistic object (evaluations interleaved with observations of the object through
        # the generic cone API: the object is a value) and thresholds / search regions presented as arrays of other
        # dtypes, layouts and ranks (batch evaluation = element-wise evaluation; the caller's arrays stay untouched)
        def cone_params(stats):
            st = rng.choice(stats)
            cc = {"stat": st, "dfn": rng.choice([1, 2, 3, 4, 5, 6]), "k": rng.choice([1, 2, 3]),
                  "dfd": rng.choice(["inf", 3, 4, 5, 7, 10, 20, 40.5]) if st != "t" else rng.choice([3, 4, 5, 7, 10, 20, 40.5]),
                  "dims": [rng.choice([1, 2, 3]) for _ in range(rng.choice([1, 2]))]}
            if st == "gauss":
                cc["mu"] = [float(rng.choice([0, 1, 2, 0.5])) for _ in range(rng.choice([1, 1, 2, 3]))]
            if st == "mlf":
                cc["dfd"] = "inf"
            if st == "osf":
                cc["dfn"] = rng.choice([2, 3, 4, 5])
            return cc
        for _ in range(50 if quick else 600):
            cc = cone_params(["gauss", "t", "chi2", "F", "hotelling", "roy", "mlf", "osf", "osf"])
            ops = []
            for _k in range(rng.choice([1, 1, 2, 3])):
                ops.append({"op": rng.choice(["call", "call", "density", "pvalue", "quasi"]),
                            "x": rng.choice([0.25, 0.5, 1.0, 1.75, 2.5, 3.0, 4.5]), "dim": rng.choice([0, 1, 2, 3]),
                            "search": [float(rng.choice([0, 1, 1, 2, 0.5, 10])) for _ in range(rng.choice([1, 2, 3]))],
                            "as": rng.choice(["list", "tuple", "int", "iv", "f32", "none"])})
            cases.append(dict(cc, kind="stathist", ops=ops, dim0=rng.choice([0, 1, 1, 2, 3]),
                              x0=rng.choice([0.5, 1.0, 1.5, 2.5, 4.0])))
        for _ in range(40 if quick else 500):
            cc = cone_params(["gauss", "t", "chi2", "F", "hotelling", "roy", "mlf"])
            shp = rng.choice([[], [1], [2], [3], [2, 2], [1, 3], [0], [2, 0]])
            n = int(np.prod(shp)) if shp else 1
            xs = [rng.choice([0.25, 0.5, 1.0, 1.75, 2.0, 3.0, 4.5, 6.0]) for _ in range(n)]
            pres = rng.choice(["list", "f64", "f64-F", "f32", "int", "strided", "readonly", "neg-stride"])
            if pres == "int":
                xs = [float(rng.choice([0, 1, 2, 3, 4, 6])) for _ in range(n)]
            if cc["stat"] in ("gauss", "t") and rng.random() < 0.4:
                xs = [-v for v in xs]
            cases.append(dict(cc, kind="ecvec", shape=shp, xs=xs, pres=pres,
                              search=[float(rng.choice([0, 0, 1, 2, 0.5, 10])) for _ in range(rng.choice([1, 2, 3]))],
                              search_as=rng.choice(["list", "tuple", "int", "iv", "f32"])))
        n_d = 160 if quick else 2500
        for _ in range(n_d):
            stat = rng.choice(["gauss", "t", "F", "F", "chi2", "chi2", "hotelling", "mlf", "chi2_dfd", "F_inf"])
            dfn = rng.choice([1, 2, 3, 4, 5, 6, 8, 12])
            dfd = rng.choice([1, 2, 3, 4, 5, 7, 10, 20, 40.5, 100, 1000])
            dim = rng.choice([0, 0, 1, 2, 3])
            x = rng.choice([0.25, 0.5, 1.0, 1.75, 2.5, 3.0, 4.5, 6.0, 9.0])
            if stat in ("gauss", "t") and rng.random() < 0.35:
                x = -x if rng.random() < 0.85 else 0.0       # thresholds below zero: fields on the whole line
            cases.append({"kind": "density", "stat": stat, "dfn": dfn, "dfd": dfd, "dim": dim, "x": x})
        return cases

    # ---- per case ----------------------------------------------------------------
    def run_case(self, case):
        warnings.filterwarnings("ignore")
        return getattr(self, "_" + case["kind"])(case)

    def _iv(self):
        from harness.decython import load_pyx
        from nipy.algorithms.statistics import intvol as so
        return load_pyx(PYX), so

    def _tables(self, c):
        from nipy.algorithms.statistics.utils import cube_with_strides_center, join_complexes
        from nipy.utils.arrays import strides_from
        sh = tuple(c["shape"])
        d = len(sh)
        pshape = np.array(sh) + 1
        strides = np.array(strides_from(pshape, np.bool_), dtype=np.intp)
        centers = [p for p in itertools.product((0, 1), repeat=d) if any(p)]
        union = join_complexes(*[cube_with_strides_center(p, strides) for p in centers])
        cc = cube_with_strides_center((0,) * d, strides)
        lines, impl = [], []
        st = [int(s) for s in strides] + [0] * (3 - d)
        for k in range(2, d + 2):
            uniq = cc[k].difference(union[k])
            impl.append(sorted(tuple(int(v) for v in s) for s in uniq))
            lines.append(f"table {d} {k} {st[0]} {st[1]} {st[2]}")
        return {"lines": lines, "impl": [("table", t) for t in impl], "oracle": None,
                "nontrivial": True, "tags": [f"tables{d}d"], "mutated": None}

    def _call(self, f, *a):
        from harness.util import errname
        try:
            return f(*a)
        except Exception as e:    # noqa: BLE001
            return errname(e)

    def _ec(self, c):
        iv, so = self._iv()
        mask = _mask_of(c)
        d = mask.ndim
        f = {1: "EC1d", 2: "EC2d", 3: "EC3d"}[d]
        binary = set(c["bits"]) <= {"0", "1"}
        tags = [f"ec{d}d"]
        lay, mdt = c.get("layout", "C"), c.get("mdtype", "int64")
        if not binary:
            mdt = "int64"
        tags += [f"layout={lay}", f"mask-dtype={mdt}"]
        val = self._call(getattr(iv, f), _present(mask, lay, mdt))
        sov = self._call(getattr(so, f), _present(mask, lay, mdt))
        if str(sov) != str(val) and not (isinstance(val, (int, float)) and isinstance(sov, (int, float)) and val == sov):
            tags.append("so-differs")
        line = f"ec{d} " + _mask_line(mask)
        if not binary:
            ok = isinstance(val, str) and val == "error:valueError"
            return {"lines": [line], "impl": [("ec", val, d)],
                    "oracle": None if ok else f"{f} accepted a non-binary mask {mask.tolist()} and returned {val}",
                    "nontrivial": True, "tags": tags + ["non-binary"], "mutated": None}
        if isinstance(val, str):
            return {"lines": [], "impl": [], "nontrivial": True, "tags": tags + ["raised"],
                    "oracle": f"{f} raised {val} on a binary mask of shape {mask.shape}"}
        fail = None
        ref = reference_ec(mask)
        if val != ref:
            fail = (f"{f}(mask) = {val} but the simplicial complex of the mask (all lattice-triangulation simplices "
                    f"with vertices in the mask) has Euler characteristic {ref}; mask={mask.tolist()}")
        if fail is None and mask.size and mask.all() and val != 1:
            fail = f"{f} of a solid {mask.shape} box is {val}, not 1"
        # invariances (on the real code, against its own value)
        if fail is None:
            rs = np.random.RandomState(int(c["bits"] or "0", 2) % (2 ** 31) + 7 * d)
            pad = [int(v) for v in rs.randint(0, 3, size=d)]
            big = tuple(s + p + int(q) for s, p, q in zip(mask.shape, pad, rs.randint(0, 3, size=d)))
            v2 = self._call(getattr(iv, f), _embed(mask, big, pad))
            if v2 != val:
                fail = f"{f} changes from {val} to {v2} when the mask is placed at offset {pad} in an array of shape {big}"
        if fail is None and d >= 2:
            perm = [1, 0] if d == 2 else [[1, 0, 2], [0, 2, 1], [2, 0, 1]][int(c["bits"][:3] or "0", 2) % 3]
            v3 = self._call(getattr(iv, f), np.ascontiguousarray(mask.transpose(perm)))
            if v3 != val:
                fail = f"{f} changes from {val} to {v3} under the axis permutation {perm}"
        if fail is None and d < 3:
            # thin-slab embeddings in the next dimension
            g = {1: "EC2d", 2: "EC3d"}[d]
            for ax in range(d + 1):
                v4 = self._call(getattr(iv, g), np.expand_dims(mask, ax))
                if v4 != val:
                    fail = (f"{f}(mask) = {val} but {g} of the same mask embedded as a thin slab "
                            f"(new axis {ax}) = {v4}; mask={mask.tolist()}")
                    break
        tags.append("solid" if mask.size and mask.all() else "empty" if not mask.any() else "generic")
        if mask.size and mask.flat[0]:
            tags.append("touches-origin")
        return {"lines": [line], "impl": [("ec", val, d)], "oracle": fail,
                "nontrivial": bool(mask.size) and ref != int(mask.sum()), "tags": tags, "mutated": None}

    def _lips(self, c):
        iv, so = self._iv()
        from harness.util import Snapshot
        mask = _mask_of(c)
        d = mask.ndim
        f = {1: "Lips1d", 2: "Lips2d", 3: "Lips3d"}[d]
        coords = _affine_coords(mask.shape, c["A"], c["b"])
        tags = [f"lips{d}d", f"N={coords.shape[0]}"]
        lay, clay, mdt = c.get("layout", "C"), c.get("clayout", "C"), c.get("mdtype", "int64")
        tags += [f"layout={lay}", f"coords-layout={clay}", f"mask-dtype={mdt}"]
        pmask, pcoords = _present(mask, lay, mdt), _present(coords, clay)
        snap = Snapshot(mask=pmask, coords=pcoords)
        val = self._call(getattr(iv, f), pcoords, pmask)
        mut = snap.changed()
        sov = self._call(getattr(so, f), _present(coords, clay), _present(mask, lay, mdt))
        if isinstance(val, str) or isinstance(sov, str):
            if str(val) != str(sov):
                tags.append("so-differs")
        elif not np.allclose(val, sov, rtol=1e-9, atol=1e-9):
            tags.append("so-differs")
        if isinstance(val, str):
            return {"lines": [], "impl": [], "nontrivial": True, "tags": tags + ["raised"], "mutated": mut,
                    "oracle": f"{f} raised {val} on a binary mask of shape {mask.shape} with affine coordinates"}
        val = [float(v) for v in val]
        # the model works on the squeezed problem exactly as Lips3d/Lips2d delegate
        sq = np.squeeze(mask) if d == 3 else mask
        if d == 3 and sq.ndim < 3:
            cs = coords.reshape((coords.shape[0],) + sq.shape)
            dd = sq.ndim
        else:
            cs, dd = coords, d
        # mu_j is homogeneous of degree j in the coordinates: the tolerance of mu_j is relative to h^j, h the
        # largest voxel step (an absolute tolerance would hide a wrong mu_3 of small voxels, and raise false
        # alarms on large ones)
        h = max([abs(v) for row in c["A"] for v in row] + [2.0 ** -40])
        hs = max(1.0, float(max(mask.shape)))
        tols = [1e-9 * max(1, mask.size) * max((h * hs) ** j, 2.0 ** -1000) for j in range(5)]
        tol = tols[0]
        lines, impl = [], []
        if dd >= 1 and sq.size:
            ctxt = f" {cs.shape[0]} " + " ".join(frs(cs[a].ravel().tolist()) for a in range(cs.shape[0]))
            lines += [f"lips {dd} " + _mask_line(sq) + ctxt, f"lipsspec {dd} " + _mask_line(sq) + ctxt]
            impl += [("lips", val, dd), ("lipsvec", val, dd, tols)]
        if mask.size:
            # the function as written, on the caller's shape (squeeze / delegation inside the model)
            lines.append(f"lipsloop {d} " + _mask_line(mask) + f" {coords.shape[0]} " +
                         " ".join(frs(coords[a].ravel().tolist()) for a in range(coords.shape[0])))
            impl.append(("lipsvec", val, d, tols))
        fail = None
        ref = reference_mu(mask, coords)
        for j, (a, b) in enumerate(zip(val, ref + [0.0] * (len(val) - len(ref)))):
            if abs(a - b) > tols[j]:
                fail = (f"{f}: mu{j} = {a!r} but the simplicial complex of the mask has mu{j} = {b!r} "
                        f"(mask={mask.tolist()}, A={c['A']}, b={c['b']})")
                break
        A = np.asarray(c["A"], dtype=float)
        axis_aligned = A.shape[0] >= d and all(A[a, a] > 0 for a in range(d)) and \
            np.count_nonzero(A) == d
        if fail is None and mask.all() and axis_aligned:
            e = [(s - 1) * A[a, a] for a, s in enumerate(mask.shape)]
            box = [1.0, sum(e), sum(x * y for x, y in itertools.combinations(e, 2)), float(np.prod(e)) if d == 3 else 0.0]
            box = box[:d + 1]
            for j, (a, b) in enumerate(zip(val, box)):
                if abs(a - b) > tols[j]:
                    fail = f"{f}: solid box with edge lengths {e}: mu{j} = {a!r}, expected {b!r}"
                    break
            tags.append("box")
        if fail is None:   # rescaling of coordinates: mu_j scales by lam^j
            lam = c["lam"]
            v2 = self._call(getattr(iv, f), coords * lam, mask)
            if isinstance(v2, str) or any(abs(float(x) - lam ** j * y) > tols[j] * max(1.0, lam ** j) for j, (x, y) in enumerate(zip(v2, val))):
                fail = f"{f}: rescaling the coordinates by {lam} gives {v2}, expected mu_j * {lam}^j of {val}"
        if fail is None:   # position / padding
            rs = np.random.RandomState(len(c["bits"]) * 31 + int(c["bits"][:24] or "0", 2))
            pad = [int(v) for v in rs.randint(0, 3, size=d)]
            big = tuple(s + p + int(q) for s, p, q in zip(mask.shape, pad, rs.randint(0, 2, size=d)))
            v3 = self._call(getattr(iv, f), _affine_coords(big, c["A"], c["b"]), _embed(mask, big, pad))
            if isinstance(v3, str) or any(abs(float(x) - y) > tols[j] for j, (x, y) in enumerate(zip(v3, val))):
                fail = f"{f}: placing the mask at offset {pad} in an array of shape {big} changes {val} to {v3}"
        if fail is None and d >= 2:   # axis permutation (mask and coordinate field together)
            perm = c["perm"]
            # permuted as callers do it: transposed views (not re-packed) when the case asks for a non-C layout
            pc, pm = coords.transpose([0] + [p + 1 for p in perm]), mask.transpose(perm)
            if lay == "C":
                pc, pm = np.ascontiguousarray(pc), np.ascontiguousarray(pm)
            v4 = self._call(getattr(iv, f), pc, pm)
            if isinstance(v4, str) or any(abs(float(x) - y) > tols[j] for j, (x, y) in enumerate(zip(v4, val))):
                fail = f"{f}: axis permutation {perm} changes {val} to {v4}"
        if fail is None and d < 3:    # thin slab in the next dimension
            g = {1: "Lips2d", 2: "Lips3d"}[d]
            ax = len(c["bits"]) % (d + 1)
            v5 = self._call(getattr(iv, g), np.expand_dims(coords, ax + 1), np.expand_dims(mask, ax))
            if isinstance(v5, str) or any(abs(float(x) - y) > tols[j] for j, (x, y) in enumerate(zip(list(v5), val + [0.0]))):
                fail = f"{g} of the mask embedded as a thin slab (axis {ax}) = {v5}, but {f} = {val}"
        ec = self._call(getattr(iv, f.replace("Lips", "EC")), mask)
        if fail is None and ec != val[0]:
            fail = f"{f}[0] = {val[0]} but {f.replace('Lips', 'EC')} = {ec}"
        return {"lines": lines, "impl": impl, "oracle": fail, "nontrivial": mask.sum() >= 2,
                "tags": tags, "mutated": mut}

    def _numq(self, c):
        """the driver's instantiation of libm: certified `sqrtQ`, fixed-point `acosQ` against math.sqrt / math.acos"""
        x = c["x"]
        if c["op"] == "sqrt":
            return {"lines": [f"sqrtq {fr(x)}"], "impl": [("num", math.sqrt(x) if x > 0 else 0.0)], "oracle": None,
                    "nontrivial": x > 0, "tags": ["numq-sqrt"], "mutated": None}
        return {"lines": [f"acosq {fr(x)}"], "impl": [("num", math.acos(x))], "oracle": None,
                "nontrivial": True, "tags": ["numq-acos"], "mutated": None}

    def _strides(self, c):
        from nipy.utils.arrays import strides_from
        from harness.util import errname
        shape, dt, order = tuple(c["shape"]), c["dtype"], c["order"]
        try:
            got = strides_from(shape, dt, order)
            obs = [int(v) for v in got]
        except Exception as e:   # noqa: BLE001
            got, obs = None, errname(e)
        fail = None
        item = np.dtype(dt).itemsize
        if order not in ("C", "F") or item == 0:
            if obs != "error:valueError":
                fail = f"strides_from({shape}, {dt!r}, order={order!r}) = {obs}, expected ValueError"
        elif isinstance(obs, str):
            fail = f"strides_from({shape}, {dt!r}, order={order!r}) raised {obs}"
        elif shape and all(v >= 1 for v in shape):
            ref = [int(v) for v in np.empty(shape, dtype=dt, order=order).strides]
            if obs != ref:
                fail = f"strides_from({shape}, {dt!r}, order={order!r}) = {obs} but a contiguous array has strides {ref}"
            elif not isinstance(got, tuple):
                fail = f"strides_from returned {type(got).__name__}, not a tuple"
        lines, impl = [], []
        if order in ("C", "F"):
            lines = [f"strides {item} {1 if order == 'F' else 0} {len(shape)} " + " ".join(str(v) for v in shape)]
            impl = [("strides", obs)]
        return {"lines": lines, "impl": impl, "oracle": fail, "nontrivial": len(shape) >= 2,
                "tags": [f"strides-{order}", f"itemsize={item}"], "mutated": None}

    def _tab(self, c):
        """utils.py table builders on flat (possibly negative) indices: cube_with_strides_center(centre, strides)[k],
        list(decompose2d/3d(shape, dim)); sets / generators in the code, compared as sorted lists"""
        from nipy.algorithms.statistics import utils as U
        from harness.util import errname
        tags = ["tab-" + c["op"]]
        fail = None
        if c["op"] == "cubeflat":
            k, cen, st = c["k"], c["center"], c["strides"]
            try:
                fs = U.cube_with_strides_center(tuple(cen), tuple(st))[k]
                obs = sorted(((int(v),) if not isinstance(v, tuple) else tuple(int(x) for x in v)) for v in fs)
            except Exception as e:   # noqa: BLE001
                obs = errname(e)
            line = f"cubeflat {k} {len(cen)} " + " ".join(map(str, cen)) + f" {len(st)} " + " ".join(map(str, st))
            return {"lines": [line], "impl": [("tab", obs)], "oracle": None, "nontrivial": k >= 2, "tags": tags,
                    "mutated": None}
        if c["op"] == "testec":
            # test_EC2 / test_EC3: numbers of simplices of every dimension of the triangulated box and their
            # alternating sum
            sh = tuple(c["shape"])
            d = len(sh)
            res = [int(v) for v in (U.test_EC3(sh) if d == 3 else U.test_EC2(sh))]
            counts, ec = res[:-1], res[-1]          # (tetrahedra,) triangles, edges, vertices
            ref = [sum(1 for s in complex_of(np.ones(sh, dtype=int)) if len(s) == k) for k in range(d + 1, 0, -1)]
            fail = None
            if counts != ref:
                fail = f"test_EC{d}({sh}) counts {counts} but the triangulated box has {ref} simplices (top dimension first)"
            elif ec != 1:
                fail = f"test_EC{d}({sh}): Euler characteristic of a solid box = {ec}"
            lines = [f"decompose {d} {k} {d} " + " ".join(map(str, sh)) for k in range(d + 1, 0, -1)]
            return {"lines": lines, "impl": [("count", n) for n in counts], "oracle": fail, "nontrivial": min(sh) >= 2,
                    "tags": tags, "mutated": None}
        sh, dim = tuple(c["shape"]), c["dim"]
        d = len(sh)
        f = U.decompose3d if d == 3 else U.decompose2d
        try:
            out = list(f(sh, dim))
            obs = sorted(((int(v),) if np.ndim(v) == 0 else tuple(int(x) for x in v)) for v in out)
        except Exception as e:   # noqa: BLE001
            obs = errname(e)
            fail = f"decompose{d}d({sh}, dim={dim}) raised {obs}"
        if fail is None and 1 <= dim <= d + 1:
            # property: the simplices of the lattice triangulation of the solid box, each once
            ref = sorted(tuple(int(np.ravel_multi_index(v, sh)) for v in s)
                         for s in complex_of(np.ones(sh, dtype=int)) if len(s) == dim)
            if obs != ref:
                extra = [t for t in obs if t not in ref][:3]
                miss = [t for t in ref if t not in obs][:3]
                fail = (f"decompose{d}d({sh}, dim={dim}) is not the set of {dim}-vertex simplices of the triangulated "
                        f"box: {len(obs)} vs {len(ref)} simplices, e.g. extra {extra} missing {miss}")
        line = f"decompose {d} {dim} {d} " + " ".join(map(str, sh))
        return {"lines": [line], "impl": [("tab", obs)], "oracle": fail, "nontrivial": dim >= 2 and min(sh) >= 2,
                "tags": tags + [f"dim{dim}"], "mutated": None}

    # ---- rft: ECquasi operations, Q for finite dfd, IntrinsicVolumes product, ECcone assembly -----------------
    @staticmethod
    def _mk_eq(rft, q):
        m = np.inf if q["m"] == "inf" else float(q["m"])
        return rft.ECquasi(list(q["c"])[::-1], m=m, exponent=q["e2"] / 2)

    @staticmethod
    def _eq_txt(q):
        m = "inf" if q["m"] == "inf" else fr(float(q["m"]))
        return f"{len(q['c'])} {frs(q['c'])} {m} {q['e2']}"

    @staticmethod
    def _eq_obs(r):
        from nipy.algorithms.statistics import rft
        if r is None:
            return ("none",)
        if isinstance(r, rft.ECquasi):
            m = "inf" if not np.isfinite(r.m) else float(r.m)
            return ("eqres", m, int(round(2 * r.exponent)), [float(v) for v in r.coeffs[::-1]])
        return ("eqres", "inf", 0, [float(v) for v in np.poly1d(r).coeffs[::-1]])

    def _eq(self, c):
        from nipy.algorithms.statistics import rft
        from harness.util import errname
        op, x = c["op"], c["x"]
        a, b = self._mk_eq(rft, c["a"]), self._mk_eq(rft, c["b"])
        ta, tb = self._eq_txt(c["a"]), self._eq_txt(c["b"])

        def val(q, xx=x):
            mm = np.inf if q["m"] == "inf" else float(q["m"])
            e = 0.0 if q["m"] == "inf" else q["e2"] / 2
            return float(np.polyval(list(q["c"])[::-1], xx)) * (1 + xx * xx / mm) ** (-e)
        fail, want = None, None
        mm = np.inf if c["a"]["m"] == "inf" else float(c["a"]["m"])
        line = {"chexp": f"eq chexp {ta} {fr(float(c['k']))}", "compat": f"eq compat {ta} {tb}", "add": f"eq add {ta} {tb}",
                "sub": f"eq sub {ta} {tb}", "mul": f"eq mul {ta} {tb}", "smul": f"eq smul {ta} {fr(float(c['k']))}",
                "pow": f"eq pow {ta} {int(c['n'])}", "deriv": f"eq deriv {ta} {int(c['n'])}",
                "call": f"eq call {ta} {fr(x)} {fr(math.sqrt(1 + x * x / mm))}", "eqtest": f"eq eqtest {ta} {tb}"}[op]
        try:
            if op == "chexp":
                r = a.change_exponent(c["k"]); want = val(c["a"])
            elif op == "compat":
                r = bool(a.compatible(b))
            elif op == "eqtest":
                r = bool(a == b)
                if bool(a != b) == r:
                    fail = f"ECquasi == and != agree ({r}) for {c['a']} and {c['b']}"
            elif op == "add":
                r = a + b; want = val(c["a"]) + val(c["b"])
            elif op == "sub":
                r = a - b; want = val(c["a"]) - val(c["b"])
            elif op == "mul":
                r = a * b; want = val(c["a"]) * val(c["b"])
            elif op == "smul":
                r = a * float(c["k"]); want = val(c["a"]) * float(c["k"])
            elif op == "pow":
                r = a ** int(c["n"]); want = val(c["a"]) ** int(c["n"])
            elif op == "deriv":
                n = int(c["n"]); r = a.deriv(m=n)
                h = 1e-3
                if n == 1:
                    want = (val(c["a"], x + h) - val(c["a"], x - h)) / (2 * h)
                elif n == 2:
                    want = (val(c["a"], x + h) - 2 * val(c["a"]) + val(c["a"], x - h)) / (h * h)
            else:   # call
                r = float(a(x)); want = None
                if not close(r, val(c["a"]), 1e-9, 1e-12):
                    fail = f"ECquasi.__call__({x}) = {r}, expected {val(c['a'])} for {c['a']}"
            if isinstance(r, bool):
                obs = ("flag", int(r))
                if op == "compat" and r != (c["a"]["m"] == c["b"]["m"]):
                    fail = f"compatible({c['a']['m']}, {c['b']['m']}) = {r}"
            elif isinstance(r, float):
                obs = ("num-rel", r)
            else:
                obs = self._eq_obs(r)
                if r is not None and want is not None:
                    got = float(r(x))
                    tol = (1e-4 if op == "deriv" else 1e-9) * max(1.0, abs(want), *[abs(v) for v in c["a"]["c"]])
                    if not abs(got - want) <= tol:
                        fail = f"ECquasi {op}: value at x={x} is {got!r}, expected {want!r} (a={c['a']}, b={c['b']}, k={c.get('k')}, n={c.get('n')})"
        except Exception as e:   # noqa: BLE001
            obs = ("err", errname(e))
        return {"lines": [line], "impl": [obs], "oracle": fail, "nontrivial": len(c["a"]["c"]) >= 2,
                "tags": ["eq-" + op, "m=inf" if c["a"]["m"] == "inf" else "m-finite"], "mutated": None}

    def _rftmisc(self, c):
        """ball / sphere search regions against their closed forms, scale_space and OneSidedF executed on valid
        arguments, the two NotImplementedError stubs; oracle only (no model line)"""
        from scipy.special import gamma as G
        from nipy.algorithms.statistics import rft
        n, r, fail = c["n"], c["r"], None
        try:
            ball = rft.ball_search(n, r=r).mu
            omega = lambda k: math.pi ** (k / 2) / G(k / 2 + 1)
            # Steiner: mu_j(B_n(r)) = C(n, j) omega_n / omega_{n-j} r^j
            ref = [math.comb(n, j) * omega(n) / omega(n - j) * r ** j for j in range(n + 1)]
            if not np.allclose(ball, ref, rtol=1e-10, atol=0):
                fail = f"ball_search({n}, r={r}) = {ball.tolist()}, the ball has intrinsic volumes {ref}"
            sph = rft.spherical_search(n, r=r).mu
            # the sphere S_r(R^n): mu_j = 2 C(n-1, j) s_n / s_{n-j} r^j for n-1-j even (s_k the area of the unit
            # sphere of R^k), 0 otherwise
            area = lambda k: 2 * math.pi ** (k / 2) / G(k / 2)
            refs = [2 * math.comb(n - 1, j) * area(n) / area(n - j) * r ** j if (n - 1 - j) % 2 == 0 else 0.0
                    for j in range(n)]
            if fail is None and not np.allclose(sph, refs, rtol=1e-10, atol=0):
                fail = f"spherical_search({n}, r={r}) = {sph.tolist()}, expected {refs}"
            if fail is None and abs(sph[n - 1] - n * omega(n) * r ** (n - 1)) > 1e-10 * max(1.0, sph[n - 1]):
                fail = f"spherical_search({n}, r={r}): top curvature {sph[n - 1]} is not the surface area"
            v2b = rft.volume2ball(c["vol"], d=n).mu
            if fail is None and abs(v2b[-1] - c["vol"]) > 1e-10 * c["vol"]:
                fail = f"volume2ball({c['vol']}, d={n}) has volume {v2b[-1]}"
            if fail is None and rft.volume2ball(c["vol"], d=0).mu.tolist() != [1.0]:
                fail = "volume2ball(d=0) is not a point"
            ss = rft.scale_space(ball, c["w"]).mu
            if fail is None and not (np.all(np.isfinite(ss)) and ss.shape == (n + 2,) and ss[0] == ball[0]):
                fail = f"scale_space(ball_search({n}), {c['w']}) = {ss.tolist()}"
            dfd = np.inf if c["dfd"] == "inf" else float(c["dfd"])
            osf = rft.OneSidedF(dfn=c["dfn"], dfd=dfd)
            v = float(osf.density(c["x"], c["dim"]))
            if fail is None and not math.isfinite(v):
                fail = f"OneSidedF(dfn={c['dfn']}, dfd={c['dfd']}).density({c['x']}, {c['dim']}) = {v}"
            if fail is None and not np.allclose(osf.mu, rft.spherical_search(c["dfn"]).mu):
                fail = "OneSidedF.__call__ does not restore its intrinsic volumes"
            # what the one-sided F density denotes: half the difference of the cone densities over the spheres
            # S^{dfn-1} and S^{dfn-2} (each on a FRESH cone), and in dimension 0 half the difference of two F tails
            from scipy import stats as _st
            dfn_, x_, dim_ = c["dfn"], float(c["x"]), c["dim"]
            want = 0.5 * (float(rft.ECcone(mu=rft.spherical_search(dfn_).mu, dfd=dfd).density(math.sqrt(x_ * dfn_), dim_))
                          - float(rft.ECcone(mu=rft.spherical_search(dfn_ - 1).mu, dfd=dfd)
                                  .density(math.sqrt(x_ * (dfn_ - 1)), dim_)))
            for rep in range(2):        # the same object evaluated again answers the same
                v = float(osf.density(x_, dim_))
                if fail is None and abs(v - want) > 1e-9 * max(abs(want), abs(v)) + 1e-13:
                    fail = (f"OneSidedF(dfn={dfn_}, dfd={c['dfd']}).density({x_}, {dim_}) = {v!r} (evaluation {rep + 2} of "
                            f"the object); half the difference of the two sphere-cone densities is {want!r}")
            if fail is None:
                sf = (lambda t, m: _st.chi2.sf(t * m, m)) if not np.isfinite(dfd) else (lambda t, m: _st.f.sf(t, m, dfd))
                tail = 0.5 * (sf(x_, dfn_) - sf(x_, dfn_ - 1))
                v0 = float(osf.density(x_, 0))
                if abs(v0 - tail) > 1e-8 * max(abs(tail), abs(v0)) + 1e-12:
                    fail = (f"OneSidedF(dfn={dfn_}, dfd={c['dfd']}).density({x_}, 0) = {v0!r}, but "
                            f"(P(F_{{{dfn_},dfd}} > x) - P(F_{{{dfn_ - 1},dfd}} > x)) / 2 = {tail!r}")
            # a cone is a function of its current intrinsic volumes: after they are replaced (as OneSidedF does on
            # itself) an object that has been evaluated before answers like a fresh one
            if fail is None:
                cone = rft.ECcone(mu=rft.spherical_search(dfn_).mu, dfd=dfd)
                cone.density(math.sqrt(x_), dim_)
                rft.IntrinsicVolumes.__init__(cone, rft.spherical_search(n))
                got = float(cone.density(math.sqrt(x_), dim_))
                ref = float(rft.ECcone(mu=rft.spherical_search(n).mu, dfd=dfd).density(math.sqrt(x_), dim_))
                if abs(got - ref) > 1e-10 * max(abs(ref), abs(got)) + 1e-14:
                    fail = (f"ECcone over S^{dfn_ - 1} evaluated, then given the intrinsic volumes of S^{n - 1}: "
                            f"density({math.sqrt(x_)}, {dim_}) = {got!r}, a fresh cone over S^{n - 1} gives {ref!r}")
            for what, f in (("ECcone.integ", lambda: rft.Gaussian().integ()),
                            ("ECquasi.__div__", lambda: rft.ECquasi([1]).__div__(2))):
                try:
                    f(); fail = fail or f"{what} did not raise NotImplementedError"
                except NotImplementedError:
                    pass
        except Exception as e:   # noqa: BLE001
            fail = f"rft search-region helpers raised {type(e).__name__}: {e} on {c}"
        return {"lines": [], "impl": [], "oracle": fail, "nontrivial": n >= 2, "tags": ["rftmisc"], "mutated": None}

    def _chi2coef(self, c):
        """the identification used by chi2_density_closed_form: the sphere curvatures over powers of 2 pi are
        kappa_n * N! / (2^j j! k!) with k = N - 2j, N = n - 1, kappa_n = sqrt(pi) 2^(1 - N/2) / Gamma(n/2)
        (a Gamma-function identity at half-integers: numeric); also against the model's `hinv` through `quasi` lines
        is not needed - the coefficients are exact rationals"""
        from scipy.special import gamma as G
        from nipy.algorithms.statistics import rft
        n = c["n"]
        N = n - 1
        cs = rft.spherical_search(n).mu / np.power(2 * np.pi, np.arange(n) / 2.)
        kap = math.sqrt(math.pi) * 2 ** (1 - N / 2) / G(n / 2)
        ref = [kap * math.factorial(N) / (2 ** ((N - k) // 2) * math.factorial((N - k) // 2) * math.factorial(k))
               if (N - k) % 2 == 0 else 0.0 for k in range(n)]
        fail = None if np.allclose(cs, ref, rtol=1e-11, atol=0) else \
            (f"spherical_search({n}).mu / (2 pi)^(k/2) = {cs.tolist()} is not kappa N!/(2^j j! k!) = {ref}: the chi^2 "
             f"densities are not the published closed forms")
        return {"lines": [], "impl": [], "oracle": fail, "nontrivial": n >= 2, "tags": ["chi2coef"], "mutated": None}

    def _qfin(self, c):
        from scipy.special import gamma, rgamma
        from nipy.algorithms.statistics import rft
        from harness.util import errname
        j, m = c["dim"], float(c["dfd"])
        try:
            obs = ("poly", [float(v) for v in rft.Q(j, dfd=m).c[::-1]])
        except Exception as e:   # noqa: BLE001
            obs = ("err", errname(e))
        # the Gamma factors (parameters of the model), by the reciprocal Gamma function: zero at the poles, signed
        fs = [float(gamma((m + 1) / 2) * rgamma((m + 2 - j + 2 * L) / 2) * (m / 2) ** (-(j - 1 - 2 * L) / 2))
              for L in range(max(j - 1, 0) // 2 + 1)]
        return {"lines": [f"qfin {j} {len(fs)} {frs(fs)}"], "impl": [obs], "oracle": None, "nontrivial": j >= 3,
                "tags": ["qfin"], "mutated": None}

    def _ivmul(self, c):
        from nipy.algorithms.statistics import rft
        r = (rft.IntrinsicVolumes(c["a"]) * rft.IntrinsicVolumes(c["b"])).mu
        ref = np.convolve(np.asarray(c["a"], float), np.asarray(c["b"], float))
        fail = None if r.shape == ref.shape and np.allclose(r, ref, rtol=1e-12, atol=0) else \
            f"IntrinsicVolumes({c['a']}) * IntrinsicVolumes({c['b']}) = {r.tolist()}, the product set has {ref.tolist()}"
        return {"lines": [f"ivmul {len(c['a'])} {frs(c['a'])} {len(c['b'])} {frs(c['b'])}"],
                "impl": [("poly", [float(v) for v in r])], "oracle": fail, "nontrivial": min(len(c["a"]), len(c["b"])) >= 2,
                "tags": ["ivmul"], "mutated": None}

    @staticmethod
    def _cone(rft, c):
        st, dfn, dfd = c["stat"], c["dfn"], (np.inf if c["dfd"] == "inf" else float(c["dfd"]))
        if st == "gauss":
            return rft.Gaussian(mu=c.get("mu", [1])), (lambda x: x)
        if st == "t":
            return rft.TStat(dfd=dfd), (lambda x: x)
        if st == "chi2":
            return rft.ChiSquared(dfn=dfn, dfd=dfd), math.sqrt
        if st == "F":
            return rft.FStat(dfn=dfn, dfd=dfd), (lambda x: math.sqrt(x * dfn))
        if st == "hotelling":
            return rft.Hotelling(dfd=dfd, k=c["k"]), math.sqrt
        if st == "roy":
            return rft.Roy(dfn=dfn, dfd=dfd, k=c["k"]), (lambda x: math.sqrt(x * dfn))
        return rft.MultilinearForm(*c["dims"]), (lambda x: x)

    @staticmethod
    def _polytxt(p):
        cs = [float(v) for v in np.atleast_1d(p.c)[::-1]]
        return f"{len(cs)} {frs(cs)}"

    def _quasiasm(self, c):
        from nipy.algorithms.statistics import rft
        obj, _ = self._cone(rft, c)
        dim, m = c["dim"], obj.dfd
        q = obj.quasi(dim)
        cs = [float(v) for v in obj.mu / np.power(2 * np.pi, np.arange(obj.order + 1.) / 2.)]
        qs = [self._polytxt(rft.Q(k + dim, dfd=m)) if k + dim > 0 else "0" for k in range(len(cs))]
        mt = "inf" if not np.isfinite(m) else fr(float(m))
        line = f"quasi {mt} {dim} {len(cs)} {frs(cs)} {len(qs)} " + " ".join(qs)
        obs = ("eqpair", self._eq_obs(q[0]), self._eq_obs(q[1])) if isinstance(q, tuple) else \
            ("eqpair", self._eq_obs(q), ("eqres", "inf", 0, [0.0]))
        return {"lines": [line], "impl": [obs], "oracle": None, "nontrivial": len(cs) >= 2 or dim >= 2,
                "tags": ["quasi-" + c["stat"], f"dim{dim}"], "mutated": None}

    def _eccone(self, c):
        from scipy import stats
        from nipy.algorithms.statistics import rft
        obj, tr = self._cone(rft, c)
        x, search = c["x"], c["search"]
        xt = float(tr(x))
        m = obj.dfd
        got = float(rft.ECcone.__call__(obj, xt, search=search))
        sub = float(obj(x, search=search))
        fail = None
        if not close(got, sub, 1e-12, 1e-300):
            fail = (f"{type(obj).__name__}(x={x}, search={search}) = {sub!r} but the cone formula at the transformed "
                    f"threshold {xt!r} gives {got!r}")
        cs = [float(v) for v in obj.mu / np.power(2 * np.pi, np.arange(obj.order + 1.) / 2.)]
        prod = [float(v) for v in obj.product.mu]
        ns = len(search) + len(prod) - 1
        qss = []
        for k in range(ns):
            qs = [self._polytxt(rft.Q(j + k, dfd=m)) if j + k > 0 else "0" for j in range(len(cs))]
            qss.append(f"{len(qs)} " + " ".join(qs))
        tp = [float(np.power(2 * np.pi, -(k + 1) / 2.)) for k in range(ns)]
        if np.isfinite(m):
            r, kern, tail = math.sqrt(1 + xt * xt / m), float(np.power(1 + xt ** 2 / m, -(m - 1) / 2.)), float(stats.t.sf(xt, m))
            mt = fr(float(m))
        else:
            r, kern, tail, mt = 1.0, math.exp(-xt * xt / 2), float(stats.norm.sf(xt)), "inf"
        line = (f"eccone {mt} {fr(float(obj.mu[0]))} {len(cs)} {frs(cs)} {len(search)} {frs([float(v) for v in search])} "
                f"{len(prod)} {frs(prod)} {ns} " + " ".join(qss) + f" {ns} {frs(tp)} {fr(xt)} {fr(r)} {fr(kern)} {fr(tail)}")
        return {"lines": [line], "impl": [("num-rel", got)], "oracle": fail, "nontrivial": ns >= 2,
                "tags": ["eccone-" + c["stat"], f"search{len(search)}"], "mutated": None}

    @staticmethod
    def _present_search(rft, search, how):
        """the same search region as a list / tuple / integer array / IntrinsicVolumes / float32 array"""
        if how == "none":
            return None
        if how == "tuple":
            return tuple(search)
        if how == "int" and all(float(v).is_integer() for v in search):
            return np.array(search, dtype=np.int8)
        if how == "iv":
            return rft.IntrinsicVolumes(list(search))
        if how == "f32":
            return np.array(search, dtype=np.float32)
        return list(search)

    @staticmethod
    def _search_vals(sv):
        if sv is None:
            return None
        return [float(v) for v in (sv.mu if hasattr(sv, "mu") else sv)]

    def _stathist(self, c):
        """a history of evaluations on ONE statistic object, the object observed through the generic cone API
        (order, mu, product, search, quasi(dim0), ECcone.__call__ at x0) before and after every step; every result
        compared with a fresh object's; the model assembles quasi(dim0) from the initial state"""
        from nipy.algorithms.statistics import rft
        from harness.util import errname
        dfd = np.inf if c["dfd"] == "inf" else float(c["dfd"])

        def make():
            if c["stat"] == "osf":
                return rft.OneSidedF(c["dfn"], dfd=dfd)
            return self._cone(rft, c)[0]

        def state(o):
            return {"order": int(o.order), "mu": [float(v) for v in o.mu], "product": [float(v) for v in o.product.mu],
                    "search": [float(v) for v in o.search.mu], "dfd": float(o.dfd)}

        def view(o):
            try:
                q = o.quasi(c["dim0"])
                qo = ("eqpair", self._eq_obs(q[0]), self._eq_obs(q[1])) if isinstance(q, tuple) else \
                    ("eqpair", self._eq_obs(q), ("eqres", "inf", 0, [0.0]))
            except Exception as e:   # noqa: BLE001
                qo = ("err", errname(e))
            try:
                g = float(rft.ECcone.__call__(o, c["x0"]))
            except Exception as e:   # noqa: BLE001
                g = errname(e)
            return qo, g

        def apply(o, op, sv):
            try:
                return apply0(o, op, sv)
            except Exception as e:   # noqa: BLE001
                return "raised " + errname(e)

        def apply0(o, op, sv):
            if op["op"] == "call":
                return float(o(op["x"], search=sv))
            if op["op"] == "density":
                return float(o.density(op["x"], op["dim"]))
            if op["op"] == "pvalue":
                return float(o.pvalue(op["x"], search=sv))
            q = o.quasi(op["dim"])
            return repr([self._eq_obs(t) for t in q] if isinstance(q, tuple) else self._eq_obs(q))
        obj = make()
        s0, v0 = state(obj), view(obj)
        fail = None
        name = type(obj).__name__
        for i, op in enumerate(c["ops"]):
            sv = self._present_search(rft, op["search"], op["as"])
            keep = self._search_vals(sv)
            used = apply(obj, op, sv)
            fresh = apply(make(), op, self._present_search(rft, op["search"], "list" if op["as"] != "none" else "none"))
            same = used == fresh if isinstance(used, str) else close(used, fresh, 1e-12, 1e-300)
            if fail is None and not same:
                fail = f"{name}: step {i} {op} gives {used!r} on the used object but {fresh!r} on a fresh one"
            if fail is None and self._search_vals(sv) != keep:
                fail = f"{name}: step {i} {op} changed the caller's search region {keep} -> {self._search_vals(sv)}"
            s1 = state(obj)
            if fail is None and s1 != s0:
                fail = f"{name}: after step {i} {op} the object changed: {s0} -> {s1}"
            v1 = view(obj)
            if fail is None and v1 != v0:
                fail = (f"{name}: quasi({c['dim0']}) / ECcone.__call__(obj, {c['x0']}) were {v0} on the new object and are "
                        f"{v1} after step {i} {op}")
        cs = [float(v) for v in np.asarray(s0["mu"]) / np.power(2 * np.pi, np.arange(len(s0["mu"])) / 2.)]
        dim, m = c["dim0"], s0["dfd"]      # the object's dfd (Gaussian / MultilinearForm: inf whatever the case says)
        qs = [self._polytxt(rft.Q(k + dim, dfd=m)) if k + dim > 0 else "0" for k in range(len(cs))]
        mt = "inf" if not np.isfinite(m) else fr(float(m))
        line = f"quasi {mt} {dim} {len(cs)} {frs(cs)} {len(qs)} " + " ".join(qs)
        return {"lines": [line], "impl": [view(obj)[0]], "oracle": fail, "nontrivial": len(c["ops"]) >= 2 or len(cs) >= 2,
                "tags": ["hist-" + c["stat"]] + ["hist-op-" + op["op"] for op in c["ops"]], "mutated": None}

    def _ecvec(self, c):
        """thresholds as an array of any rank / dtype / layout and search regions of any presentation: the batch
        result is the element-wise one (shape kept), the caller's arrays are untouched, and every element goes
        through the model's `eccone` line"""
        from nipy.algorithms.statistics import rft
        obj, _ = self._cone(rft, c)
        shp, pres = tuple(c["shape"]), c["pres"]
        base = np.array(c["xs"], dtype=np.float64).reshape(shp)
        if pres == "list":
            x = base.tolist() if shp else float(base)
            if shp and base.size == 0:
                x = base      # an empty nested list loses its shape
        elif pres == "f64-F" and shp:
            x = np.asfortranarray(base)
        elif pres == "f32":
            x = base.astype(np.float32)
        elif pres == "int":
            x = base.astype(np.int16)
        elif pres == "strided" and shp:
            big = np.zeros(tuple(2 * n for n in shp)); big[tuple(slice(None, None, 2) for _ in shp)] = base
            x = big[tuple(slice(None, None, 2) for _ in shp)]
        elif pres == "neg-stride" and shp:
            x = np.ascontiguousarray(base[tuple(slice(None, None, -1) for _ in shp)])[tuple(slice(None, None, -1) for _ in shp)]
        elif pres == "readonly":
            x = base.copy(); x.setflags(write=False)
        else:
            x = base.copy()
        keep = np.array(x, dtype=np.float64, copy=True)
        sv = self._present_search(rft, c["search"], c["search_as"])
        skeep = self._search_vals(sv)
        got = obj(x, search=sv)
        fail = None
        name = type(obj).__name__
        if np.shape(got) != shp:
            fail = f"{name}(x of shape {shp}, {pres}) returned shape {np.shape(got)}"
        if fail is None and not np.array_equal(np.array(x, dtype=np.float64), keep):
            fail = f"{name}: the caller's threshold array was modified"
        if fail is None and self._search_vals(sv) != skeep:
            fail = f"{name}: the caller's search region was modified: {skeep} -> {self._search_vals(sv)}"
        lines, impl = [], []
        flat = np.asarray(got, dtype=np.float64).reshape(-1) if fail is None else []
        for i, gi in enumerate(flat):
            xi = float(keep.reshape(-1)[i])
            one = self._eccone(dict(c, x=xi))
            if fail is None and one["oracle"]:
                fail = one["oracle"]
            sc = float(obj(xi, search=list(c["search"])))
            if fail is None and not close(float(gi), sc, 1e-12, 1e-300):
                fail = (f"{name}: element {i} of the batch evaluation ({pres}, shape {shp}, search as {c['search_as']}) "
                        f"is {float(gi)!r}, the scalar evaluation at {xi} gives {sc!r}")
            if i < 3:
                lines += one["lines"]; impl.append(("num-rel", float(gi)))
        return {"lines": lines, "impl": impl, "oracle": fail, "nontrivial": len(flat) >= 2 or len(c["search"]) >= 2,
                "tags": ["ecvec-" + c["stat"], "x-" + pres, "search-" + c["search_as"], f"rank{len(shp)}"], "mutated": None}

    def _hermite(self, c):
        from nipy.algorithms.statistics import rft
        from harness.util import errname
        dim = c["dim"]
        try:
            q = rft.Q(dim)
            obs = ("poly", [float(v) for v in q.c[::-1]])
        except Exception as e:   # noqa: BLE001
            obs = ("err", errname(e))
        fail = None
        if dim >= 1 and obs[0] == "poly":
            # He_{n+1}(x) = x He_n(x) - He_n'(x) on the real polynomials
            n = dim - 1
            if n >= 1:
                p, pm = np.poly1d(q.c), rft.Q(dim - 1)
                lhs = np.poly1d(p.c)
                rhs = np.poly1d([1, 0]) * np.poly1d(pm.c) - np.poly1d(pm.c).deriv()
                if not np.allclose((lhs - rhs).c, 0, atol=1e-9):
                    fail = f"Q({dim}) is not x*Q({dim - 1}) - Q({dim - 1})' (Hermite recursion)"
        return {"lines": [f"hermite {dim}"], "impl": [obs], "oracle": fail, "nontrivial": dim >= 3,
                "tags": ["hermite"], "mutated": None}

    def _quasi(self, c):
        from nipy.algorithms.statistics import rft
        from harness.util import errname
        m = c["m"]
        mb = m * 2 if (c["mb_differs"] and c["op"] != "deriv") else m
        a = rft.ECquasi(c["a"]["c"][::-1], m=m, exponent=c["a"]["e2"] / 2)
        b = rft.ECquasi(c["b"]["c"][::-1], m=mb, exponent=c["b"]["e2"] / 2)
        x = c["x"]

        def ev(cs, e2, mm):
            return float(np.polyval(cs[::-1], x)) * (1 + x * x / mm) ** (-e2 / 2)
        qa = f"{len(c['a']['c'])} {frs(c['a']['c'])} {fr(m)} {c['a']['e2']}"
        qb = f"{len(c['b']['c'])} {frs(c['b']['c'])} {fr(mb)} {c['b']['e2']}"
        fail = None
        line = {"add": f"qadd {qa} {qb}", "mul": f"qmul {qa} {qb}", "deriv": f"qderiv {qa}"}[c["op"]]
        try:
            if c["op"] == "add":
                r = a + b
                want = ev(c["a"]["c"], c["a"]["e2"], m) + ev(c["b"]["c"], c["b"]["e2"], mb)
            elif c["op"] == "mul":
                r = a * b
                want = ev(c["a"]["c"], c["a"]["e2"], m) * ev(c["b"]["c"], c["b"]["e2"], mb)
            else:
                r = a.deriv()
                p = np.poly1d(c["a"]["c"][::-1])
                e = c["a"]["e2"] / 2
                want = float(p.deriv()(x)) * (1 + x * x / m) ** (-e) - e * float(p(x)) * (2 * x / m) * (1 + x * x / m) ** (-e - 1)
            if r is None:
                obs = ("none",)
            else:
                obs = ("quasi", int(round(2 * r.exponent)), [float(v) for v in r.coeffs[::-1]])
                got = float(r(x))
                if not close(got, want, 1e-9, 1e-9):
                    fail = f"ECquasi {c['op']}: value at x={x} is {got}, expected {want} (a={c['a']}, b={c['b']}, m={m})"
        except Exception as e:   # noqa: BLE001
            obs = ("err", errname(e))
        return {"lines": [line], "impl": [obs], "oracle": fail, "nontrivial": len(c["a"]["c"]) >= 2,
                "tags": ["quasi-" + c["op"]], "mutated": None}

    def _density(self, c):
        from scipy import stats
        from nipy.algorithms.statistics import rft
        st, dfn, dfd, dim, x = c["stat"], c["dfn"], c["dfd"], c["dim"], c["x"]
        tags = ["density-" + st, f"dim{dim}"]
        want = scale = None
        try:
            if st == "gauss":
                got = rft.Gaussian().density(x, dim); want, scale = published_density("gauss", x, dim)
            elif st == "t":
                got = rft.TStat(dfd=dfd).density(x, dim); want, scale = published_density("t", x, dim, dfd=dfd)
            elif st == "chi2":
                got = rft.ChiSquared(dfn=dfn).density(x, dim); want, scale = published_density("chi2", x, dim, dfn=dfn)
            elif st == "F":
                got = rft.FStat(dfn=dfn, dfd=dfd).density(x, dim)
                if dim == 0 or dfn + dfd > dim:
                    want, scale = published_density("F", x, dim, dfn=dfn, dfd=dfd)
            elif st == "F_inf":
                got = rft.FStat(dfn=dfn).density(x, dim)
                if dim == 0:
                    want, scale = stats.chi2.sf(dfn * x, dfn), 1
                else:
                    w, s = published_density("chi2", dfn * x, dim, dfn=dfn); want, scale = w, s
            elif st == "chi2_dfd":
                got = rft.ChiSquared(dfn=dfn, dfd=dfd).density(x, dim)
                if dim == 0:
                    want, scale = stats.f.sf(x / dfn, dfn, dfd), 1
                elif dfn + dfd > dim:
                    want, scale = published_density("F", x / dfn, dim, dfn=dfn, dfd=dfd)
            elif st == "hotelling":
                k = min(dfn, 4)
                dd = max(dfd, k + 1)
                got = rft.Hotelling(dfd=dd, k=k).density(x, 0)
                dim = 0
                want, scale = stats.f.sf(x * (dd - k + 1) / (k * dd), k, dd - k + 1), 1
            else:   # multilinear form over one sphere: chi tail
                k = min(dfn, 6)
                got = rft.MultilinearForm(k).density(x, 0)
                dim = 0
                want, scale = stats.chi.sf(x, k), 1
        except Exception as e:   # noqa: BLE001
            return {"lines": [], "impl": [], "nontrivial": True, "tags": tags + ["raised"],
                    "oracle": f"{st} density(x={x}, dim={dim}, dfn={dfn}, dfd={dfd}) raised {type(e).__name__}: {e}"}
        got = float(got)
        fail = None
        if want is not None:
            # rounding in the quasi-polynomial evaluation (and in the gammaln differences of the closed form)
            # grows with the degrees of freedom: relative 1e-8, loosened in proportion to max(dfn, dfd) / 10
            # plus an absolute floor: the evaluation cancels O(1) intermediate terms (absolute error ~1e-15), which
            # is a large relative error for densities of order 1e-8; densities of interest are O(1e-4 .. 1) and
            # real defects give O(1) relative errors
            tol = 1e-8 * max(1.0, max(dfn or 0, dfd or 0) / 10.0) * max(abs(scale), 1e-300) + 1e-12
            if not (abs(got - want) <= tol):
                what = "the upper-tail probability" if dim == 0 else "the published closed form"
                fail = (f"EC density of order {dim} of the {st} field (dfn={dfn}, dfd={dfd}) at x={x} is {got!r}, "
                        f"but {what} is {want!r}")
        else:
            tags.append("no-closed-form")
        return {"lines": [], "impl": [], "oracle": fail, "nontrivial": dim >= 1, "tags": tags, "mutated": None}

    # ---- comparison ----------------------------------------------------------------
    def compare(self, case, impl_obs, model_out):
        kind = impl_obs[0]
        if kind == "table":
            want = sorted(tuple(int(v) for v in s.split()) for s in model_out.split(" | ")) if model_out.strip() else []
            return None if want == impl_obs[1] else f"impl table {impl_obs[1]} model {want}"
        if kind == "ec":
            val, d = impl_obs[1], impl_obs[2]
            if isinstance(val, str):
                return None if val == model_out else f"impl {val} model {model_out}"
            m = model_out.split()
            if model_out.startswith(("error", "bad-op")) or not m:
                return f"impl {val} model {model_out}"
            return None if int(m[0]) == val else f"impl {val} model {m[0]}"
        if kind == "lips":
            return self._cmp_lips(impl_obs[1], impl_obs[2], model_out)
        if kind == "lipsvec":
            val, d, tols = impl_obs[1], impl_obs[2], impl_obs[3]
            if model_out.startswith(("error", "bad-op")):
                return f"impl {val} model {model_out}"
            mu = [float(Fraction(t)) for t in model_out.split()]
            if len(mu) != d + 1:
                return f"model returned {len(mu)} values for dimension {d}: {model_out[:80]!r}"
            mu += [0.0] * (len(val) - len(mu))
            for j, (a, b) in enumerate(zip(val, mu)):
                if abs(a - b) > tols[j]:
                    return f"mu{j}: impl {a!r} model {b!r}"
            return None
        if kind == "num":
            got = float(Fraction(model_out)) if not model_out.startswith(("error", "bad-op")) else None
            if got is None or abs(got - impl_obs[1]) > 1e-13 * max(1.0, abs(impl_obs[1])):
                return f"impl {impl_obs[1]!r} model {model_out[:60]}"
            return None
        if kind in ("eqres", "eqpair"):
            def one(obs, txt):
                toks = txt.split()
                if txt.startswith(("error", "bad-op", "none")) or len(toks) < 2:
                    return f"impl quasi model {txt}"
                mm = "inf" if toks[0] == "inf" else float(Fraction(toks[0]))
                if mm != obs[1]:
                    return f"m: impl {obs[1]} model {mm}"
                if int(toks[1]) != obs[2]:
                    return f"exponent*2 impl {obs[2]} model {toks[1]}"
                coef = [Fraction(t) for t in toks[2:]]
                a = list(obs[3])
                while a and a[-1] == 0:
                    a.pop()
                n = max(len(a), len(coef))
                a += [0.0] * (n - len(a)); coef += [Fraction(0)] * (n - len(coef))
                sc = max([1.0] + [abs(float(v)) for v in coef])
                for k, (u, v) in enumerate(zip(a, coef)):
                    if abs(u - float(v)) > 1e-9 * sc:
                        return f"coefficient {k}: impl {u} model {float(v)}"
                return None
            if kind == "eqres":
                return one(impl_obs, model_out)
            parts = [t.strip() for t in model_out.split(";")]
            if len(parts) != 2:
                return f"impl pair model {model_out[:60]}"
            return one(impl_obs[1], parts[0]) or one(impl_obs[2], parts[1])
        if kind == "flag":
            return None if model_out == str(impl_obs[1]) else f"impl {impl_obs[1]} model {model_out}"
        if kind == "num-rel":
            if model_out.startswith(("error", "bad-op")):
                return f"impl {impl_obs[1]!r} model {model_out}"
            got = float(Fraction(model_out))
            return None if abs(got - impl_obs[1]) <= 1e-9 * max(abs(impl_obs[1]), 1e-300) + 1e-13 else \
                f"impl {impl_obs[1]!r} model {got!r}"
        if kind == "count":
            if model_out.startswith(("error", "bad-op")):
                return f"impl {impl_obs[1]} model {model_out}"
            n = len(model_out.split(" | ")) if model_out.strip() else 0
            return None if n == impl_obs[1] else f"impl {impl_obs[1]} simplices, model {n}"
        if kind == "tab":
            if isinstance(impl_obs[1], str):
                return None if impl_obs[1] == model_out else f"impl {impl_obs[1]} model {model_out}"
            if model_out.startswith(("error", "bad-op")):
                return f"impl {impl_obs[1][:4]} model {model_out}"
            want = [tuple(int(v) for v in t.split()) for t in model_out.split(" | ")] if model_out.strip() else []
            got = [tuple(t) for t in impl_obs[1]]
            return None if want == got else f"impl {got[:6]}… ({len(got)}) model {want[:6]}… ({len(want)})"
        if kind == "strides":
            if isinstance(impl_obs[1], str):
                return None if impl_obs[1] == model_out else f"impl {impl_obs[1]} model {model_out}"
            want = [int(t) for t in model_out.split()] if not model_out.startswith(("error", "bad-op")) else model_out
            return None if want == impl_obs[1] else f"impl {impl_obs[1]} model {want}"
        if kind == "poly":
            return cmp_rats(impl_obs[1], model_out, 1e-9, 1e-9)
        if kind == "err":
            return None if impl_obs[1] == model_out else f"impl {impl_obs[1]} model {model_out}"
        if kind == "none":
            return None if model_out == "none" else f"impl None model {model_out}"
        if kind == "quasi":
            if model_out.startswith(("error", "bad-op", "none")):
                return f"impl quasi model {model_out}"
            toks = model_out.split()
            e2, coef = int(toks[0]), [Fraction(t) for t in toks[1:]]
            if e2 != impl_obs[1]:
                return f"exponent*2 impl {impl_obs[1]} model {e2}"
            a = list(impl_obs[2])
            while len(a) > 1 and a[-1] == 0:
                a.pop()
            if a == [0.0]:
                a = []
            if len(a) != len(coef):
                n = max(len(a), len(coef))
                a += [0.0] * (n - len(a)); coef += [Fraction(0)] * (n - len(coef))
            for k, (u, v) in enumerate(zip(a, coef)):
                if not close(u, v, 1e-9, 1e-9):
                    return f"coefficient {k}: impl {u} model {float(v)}"
            return None
        return "unknown observation kind"

    @staticmethod
    def _cmp_lips(val, d, model_out):
        if model_out.startswith(("error", "bad-op")):
            return f"impl {val} model {model_out}"
        parts = [p.strip() for p in model_out.split(";")]
        if len(parts) != 4:
            return f"unparsable model output {model_out[:80]!r}"
        l0 = float(Fraction(parts[0]))

        def groups(s):
            return [[float(Fraction(t)) for t in g.split()] for g in s.split("|")] if s.strip() else []
        sq = lambda v: math.sqrt(v) if v > 0 else 0.0
        mu2tri = lambda L: 0.0 if L < 0 else math.sqrt(L) * 0.5

        def face(A00, npl, ipp):
            if A00 <= 0 or npl <= 0:
                return 0.0
            r = ipp / math.sqrt(npl)
            ac = 0.0 if r >= 1 else PI if r <= -1 else math.acos(r)
            return (PI - ac) * math.sqrt(A00) / (2 * PI)
        l1 = l2 = l3 = 0.0
        for (e,) in groups(parts[1]):
            l1 += sq(e)
        for L, e01, e02, e12 in groups(parts[2]):
            l2 += mu2tri(L)
            l1 -= 0.5 * (sq(e01) + sq(e02) + sq(e12))
        for g in groups(parts[3]):
            v2 = g[0]
            l3 += 0.0 if v2 <= 0 else math.sqrt(v2) / 6.0
            l2 -= 0.5 * sum(mu2tri(L) for L in g[1:5])
            l1 += sum(face(*g[5 + 3 * t: 8 + 3 * t]) for t in range(6))
        mu = [l0, l1, l2, l3][:d + 1] + [0.0] * (len(val) - d - 1)
        n = max(1, len(groups(parts[1])))
        scale = max(1.0, max(abs(v) for v in val))
        for j, (a, b) in enumerate(zip(val, mu)):
            if abs(a - b) > 1e-9 * scale * n:
                return f"mu{j}: impl {a!r} model {b!r}"
        return None

    # ---- shrinking / classification -----------------------------------------------------
    def shrink(self, case):
        if case.get("kind") in ("ec", "lips") and "bits" in case:
            bits = case["bits"]
            for i, ch in enumerate(bits):
                if ch != "0":
                    c = dict(case); c["bits"] = bits[:i] + "0" + bits[i + 1:]
                    yield c
            sh = case["shape"]
            m = None
            for ax, s in enumerate(sh):
                if s > 1 and set(bits) <= {"0", "1"}:
                    m = _mask_of(case) if m is None else m
                    for sl in (slice(0, s - 1), slice(1, s)):
                        sub = m[tuple(sl if a == ax else slice(None) for a in range(len(sh)))]
                        c = dict(case); c["shape"] = list(sub.shape); c["bits"] = _bits(sub)
                        yield c

        if case.get("kind") == "stathist":
            ops = case["ops"]
            for i in range(len(ops)):
                if len(ops) > 1:
                    yield dict(case, ops=ops[:i] + ops[i + 1:])
            for i, op in enumerate(ops):
                if op["as"] != "list":
                    yield dict(case, ops=ops[:i] + [dict(op, **{"as": "list"})] + ops[i + 1:])
                if len(op["search"]) > 1:
                    yield dict(case, ops=ops[:i] + [dict(op, search=op["search"][:-1])] + ops[i + 1:])
            if case["dim0"] > 0:
                yield dict(case, dim0=case["dim0"] - 1)
        if case.get("kind") == "ecvec":
            n = len(case["xs"])
            if n > 1:
                yield dict(case, shape=[1], xs=case["xs"][:1])
                yield dict(case, shape=[n - 1], xs=case["xs"][1:])
            if len(case["search"]) > 1:
                yield dict(case, search=case["search"][:-1])
            if case["search_as"] != "list":
                yield dict(case, search_as="list")

    def classify(self, case, failure):
        if case.get("kind") == "lips" and list(case.get("shape", [])) in ([1, 1, 1], [1, 1]) and \
                "1" in case.get("bits", "") and "Lips3d" in failure:
            return KEY_SINGLE_VOXEL
        return None


CHECK = C15()
