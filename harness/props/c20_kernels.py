"""C20 — boundary cases for the compiled kernels, run on *sentinel-padded buffers*.

Every array handed to the C re-compiled from /repo (harness/cshim.py, plus a small shim of our own that
exposes the `static` helpers of cubic_spline.c) is a view inside a larger store whose other words hold a
sentinel pattern (before, after, and — for strided layouts — between the elements):

  write witness : after the call every sentinel word is intact;
  read witness  : the call is repeated with a different sentinel pattern (finite / NaN, small / large);
                  outputs must be bit-identical, i.e. nothing outside the array was read into the result.

Neither needs a sanitizer.  The same cases also run under the clang ASan+UBSan build (VERIF_SANITIZE=1).
The module is both a library (case generation, used by C20.generate) and the batch runner
(`python -m harness.props.c20_kernels <cases.json>`): one `RES <json>` line per case, a `CASE <i>` line
before each so that a crash or a hang is attributed to its input.

Each result: {"lines": [...], "impl": [...], "fail": None | str, "tags": [...]} — `lines` are inputs of
the Lean model built on the *generated* index / guard expressions (Model/C20K.lean).
"""
from __future__ import annotations

import ctypes as C
import hashlib
import json
import os
import subprocess
import sys
import sysconfig
from fractions import Fraction

import numpy as np

VERIF = os.path.dirname(os.path.dirname(os.path.dirname(os.path.abspath(__file__))))
INT_MAX = 2 ** 31 - 1


# ----------------------------------------------------------------------------------------------
# sentinel-padded buffers
# ----------------------------------------------------------------------------------------------
FILLS = {  # two patterns per dtype kind
    "f": [lambda n: 1e30 + np.arange(n) * 1e24, lambda n: np.full(n, np.nan)],
    "i": [lambda n: 21845 + (np.arange(n) % 7), lambda n: -(np.arange(n) % 5) - 3],
    "u": [lambda n: 21845 + (np.arange(n) % 7), lambda n: 9 + (np.arange(n) % 5)],
}


def _lay(flat, shape, layout, pad):
    """the view of `shape` inside the 1-d store `flat` (same construction for the data store and for the index store)"""
    shape = tuple(shape)
    if layout in ("C", "F", "offset"):
        n = int(np.prod(shape)) if shape else 1
        return flat[pad:pad + n].reshape(shape, order="F" if layout == "F" else "C")
    big = tuple(2 * s + 1 for s in shape) if layout == "strided" else shape
    n = int(np.prod(big)) if big else 1
    inner = flat[pad:pad + n].reshape(big)
    if layout == "strided":
        return inner[tuple(slice(1, None, 2) for _ in shape)]
    if layout == "reversed":
        return inner[tuple(slice(None, None, -1) for _ in shape)]
    raise ValueError(layout)


def _store_len(shape, layout, pad):
    big = tuple(2 * s + 1 for s in shape) if layout == "strided" else tuple(shape)
    return (int(np.prod(big)) if big else 1) + 2 * pad


class Padded:
    """`a` re-laid inside a sentinel store.  layout: C | F | strided (step 2: the gaps are sentinels too) |
    reversed (negative strides) | offset (odd padding)."""

    def __init__(self, a, layout="C", fill=0, pad=None):
        a = np.asarray(a)
        self.layout = layout
        if pad is None:
            # under ASan the arrays are their own allocations (no sentinel words: an overrun must hit a redzone)
            pad = 0 if os.environ.get("VERIF_SANITIZE") == "1" and layout != "offset" else 5 if layout == "offset" else 4
        kind = a.dtype.kind if a.dtype.kind in "fiu" else "i"
        n = _store_len(a.shape, layout, pad)
        self.store = FILLS[kind][fill](n).astype(a.dtype)
        self.view = _lay(self.store, a.shape, layout, pad)
        self.view[...] = a
        assert self.view.shape == a.shape and (a.size == 0 or np.shares_memory(self.view, self.store))
        ids = _lay(np.arange(n), a.shape, layout, pad)
        self.mask = np.ones(n, dtype=bool)                      # True = sentinel word
        self.mask[ids.ravel()] = False
        self.before = self.store.copy()

    def guards_intact(self):
        return self.store[self.mask].tobytes() == self.before[self.mask].tobytes()


# ----------------------------------------------------------------------------------------------
# libraries
# ----------------------------------------------------------------------------------------------
_LIBS = {}


def _repo():
    from harness import cshim
    return cshim.REPO


def seg():
    if "seg" not in _LIBS:
        from harness import cshim
        lib = cshim.load("segmentation")
        po = C.py_object
        lib.ve_step.argtypes = [po] * 4 + [C.c_int, C.c_double]; lib.ve_step.restype = None
        lib.make_edges.argtypes = [po, C.c_int]; lib.make_edges.restype = po
        lib.interaction_energy.argtypes = [po] * 3 + [C.c_int]; lib.interaction_energy.restype = C.c_double
        _LIBS["seg"] = lib
    return _LIBS["seg"]


def reg():
    if "reg" not in _LIBS:
        from harness import cshim
        lib = cshim.load("registration")
        po = C.py_object
        lib.joint_histogram.restype = C.c_int
        lib.joint_histogram.argtypes = [po, C.c_uint, C.c_uint, po, po, po, C.c_long]
        lib.cubic_spline_transform.argtypes = [po, po]; lib.cubic_spline_transform.restype = None
        for nd in (1, 2, 3, 4):
            f = getattr(lib, f"cubic_spline_sample{nd}d")
            f.restype = C.c_double
            f.argtypes = [C.c_double] * nd + [po] + [C.c_int] * nd
        lib.cubic_spline_resample3d.restype = None
        lib.cubic_spline_resample3d.argtypes = [po, po, C.c_void_p, C.c_int, C.c_int, C.c_int]
        lib.apply_polyaffine.restype = None
        lib.apply_polyaffine.argtypes = [po] * 4
        _LIBS["reg"] = lib
    return _LIBS["reg"]


def quant():
    if "q" not in _LIBS:
        from harness import cshim
        lib = cshim.load("quantile")
        lib.quantile.restype = C.c_double
        lib.quantile.argtypes = [C.c_void_p, C.c_ssize_t, C.c_ssize_t, C.c_double, C.c_int]
        _LIBS["q"] = lib
    return _LIBS["q"]


class FArr(C.Structure):
    _fields_ = [("ndims", C.c_int), ("datatype", C.c_int)] + \
               [(n_, C.c_size_t) for n_ in ("dimX", "dimY", "dimZ", "dimT", "offsetX", "offsetY", "offsetZ", "offsetT",
                                            "boX", "boY", "boZ", "boT")] + \
               [("data", C.c_void_p), ("owner", C.c_int), ("get", C.c_void_p), ("set", C.c_void_p)]


class FIt(C.Structure):
    _fields_ = [("idx", C.c_size_t), ("size", C.c_size_t), ("data", C.c_void_p)] + \
               [(n_, C.c_size_t) for n_ in ("x", "y", "z", "t", "ddimY", "ddimZ", "ddimT", "incX", "incY", "incZ", "incT")] + \
               [("update", C.CFUNCTYPE(None, C.c_void_p))]


def fff():
    if "fff" not in _LIBS:
        from harness import cshim
        lib = cshim.load("fff")
        lib.fff_array_view.restype = FArr
        lib.fff_array_view.argtypes = [C.c_int, C.c_void_p] + [C.c_size_t] * 8
        lib.fff_array_iterator_init_skip_axis.restype = FIt
        lib.fff_array_iterator_init_skip_axis.argtypes = [C.POINTER(FArr), C.c_int]
        lib.fff_array_extrema.restype = None
        lib.fff_array_extrema.argtypes = [C.POINTER(C.c_double), C.POINTER(C.c_double), C.POINTER(FArr)]
        _LIBS["fff"] = lib
    return _LIBS["fff"]


STATIC_SRC = r'''
#include "%(cs)s"
int verif_mirrored_position(int x, unsigned int ddim) { return _mirrored_position(x, ddim); }
int verif_mirror_grid_neighbors(double x, unsigned int ddim, int* nx, int* px)
{ return _mirror_grid_neighbors(x, ddim, nx, px); }
int verif_apply_boundary_conditions(int mode, unsigned int ddim, double* x, double* w)
{ return _apply_boundary_conditions(mode, ddim, x, w); }
'''
STATIC_SHIM = r'''
#include "_registration.h"
#include <Python.h>
#include <numpy/arrayobject.h>
int verif_import_array(void) { return _import_array(); }
'''


def _build_static():
    """cubic_spline.c of the tree under test with its `static inline` index helpers exported"""
    repo = _repo()
    cs = os.path.join(repo, "nipy/algorithms/registration/cubic_spline.c")
    sanitize = os.environ.get("VERIF_SANITIZE") == "1"
    h = hashlib.sha1(open(cs, "rb").read() + STATIC_SRC.encode() + repr(sanitize).encode()).hexdigest()[:16]
    bdir = os.path.join(VERIF, ".build")
    os.makedirs(bdir, exist_ok=True)
    so = os.path.join(bdir, f"c20static-{'asan-' if sanitize else ''}{h}.so")
    if not os.path.exists(so):
        w = os.path.join(bdir, f"c20static-{h}-{os.getpid()}.c")
        s = os.path.join(bdir, f"c20static-shim-{h}-{os.getpid()}.c")
        open(w, "w").write(STATIC_SRC % {"cs": cs})
        open(s, "w").write(STATIC_SHIM)
        incs = [f"-I{os.path.join(repo, 'nipy/algorithms/registration')}", f"-I{np.get_include()}",
                f"-I{sysconfig.get_paths()['include']}"]
        cc = ["clang", "-fsanitize=address,undefined", "-fno-omit-frame-pointer", "-O1", "-g"] if sanitize \
            else ["gcc", "-O1", "-g"]
        tmp = f"{so}.{os.getpid()}.tmp"
        p = subprocess.run(cc + ["-fPIC", "-shared", "-w", "-DNPY_NO_DEPRECATED_API=0"] + incs + [w, s, "-lm", "-o", tmp],
                           capture_output=True, text=True)
        for f in (w, s):
            try:
                os.remove(f)
            except OSError:
                pass
        if p.returncode != 0:
            raise RuntimeError("build of the cubic_spline static shim failed:\n" + p.stderr[-2000:])
        os.replace(tmp, so)
    return so


def spline_static():
    """cubic_spline.c of the tree under test with its `static inline` index helpers exported"""
    if "st" in _LIBS:
        return _LIBS["st"]
    so = _build_static()
    lib = C.PyDLL(so)
    lib.verif_import_array.restype = C.c_int
    if lib.verif_import_array() != 0:
        raise RuntimeError("numpy C API import failed in the static shim")
    lib.verif_mirrored_position.restype = C.c_int
    lib.verif_mirrored_position.argtypes = [C.c_int, C.c_uint]
    lib.verif_mirror_grid_neighbors.restype = C.c_int
    lib.verif_mirror_grid_neighbors.argtypes = [C.c_double, C.c_uint, C.POINTER(C.c_int), C.POINTER(C.c_int)]
    lib.verif_apply_boundary_conditions.restype = C.c_int
    lib.verif_apply_boundary_conditions.argtypes = [C.c_int, C.c_uint, C.POINTER(C.c_double), C.POINTER(C.c_double)]
    _LIBS["st"] = lib
    return lib


def prebuild():
    """compile everything once in the parent (workers / subprocesses then only dlopen)"""
    from harness import cshim
    for g in ("segmentation", "registration", "quantile", "fff"):
        cshim.build(g)
    spline_static()
    if os.environ.get("VERIF_NO_ASAN") != "1":      # the sanitizer builds too (cached by content hash)
        for g in ("segmentation", "registration", "quantile", "fff"):
            cshim.build(g, sanitize=True)
        old = os.environ.get("VERIF_SANITIZE")
        os.environ["VERIF_SANITIZE"] = "1"
        try:
            _LIBS.pop("st", None)
            _build_static()
        finally:
            _LIBS.pop("st", None)
            if old is None:
                os.environ.pop("VERIF_SANITIZE", None)
            else:
                os.environ["VERIF_SANITIZE"] = old


# ----------------------------------------------------------------------------------------------
# helpers
# ----------------------------------------------------------------------------------------------
def fr(x):
    f = Fraction(x)
    return str(f.numerator) if f.denominator == 1 else f"{f.numerator}/{f.denominator}"


def ints(xs):
    return " ".join(str(int(v)) for v in xs)


def ilist(xs):
    xs = list(xs)
    return f"{len(xs)} " + ints(xs) if xs else "0"


def num(t):
    """case numbers are ints, 'p/q' strings, or 'inf' '-inf' 'nan' 'big' '-big'"""
    if isinstance(t, str):
        if t in ("inf", "-inf", "nan"):
            return float(t)
        if t == "big":
            return 1e300
        if t == "-big":
            return -1e300
        return float(Fraction(t))
    return float(t)


def finite(t):
    return not (isinstance(t, str) and t in ("inf", "-inf", "nan", "big", "-big"))


def bits(x):
    return np.asarray(x, dtype=np.float64).tobytes()


def twice(run):
    """run(fill) for both sentinel patterns → (first outcome, failure | None).  `run` returns
    (observable bytes / tuple, [Padded…])"""
    outs, fail = [], None
    for fill in (0, 1):
        obs, pads = run(fill)
        bad = [nm for nm, p in pads if not p.guards_intact()]
        if bad and fail is None:
            fail = f"sentinel words around `{bad[0]}` were overwritten (write outside the array)"
        outs.append(obs)
    if fail is None and outs[0] != outs[1]:
        fail = "the result depends on the memory outside the arrays given to the kernel (read outside the array)"
    return outs, fail


# ----------------------------------------------------------------------------------------------
# kernels
# ----------------------------------------------------------------------------------------------
NGB = None


def k_mrf(c):
    X, Y, Z, K = c["dims"]
    rs = np.random.RandomState(c["seed"])
    vox = np.array(c["vox"], dtype=np.intp).reshape(-1, 3)
    U0 = rs.randint(-2, 3, size=(K, K)).astype(float)
    ppm0 = rs.randint(0, 4, size=(X, Y, Z, K)).astype(float)
    ref0 = (1 + rs.randint(0, 4, size=(vox.shape[0], K))).astype(float)
    lib = seg()

    def run(fill):
        ppm, U, XYZ = Padded(ppm0, fill=fill), Padded(U0, fill=fill), Padded(vox, fill=fill)
        e = lib.interaction_energy(ppm.view, XYZ.view, U.view, c["ngb"])
        # ve_step on a map of -1 (beta = 0: the update is ref / sum(ref), never -1): which entries are written
        ppm2 = Padded(np.full((X, Y, Z, K), -1.0), fill=fill)
        ref = Padded(ref0, fill=fill)
        lib.ve_step(ppm2.view, ref.view, XYZ.view, U.view, c["ngb"], 0.0)
        written = np.nonzero(ppm2.view.ravel() != -1.0)[0].tolist()
        ppm3 = Padded(ppm0 / 4.0, fill=fill)
        lib.ve_step(ppm3.view, ref.view, XYZ.view, U.view, c["ngb"], 0.25)
        return (bits(e), tuple(written), ppm3.view.tobytes()), \
            [("ppm", ppm), ("U", U), ("XYZ", XYZ), ("ppm (ve_step)", ppm2), ("ref", ref), ("ppm (ve_step 2)", ppm3)]
    outs, fail = twice(run)
    e = np.frombuffer(outs[0][0])[0]
    head = f"{ints(c['dims'])}"
    l1 = f"mrfE {head} {c['ngb']} {ilist(vox.ravel())} {ilist(U0.ravel())} {ilist(ppm0.ravel())}"
    l2 = f"mrfW {head} {ilist(vox.ravel())}"
    o1 = f"{int(e)} ok" if np.isfinite(e) and e == int(e) else f"{e!r} ok"
    l3 = f"veW {head} {ilist(vox.ravel())}"
    return {"lines": [l1, l2, l3], "impl": [o1, ints(outs[0][1]), ints(outs[0][1])], "fail": fail,
            "tags": ["k=mrf", f"ngb={c['ngb']}", "singleton-axis" if 1 in c["dims"][:3] else "axes>1"]}


def k_edges(c):
    X, Y, Z = c["dims"]
    idx0 = np.array(c["idx"], dtype=np.intp).reshape(X, Y, Z)
    lib = seg()

    def run(fill):
        idx = Padded(idx0, fill=fill)
        e = lib.make_edges(idx.view, c["ngb"])
        return (np.asarray(e).tobytes(), np.asarray(e).shape), [("idx", idx)]
    outs, fail = twice(run)
    e = np.frombuffer(outs[0][0], dtype=np.intp)
    if fail is None and outs[0][1] != (e.size // 2, 2):
        fail = f"make_edges returned shape {outs[0][1]}"
    line = f"edges {X} {Y} {Z} {c['ngb']} {ilist(idx0.ravel())}"
    return {"lines": [line], "impl": [("ok " + ints(e)).strip()], "fail": fail,
            "tags": ["k=edges", f"ngb={c['ngb']}", "empty-mask" if (idx0 < 0).all() else "mask"]}


def k_jh(c):
    d0, d1, d2 = c["dimsJ"]
    pts = c["pts"]
    n = len(pts)
    size = d0 * d1 * d2
    J0 = np.arange(size, dtype=np.int16).reshape(d0, d1, d2)      # J[q] = q: the histogram column names the offset read
    I0 = np.array(c["I"], dtype=np.int16)
    T0 = np.array([[num(t) for t in p] for p in pts], dtype=float)
    clampI = max(n, 1)
    lib = reg()

    def run(fill):
        H = Padded(np.zeros((clampI, max(size, 1))), fill=fill)
        J = Padded(J0, fill=fill)
        I = Padded(I0, layout=c.get("layoutI", "C"), fill=fill)
        T = Padded(T0, fill=fill)
        with np.errstate(all="ignore"):
            ret = lib.joint_histogram(H.view, clampI, max(size, 1), I.view.flat, J.view, T.view, c["interp"])
        return (ret, H.view.tobytes()), [("H", H), ("imJ_padded", J), ("I", I), ("Tvox", T)]
    outs, fail = twice(run)
    H = np.frombuffer(outs[0][1]).reshape(clampI, max(size, 1))
    lines, impl = [], []
    if outs[0][0] != 0 and fail is None:
        fail = f"joint_histogram refused its inputs (returned {outs[0][0]})"
    seen = set()
    for k, p in enumerate(pts):
        i = int(I0[k])
        if i < 0 or i >= clampI or i in seen:
            continue
        seen.add(i)
        row = H[i]
        nz = np.nonzero(row)[0]
        if all(finite(t) for t in p):
            lines.append(f"jh {d0} {d1} {d2} {i} " + " ".join(fr(Fraction(t) if isinstance(t, str) else t) for t in p))
            if c["interp"] == 0:
                impl.append(("in " + " ".join(f"{q}:{fr(float(row[q]))}" for q in nz)) if nz.size else "out")
            else:
                lines.pop()
        elif nz.size and fail is None:
            fail = f"joint_histogram deposited mass for the non-finite coordinate {p}"
    # frame: rows of H that no source intensity names are equal before and after (zero); the bins written for intensity i
    # are `j + clampJ*i` (store side of the model)
    valid = {int(v) for v in I0 if 0 <= int(v) < clampI}
    for r in range(clampI):
        nzr = np.flatnonzero(H[r])
        if r not in valid:
            if nzr.size and fail is None:
                fail = f"joint_histogram wrote row {r} of H, which is the intensity of no source voxel (frame)"
        elif nzr.size and all(all(finite(t) for t in p) for p in pts):
            lines.append(f"jhW {r} {max(size, 1)} {ilist(nzr)}")
            impl.append(ints(np.flatnonzero(H.ravel())[(np.flatnonzero(H.ravel()) // max(size, 1)) == r]))
    return {"lines": lines, "impl": impl, "fail": fail,
            "tags": ["k=jh", f"interp={c['interp']}", "layoutI=" + c.get("layoutI", "C")]}


def k_mirror(c):
    lib = spline_static()
    lines, impl = [], []
    for x, ddim in c["xs"]:
        lines.append(f"mirror {x} {ddim}")
        impl.append(str(lib.verif_mirrored_position(x, ddim)))
    for x, ddim in c["nb"]:
        nx, px = C.c_int(-777), C.c_int(-777)
        ok = lib.verif_mirror_grid_neighbors(num(x), ddim, C.byref(nx), C.byref(px))
        if finite(x):
            lines.append(f"nbrs {fr(Fraction(x) if isinstance(x, str) else x)} {ddim}")
            impl.append(f"{nx.value} {px.value}" if ok else "none")
    return {"lines": lines, "impl": impl, "fail": None, "tags": ["k=mirror"]}


MODES = {"zero": 0, "nearest": 1, "reflect": 2}


def k_sample(c):
    shape = c["shape"]
    nd = len(shape)
    rs = np.random.RandomState(c["seed"])
    coef0 = rs.randint(-8, 9, size=shape).astype(float)
    lib = reg()
    fn = getattr(lib, f"cubic_spline_sample{nd}d")
    pts = [[num(t) for t in p] for p in c["pts"]]

    def run(fill):
        coef = Padded(coef0, layout=c["layout"], fill=fill)
        with np.errstate(all="ignore"):
            vals = [fn(*p, coef.view, *c["modes"]) for p in pts]
        return bits(vals), [("Coef", coef)]
    outs, fail = twice(run)
    # the generated offset expression against NumPy's addressing of the same strided view
    cv = Padded(coef0, layout=c["layout"]).view
    st = [s // 8 for s in cv.strides]
    pos = [int(rs.randint(0, s)) for s in shape]
    base = np.arange(cv.size, dtype=np.int64)
    off = sum(p * s for p, s in zip(pos, st))
    lines = [f"soff {ilist(st)} {ilist(pos)}"]
    impl = [str(off)]
    return {"lines": lines, "impl": impl, "fail": fail,
            "tags": ["k=sample", f"nd={nd}", "layout=" + c["layout"]]}


def k_ctrans(c):
    shape = c["shape"]
    rs = np.random.RandomState(c["seed"])
    src0 = rs.randint(-8, 9, size=shape).astype(c.get("dtype", "float64"))
    lib = reg()

    def run(fill):
        src = Padded(src0, layout=c["layout"], fill=fill)
        res = Padded(np.zeros(shape), layout=c.get("layout_res", "C"), fill=fill)
        lib.cubic_spline_transform(res.view, src.view)
        out = [res.view.tobytes()]
        pads = [("src", src), ("res", res)]
        if len(shape) == 3 and c.get("tvox") is not None:
            T = Padded(np.array([num(t) for t in c["tvox"]], dtype=float), fill=fill)
            im = Padded(src0.astype(float), layout=c["layout"], fill=fill)
            dst = Padded(np.zeros(c.get("dst", shape)), fill=fill)
            with np.errstate(all="ignore"):
                lib.cubic_spline_resample3d(dst.view, im.view, T.view.ctypes.data, *c["modes"])
            out.append(dst.view.tobytes())
            pads += [("Tvox", T), ("im", im), ("im_resampled", dst)]
        return tuple(out), pads
    outs, fail = twice(run)
    return {"lines": [], "impl": [], "fail": fail,
            "tags": ["k=ctrans", "layout=" + c["layout"], "resample" if c.get("tvox") is not None else "transform"]}


def k_quant(c):
    n, stride = c["n"], c["stride"]
    rs = np.random.RandomState(c["seed"])
    mode = c["data"]
    if mode == "perm":
        x0 = rs.permutation(n).astype(float)
    elif mode == "ties":
        x0 = rs.randint(0, 3, size=n).astype(float)
    elif mode == "inf":
        x0 = rs.permutation(n).astype(float)
        x0[rs.randint(0, n, size=max(1, n // 3))] = rs.choice([np.inf, -np.inf])
    elif mode == "nan":
        x0 = rs.permutation(n).astype(float)
        x0[rs.randint(0, n, size=max(1, n // 3))] = np.nan
    else:
        raise ValueError(mode)
    r = float(Fraction(c["r"]))
    lib = quant()

    def run(fill):
        g = 0 if os.environ.get("VERIF_SANITIZE") == "1" else 4
        span = (n - 1) * abs(stride) + 1
        store = FILLS["f"][fill](g + span + g).astype(float)
        first = g if stride > 0 else g + span - 1
        idx = first + stride * np.arange(n)
        store[idx] = x0
        mask = np.ones(store.shape, bool); mask[idx] = False
        before = store.copy()
        v = lib.quantile(store.ctypes.data + 8 * first, n, stride, r, c["interp"])

        class G:
            def guards_intact(self_):
                return store[mask].tobytes() == before[mask].tobytes()
        after = np.sort(store[idx])
        return (bits(v), np.sort(x0).tobytes() == after.tobytes() or bool(np.isnan(x0).any())), [("data", G())]
    outs, fail = twice(run)
    v = np.frombuffer(outs[0][0])[0]
    if fail is None and not outs[0][1]:
        fail = "quantile changed the multiset of values of the fibre (it may only permute it)"
    lines, impl = [], []
    if mode == "perm":
        lines.append(f"qidx {c['r']} {n} {c['interp']}")
        impl.append("refuse" if (r < 0 or r > 1) and v == 0.0 else "inf" if np.isinf(v) and v > 0 else fr(v))
    elif mode == "nan":
        if 0 <= r <= 1 and n >= 2:
            lines.append(f"qnan {n}")
            impl.append("nan" if np.isnan(v) else "value")
    elif mode in ("ties", "inf") and fail is None and 0 <= r <= 1 and n >= 1:
        # reference: the definition on the sorted fibre (quantile.c's convention)
        s = np.sort(x0)
        if n == 1:
            want = s[0]
        elif not c["interp"]:
            p = int(np.ceil(Fraction(c["r"]) * n))
            want = np.inf if p == n else s[p]
        else:
            pp = Fraction(c["r"]) * (n - 1)
            p = int(pp)
            w = float(pp - p)
            with np.errstate(all="ignore"):
                want = s[p] if w <= 0 else (1 - w) * s[p] + w * s[p + 1]
        same = (np.isnan(v) and np.isnan(want)) or v == want or abs(v - want) <= 1e-12 * max(1, abs(want))
        if not same:
            fail = f"quantile(r={c['r']}, interp={c['interp']}) of {x0.tolist()} = {v}, the order statistic is {want}"
    return {"lines": lines, "impl": impl, "fail": fail,
            "tags": ["k=quant", "data=" + mode, f"interp={c['interp']}", "stride=%d" % stride]}


def k_poly(c):
    rs = np.random.RandomState(c["seed"])
    n, m = c["n"], c["m"]
    xyz0 = rs.randint(-4, 5, size=(n, 3)).astype(float)
    cen0 = rs.randint(-4, 5, size=(m, 3)).astype(float)
    aff0 = rs.randint(-2, 3, size=(m, 12)).astype(float)
    sig0 = np.array([num(t) for t in c["sigma"]], dtype=float)
    lib = reg()

    def run(fill):
        xyz, cen, aff, sig = (Padded(a, fill=fill) for a in (xyz0, cen0, aff0, sig0))
        with np.errstate(all="ignore"):
            lib.apply_polyaffine(xyz.view, cen.view, aff.view, sig.view)
        return xyz.view.tobytes(), [("xyz", xyz), ("centers", cen), ("affines", aff), ("sigma", sig)]
    outs, fail = twice(run)
    return {"lines": [], "impl": [], "fail": fail, "tags": ["k=polyaffine", "no-centers" if m == 0 else "centers"]}


def k_fffit(c):
    """the fff_array iterator over a (possibly non-contiguous, axis-skipping) view: the byte offsets it visits"""
    dims, offs, axis = c["dims"], c["offs"], c["axis"]
    lib = fff()
    ext = sum((d - 1) * o for d, o in zip(dims, offs)) + 1
    rs = np.random.RandomState(c["seed"])

    def run(fill):
        pad = 0 if os.environ.get("VERIF_SANITIZE") == "1" else 4
        store = FILLS["f"][fill](ext + 2 * pad).astype(float)
        idx = np.array([pad + sum(i * o for i, o in zip(ix, offs)) for ix in np.ndindex(*dims)], dtype=np.intp)
        vals = rs.randint(-9, 10, size=len(idx)).astype(float)
        store[idx] = vals
        mask = np.ones(store.shape, bool); mask[idx] = False
        before = store.copy()
        base = store.ctypes.data + 8 * pad
        arr = lib.fff_array_view(9, base, *dims, *offs)
        it = lib.fff_array_iterator_init_skip_axis(C.byref(arr), axis)
        seen = []
        while it.idx < it.size and len(seen) < 10000:
            seen.append((it.data or 0) - base)
            it.update(C.cast(C.byref(it), C.c_void_p))
        mn, mx = C.c_double(), C.c_double()
        lib.fff_array_extrema(C.byref(mn), C.byref(mx), C.byref(arr))

        class G:
            def guards_intact(self_):
                return store[mask].tobytes() == before[mask].tobytes()
        return (tuple(seen), arr.ndims, bits([mn.value, mx.value]), (int(it.size), int(it.idx))), [("buffer", G())]
    rs = np.random.RandomState(c["seed"]); outs0 = None
    outs, fail = [], None
    for fill in (0, 1):
        rs = np.random.RandomState(c["seed"])
        obs, pads = run(fill)
        if not pads[0][1].guards_intact() and fail is None:
            fail = "sentinel words around the fff_array buffer were overwritten"
        outs.append(obs)
    if fail is None and outs[0] != outs[1]:
        fail = "fff_array_extrema depends on memory outside the array view (read outside the array)"
    seen = outs[0][0]
    if fail is None and any(o < 0 or o >= 8 * ext or o % 8 for o in seen):
        fail = f"the fff_array iterator leaves the view: byte offsets {seen[:12]} of an extent of {8 * ext} bytes"
    line = "fffit " + ints(dims) + " " + ints(8 * o for o in offs) + f" {axis}"
    line2 = "fffn " + ints(dims) + " " + ints(8 * o for o in offs) + f" {axis}"
    return {"lines": [line, line2], "impl": [ints(seen), ints(outs[0][3])], "fail": fail,
            "tags": ["k=fffit", f"ndims={outs[0][1]}", "skip-axis" if axis >= 0 else "full-scan"]}


def k_fffpy(c):
    """fffpy_multi_iterator_new (lib/fff_python_wrapper/fffpy.c, re-compiled): the axis it iterates along must be the
    one the Cython callers size their output with — `axis` counted from the end when negative"""
    from harness.props.C16 import fffpy
    lib = fffpy()
    shape, axis = c["shape"], c["axis"]
    nd = len(shape)
    want = axis % nd
    rs = np.random.RandomState(c["seed"])
    y0 = rs.randint(-9, 10, size=shape).astype(float)
    tshape = list(shape); tshape[axis] = 1
    Y = Padded(y0, layout=c["layout"]); T = Padded(np.zeros(tshape), layout="C")
    lib.fffpy_multi_iterator_new.restype = C.c_void_p
    p = lib.fffpy_multi_iterator_new(C.c_int(2), C.c_int(axis), C.py_object(Y.view), C.py_object(T.view))
    fail = None
    if not p:
        return {"lines": [f"fffax {axis} {nd}"], "impl": ["refused"], "fail": None, "tags": ["k=fffpy", "refused"]}
    from harness.props.C16 import FIter
    it = C.cast(p, C.POINTER(FIter)).contents
    got = (it.axis, it.size, it.vector[0].contents.size, it.vector[1].contents.size)
    exp = (want, int(np.prod(shape)) // shape[want], shape[want], 1)
    lib.fffpy_multi_iterator_update.argtypes = [C.c_void_p]
    lib.fffpy_multi_iterator_delete.argtypes = [C.c_void_p]
    if got != exp:
        fail = (f"fffpy_multi_iterator_new(2, axis={axis}, Y{tuple(shape)} [{c['layout']}], T{tuple(tshape)}) iterates along "
                f"axis {got[0]} ({got[1]} fibres of {got[2]} and {got[3]} elements); the caller sized T for axis {want} "
                f"({exp[1]} fibres of {exp[2]} and 1): the fibres walked do not fit the arrays")
    else:
        total = 0.0
        for _ in range(it.size):
            v = it.vector[0].contents
            total += sum(v.data[k * v.stride] for k in range(v.size))
            lib.fffpy_multi_iterator_update(p)
        if total != float(y0.sum()):
            fail = "the fibres visited by the multi-iterator do not cover the array exactly once"
    lib.fffpy_multi_iterator_delete(p)
    if fail is None and not (Y.guards_intact() and T.guards_intact()):
        fail = "sentinel words around the arrays of the multi-iterator were overwritten"
    return {"lines": [f"fffax {axis} {nd}"], "impl": [str(got[0])], "fail": fail,
            "tags": ["k=fffpy", "axis<0" if axis < 0 else "axis>=0", "layout=" + c["layout"]]}


KERNELS = {"fffpy": k_fffpy, "fffit": k_fffit, "mrf": k_mrf, "edges": k_edges, "jh": k_jh, "mirror": k_mirror, "sample": k_sample,
           "ctrans": k_ctrans, "quant": k_quant, "poly": k_poly}
#: kernels whose loops are data-dependent: a hang is possible, they get a short per-case timeout
HANG_PRONE = {"quant"}
WATCHDOG = 3      # seconds before a hang-prone case is declared hung (its inputs have at most a dozen elements)


# ----------------------------------------------------------------------------------------------
# generation
# ----------------------------------------------------------------------------------------------
def _dy(rng, lo, hi, den=8):
    """dyadic rational in [lo, hi] as text"""
    return fr(Fraction(rng.randint(lo * den, hi * den), den))


def _voxels(rng, X, Y, Z):
    allv = [(x, y, z) for x in range(X) for y in range(Y) for z in range(Z)]
    mode = rng.choice(["all", "corners", "faces", "last-plane", "random", "single", "none"])
    if mode == "all":
        return allv
    if mode == "corners":
        return sorted({(x, y, z) for x in (0, X - 1) for y in (0, Y - 1) for z in (0, Z - 1)})
    if mode == "faces":
        return [v for v in allv if v[0] in (0, X - 1) or v[1] in (0, Y - 1) or v[2] in (0, Z - 1)]
    if mode == "last-plane":
        return [v for v in allv if v[0] == X - 1]
    if mode == "single":
        return [rng.choice(allv)]
    if mode == "none":
        return []
    return [v for v in allv if rng.random() < 0.5]


def gen_case(rng):
    """one boundary case for one kernel"""
    k = rng.choice(["mrf", "mrf", "edges", "jh", "jh", "mirror", "sample", "sample", "ctrans", "quant", "quant", "poly",
                    "fffit", "fffpy"])
    if k == "fffpy":
        nd = rng.choice([1, 2, 3, 3, 4])
        shape = [rng.choice([1, 2, 3, 4]) for _ in range(nd)]
        return {"k": k, "shape": shape, "axis": rng.randrange(-nd, nd), "layout": rng.choice(["C", "F", "strided", "reversed"]),
                "seed": rng.randrange(10 ** 6)}
    if k == "fffit":
        dims = [rng.choice([1, 1, 2, 3, 4]) for _ in range(4)]
        perm = list(range(4)); rng.shuffle(perm)          # offsets of a transposed / strided block
        offs, acc = [0] * 4, 1
        for ax in perm:
            step = rng.choice([1, 1, 2, 3])
            offs[ax] = acc * step
            acc = offs[ax] * dims[ax]
        return {"k": k, "dims": dims, "offs": offs, "axis": rng.choice([-1, -1, 0, 1, 2, 3]), "seed": rng.randrange(10 ** 6)}
    if k == "mrf":
        X, Y, Z = (rng.choice([1, 1, 2, 2, 3, 4]) for _ in range(3))
        K = rng.choice([1, 2, 3])
        return {"k": k, "dims": [X, Y, Z, K], "ngb": rng.choice([6, 26]), "vox": _voxels(rng, X, Y, Z),
                "seed": rng.randrange(10 ** 6)}
    if k == "edges":
        X, Y, Z = (rng.choice([1, 1, 2, 2, 3, 4]) for _ in range(3))
        mode = rng.choice(["full", "empty", "random", "faces"])
        lab, idx = 0, []
        for x in range(X):
            for y in range(Y):
                for z in range(Z):
                    inm = {"full": True, "empty": False, "random": rng.random() < 0.6,
                           "faces": x in (0, X - 1) or y in (0, Y - 1) or z in (0, Z - 1)}[mode]
                    idx.append(lab if inm else -1)
                    lab += 1 if inm else 0
        return {"k": k, "dims": [X, Y, Z], "ngb": rng.choice([6, 26]), "idx": idx}
    if k == "jh":
        dims = [rng.choice([2, 3, 3, 4, 5]) for _ in range(3)]

        def coord(d):
            hi = d - 2                                         # dimJX
            return rng.choice([
                _dy(rng, -1, max(hi, 0)), _dy(rng, -1, max(hi, 0)), _dy(rng, -1, max(hi, 0)), str(rng.randint(-1, hi)),
                "-1", str(hi), fr(Fraction(-1) + Fraction(1, 2 ** 10)), fr(Fraction(hi) - Fraction(1, 2 ** 10)),
                fr(Fraction(hi) + Fraction(1, 2 ** 10)), fr(Fraction(-1) - Fraction(1, 2 ** 10)),
                _dy(rng, -3, hi + 3), "big", "-big", "inf", "-inf", "nan", str(2 ** 31), str(-2 ** 31 - 1)])
        n = rng.choice([1, 3, 6, 10])
        pts = [[coord(d) for d in dims] for _ in range(n)]
        for q in range(n):                      # one axis exactly at / next to a bound, the others inside
            if rng.random() < 0.5:
                ax = rng.randrange(3)
                hi = dims[ax] - 2
                p = [_dy(rng, 0, max(d - 3, 0)) if d > 2 else "-1/2" for d in dims]
                p[ax] = rng.choice([str(hi), "-1", fr(Fraction(hi) - Fraction(1, 2 ** 10)), fr(Fraction(-1) + Fraction(1, 2 ** 10)),
                                    str(hi - 1), "0", fr(Fraction(hi) + Fraction(1, 2 ** 10))])
                pts[q] = p
        I = list(range(n))
        rng.shuffle(I)
        if n > 1 and rng.random() < 0.4:
            I[rng.randrange(n)] = -1
        return {"k": k, "dimsJ": dims, "pts": pts, "I": I, "interp": rng.choice([0, 0, 0, 1, -7]),
                "layoutI": rng.choice(["C", "strided", "reversed"])}
    if k == "mirror":
        xs = []
        for _ in range(12):
            ddim = rng.choice([0, 0, 1, 1, 2, 3, 5, 8, 1000, 10 ** 6])
            x = rng.choice([rng.randint(-3 * ddim - 3, 3 * ddim + 3), rng.randint(-10 ** 6, 10 ** 6), -INT_MAX - 1, INT_MAX,
                            0, -1, ddim, ddim + 1, 2 * ddim, -ddim, 2 * ddim + 1])
            xs.append([x, ddim])
        nb = []
        for _ in range(12):
            ddim = rng.choice([0, 1, 2, 3, 5, 8, 1000])
            x = rng.choice([_dy(rng, -ddim - 4, 2 * ddim + 4), _dy(rng, -ddim - 4, 2 * ddim + 4), str(-ddim), str(2 * ddim),
                            fr(Fraction(-ddim) - Fraction(1, 2 ** 10)), fr(Fraction(2 * ddim) + Fraction(1, 2 ** 10)),
                            str(-ddim - 1), str(2 * ddim + 1), _dy(rng, -10 ** 5, 10 ** 5, 1)])
            nb.append([x, ddim])
        return {"k": k, "xs": xs, "nb": nb}
    if k == "sample":
        nd = rng.choice([1, 2, 3, 3, 4])
        shape = [rng.choice([1, 1, 2, 3, 4]) for _ in range(nd)]

        def coord(s):
            return rng.choice([_dy(rng, -s - 2, 2 * s + 2), _dy(rng, 0, max(s - 1, 0)), "-1", str(s), str(s - 1), "0",
                               fr(Fraction(-1) - Fraction(1, 2 ** 10)), fr(Fraction(s) + Fraction(1, 2 ** 10)),
                               str(-(s - 1)), str(2 * (s - 1)), str(2 * (s - 1) + 1), "big", "-big", "inf", "-inf", "nan",
                               str(2 ** 31), str(-2 ** 31)])
        pts = [[coord(s) for s in shape] for _ in range(8)]
        return {"k": k, "shape": shape, "layout": rng.choice(["C", "F", "strided", "reversed", "offset"]),
                "modes": [rng.choice([0, 1, 2]) for _ in range(nd)], "pts": pts, "seed": rng.randrange(10 ** 6)}
    if k == "ctrans":
        nd = rng.choice([1, 2, 3, 3, 3, 4])
        shape = [rng.choice([0, 1, 1, 2, 3, 4]) for _ in range(nd)]
        c = {"k": k, "shape": shape, "layout": rng.choice(["C", "F", "strided", "reversed"]),
             "layout_res": rng.choice(["C", "C", "F", "strided"]), "seed": rng.randrange(10 ** 6),
             "dtype": rng.choice(["float64", "float64", "float32", "int16", "uint8"])}
        if nd == 3:
            ext = ["big", "-big", "inf", "-inf", "nan", str(2 ** 31), "0", "1", "-1", "1/2"]
            tv = [rng.choice(ext) if rng.random() < 0.35 else _dy(rng, -2, 2) for _ in range(12)]
            c["tvox"] = tv
            c["modes"] = [rng.choice([0, 1, 2]) for _ in range(3)]
            c["dst"] = [rng.choice([0, 1, 2, 3]) for _ in range(3)]
        return c
    if k == "quant":
        n = rng.choice([1, 1, 2, 2, 3, 4, 5, 7, 8, 9, 12, 17])
        interp = rng.choice([0, 1])
        m = n - 1 if interp else n          # pp = r * m: ratios k/m hit the integer values of pp when m is a power of two
        exact = [fr(Fraction(rng.randint(0, m), m))] if m >= 1 and m & (m - 1) == 0 else []
        # (only dyadic ratios: the double handed to the C is then the rational handed to the model)
        r = rng.choice(["0", "1", "1/2", "1/4", "3/4", fr(Fraction(rng.randint(0, 16), 16)), fr(Fraction(1, 2 ** 10)),
                        fr(1 - Fraction(1, 2 ** 10)), "-1/8", "9/8"] + exact * 3)
        return {"k": k, "n": n, "stride": rng.choice([1, 1, 2, 3, -1, -2]), "r": r, "interp": interp,
                "data": rng.choice(["perm", "perm", "perm", "ties", "ties", "inf", "nan"]), "seed": rng.randrange(10 ** 6)}
    if k == "poly":
        return {"k": k, "n": rng.choice([0, 1, 3, 6]), "m": rng.choice([0, 1, 2, 4]),
                "sigma": [rng.choice(["1", "1/2", "4", "0", "big", "inf", "nan", "1/1048576"]) for _ in range(3)],
                "seed": rng.randrange(10 ** 6)}
    raise ValueError(k)


def gen_cases(seed, n):
    import random
    rng = random.Random(seed)
    return [gen_case(rng) for _ in range(n)]


# ----------------------------------------------------------------------------------------------
# batch runner (child) and its driver (parent)
# ----------------------------------------------------------------------------------------------
def child(path):
    sys.path.insert(0, VERIF)
    import warnings
    warnings.filterwarnings("ignore")
    import harness.overlay  # noqa: F401
    import faulthandler
    cases = json.load(open(path))
    for i, c in enumerate(cases):
        print(f"CASE {i}", flush=True)
        if c["k"] in HANG_PRONE:
            faulthandler.dump_traceback_later(WATCHDOG * (2 if os.environ.get("VERIF_SANITIZE") == "1" else 1), exit=True)
        try:
            r = KERNELS[c["k"]](c)
            faulthandler.cancel_dump_traceback_later()
        except Exception as e:           # a Python-level problem of the harness itself
            import traceback
            r = {"lines": [], "impl": [], "fail": None, "tags": ["runner-exception"],
                 "error": f"{type(e).__name__}: {e} :: {traceback.format_exc()[-1500:]}"}
        print("RES " + json.dumps(r), flush=True)
    print("DONE", flush=True)


def run_batch(cases, sanitize=False, case_timeout=20.0):
    """run `cases` in child processes; returns one result per case.  A crash / sanitizer abort / hang is
    attributed to the case that was running, and the rest of the batch continues in a new child."""
    import tempfile
    from harness import cshim
    results = [None] * len(cases)
    todo = list(range(len(cases)))
    env = cshim.asan_env() if sanitize else dict(os.environ)
    if sanitize:
        env["VERIF_SANITIZE"] = "1"
    env["PYTHONWARNINGS"] = "ignore"
    env.setdefault("OMP_NUM_THREADS", "1")
    while todo:
        fd, path = tempfile.mkstemp(suffix=".json", prefix="c20k-")
        with os.fdopen(fd, "w") as f:
            json.dump([cases[i] for i in todo], f)
        budget = 60 + case_timeout * len(todo) * (3 if sanitize else 1)
        try:
            p = subprocess.run([sys.executable, "-m", "harness.props.c20_kernels", path], cwd=VERIF, env=env,
                               capture_output=True, text=True, timeout=budget)
            out, err, rc, hung = p.stdout, p.stderr, p.returncode, False
        except subprocess.TimeoutExpired as e:
            out = (e.stdout or b"").decode() if isinstance(e.stdout, bytes) else (e.stdout or "")
            err = (e.stderr or b"").decode() if isinstance(e.stderr, bytes) else (e.stderr or "")
            rc, hung = None, True
        finally:
            try:
                os.remove(path)
            except OSError:
                pass
        if rc == 1 and "Timeout (" in err:
            hung = True
        cur, done = None, bool(out) and out.splitlines()[-1:] == ["DONE"]
        for ln in out.splitlines():
            if ln.startswith("CASE "):
                cur = int(ln[5:])
            elif ln.startswith("RES ") and cur is not None:
                results[todo[cur]] = json.loads(ln[4:])
        if done:
            break
        # the child died / hung in case `cur`
        if cur is None:
            raise RuntimeError(f"kernel runner did not start (rc={rc}): {err[-1500:]}")
        culprit = todo[cur]
        if results[culprit] is None:
            rep = [l.strip() for l in err.splitlines() if "ERROR: AddressSanitizer" in l or "runtime error" in l
                   or l.startswith("SUMMARY")]
            what = ("hangs (no answer within the time limit; the loop does not terminate)" if hung else
                    "sanitizer: " + " | ".join(rep[:3]) if rep else
                    f"crashes the interpreter (signal {-rc})" if rc is not None and rc < 0 else
                    f"kills the interpreter (exit status {rc}): {err.strip().splitlines()[-1][:200] if err.strip() else ''}")
            results[culprit] = {"lines": [], "impl": [], "fail": f"kernel {cases[culprit]['k']} {what}",
                                "tags": ["k=" + cases[culprit]["k"], "hang" if hung else "crash"]}
        todo = todo[cur + 1:]
    return results


if __name__ == "__main__":
    child(sys.argv[1])
