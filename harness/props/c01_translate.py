"""C01 translator: regenerates lean/NipyVerif/Gen/C01Source.lean from the *text* of
nipy/core/reference/coordinate_map.py — the matrix expressions and tests the property hinges on
(`AffineTransform.__init__` shape / bottom-row tests, `from_params`, `from_start_step`, `__call__`,
`_compose_affines` (np.dot order, iteration order, gate), `_product_affines` (block layout),
`shifted_*_origin`, `_fix0`, `orth_axes` (with `TINY`), `append_io_dim`, `CoordMapMaker.make_affine`,
`drop_io_dim` bookkeeping) — as Lean *terms* over the numpy idioms of `Model/C01Np.lean`.
`Props/C01Source.lean` proves that these terms are the model's definitions; when the source changes,
either the translation fails (TieBroken) or a proof obligation there stops building."""
from __future__ import annotations

import ast
import os
from fractions import Fraction

REL = "nipy/core/reference/coordinate_map.py"


class _Tr:
    """Python expression -> Lean term, directed by the expected kind:
    nat | rat | mat | vec | list | bool | pair | ix | any"""

    def __init__(self, src, leaves, tb, where):
        self.src, self.leaves, self.tb, self.where = src, leaves, tb, where

    def seg(self, n):
        return " ".join((ast.get_source_segment(self.src, n) or ast.unparse(n)).split())

    def fail(self, n, kind):
        raise self.tb(f"{self.where}: cannot translate `{self.seg(n)}` as {kind}")

    def leaf(self, n):
        for key in (self.seg(n), ast.unparse(n)):
            if key in self.leaves:
                return self.leaves[key]
        return None

    # ------------------------------------------------------------------ indices / selectors
    def ix(self, n):
        if isinstance(n, ast.UnaryOp) and isinstance(n.op, ast.USub) and isinstance(n.operand, ast.Constant) \
                and isinstance(n.operand.value, int):
            return f"(.neg {n.operand.value})"
        return f"(.pos {self.t(n, 'nat')})"

    def sel(self, n):
        if isinstance(n, ast.Slice):
            if n.step is not None:
                self.fail(n, "selector")
            lo = "none" if n.lower is None else f"(some {self.ix(n.lower)})"
            hi = "none" if n.upper is None else f"(some {self.ix(n.upper)})"
            return f"(.sl {lo} {hi})"
        return f"(.at {self.ix(n)})"

    # ------------------------------------------------------------------ expressions
    def t(self, n, kind):
        lf = self.leaf(n)
        if lf is not None:
            return lf
        m = getattr(self, "k_" + kind, None)
        if m is None:
            self.fail(n, kind)
        r = m(n)
        if r is None:
            self.fail(n, kind)
        return r

    def k_nat(self, n):
        if isinstance(n, ast.Constant) and isinstance(n.value, int) and not isinstance(n.value, bool) and n.value >= 0:
            return str(n.value)
        if isinstance(n, ast.BinOp) and isinstance(n.op, (ast.Add, ast.Sub)):
            op = "+" if isinstance(n.op, ast.Add) else "-"
            return f"({self.t(n.left, 'nat')} {op} {self.t(n.right, 'nat')})"
        if isinstance(n, ast.Call) and self.seg(n.func) == "len" and len(n.args) == 1:
            return f"(List.length {self.t(n.args[0], 'list')})"
        if isinstance(n, ast.Subscript) and isinstance(n.slice, ast.Constant) and n.slice.value == 0:
            return f"(List.getD {self.t(n.value, 'list')} 0 0)"
        return None

    def k_rat(self, n):
        if isinstance(n, ast.Constant) and isinstance(n.value, (int, float)) and not isinstance(n.value, bool):
            f = Fraction(n.value)
            return f"({f.numerator} : Rat)" if f.denominator == 1 else f"(mkRat {f.numerator} {f.denominator})"
        if isinstance(n, ast.UnaryOp) and isinstance(n.op, ast.USub):
            return f"(-{self.t(n.operand, 'rat')})"
        return None

    def k_pair(self, n):
        if isinstance(n, ast.Tuple) and len(n.elts) == 2:
            return f"({self.t(n.elts[0], 'nat')}, {self.t(n.elts[1], 'nat')})"
        if isinstance(n, ast.Subscript) and isinstance(n.slice, ast.Slice) and self.seg(n.slice) == "::-1":
            return f"(Prod.swap {self.t(n.value, 'pair')})"
        return None

    def k_list(self, n):
        if isinstance(n, ast.List):
            return "[" + ", ".join(self.t(e, "rat") for e in n.elts) + "]"
        if isinstance(n, ast.Call) and self.seg(n.func) in ("np.array", "list") and len(n.args) == 1 and not n.keywords:
            return self.t(n.args[0], "list")
        if isinstance(n, ast.Call) and isinstance(n.func, ast.Attribute) and n.func.attr == "astype":
            return self.t(n.func.value, "list")
        if isinstance(n, ast.BinOp) and isinstance(n.op, ast.Mult) and isinstance(n.left, ast.List) and len(n.left.elts) == 1:
            return f"(List.replicate {self.t(n.right, 'nat')} {self.t(n.left.elts[0], 'rat')})"
        if isinstance(n, ast.BinOp) and isinstance(n.op, ast.Add):
            return f"({self.t(n.left, 'list')} ++ {self.t(n.right, 'list')})"
        if isinstance(n, ast.Subscript) and isinstance(n.slice, ast.Slice):
            s = n.slice
            if s.step is not None and self.seg(s) == "::-1":
                return f"(List.reverse {self.t(n.value, 'list')})"
            if s.step is None and s.lower is None and s.upper is not None:
                return f"(List.take {self.t(s.upper, 'nat')} {self.t(n.value, 'list')})"
            if s.step is None and s.upper is None and s.lower is not None:
                return f"(List.drop {self.t(s.lower, 'nat')} {self.t(n.value, 'list')})"
        if isinstance(n, ast.Subscript) and not isinstance(n.slice, (ast.Slice, ast.Tuple)):
            return f"(Np.row {self.t(n.value, 'mat')} {self.ix(n.slice)})"
        return None

    def k_vec(self, n):
        if isinstance(n, ast.UnaryOp) and isinstance(n.op, ast.USub):
            return f"(Np.vneg {self.t(n.operand, 'vec')})"
        if isinstance(n, ast.Call) and self.seg(n.func) == "np.array" and len(n.args) == 1 and not n.keywords:
            return self.t(n.args[0], "vec")
        return None

    def k_mat(self, n):
        if isinstance(n, ast.Call):
            head = self.seg(n.func)
            if head == "np.dot" and len(n.args) == 2 and not n.keywords:
                return f"(Np.dot {self.t(n.args[0], 'mat')} {self.t(n.args[1], 'mat')})"
            if head == "np.identity" and 1 <= len(n.args) <= 2 and all(k.arg == "dtype" for k in n.keywords):
                return f"(Np.identity {self.t(n.args[0], 'nat')})"
            if head == "np.zeros" and len(n.args) == 1 and isinstance(n.args[0], ast.Tuple) and len(n.args[0].elts) == 2 \
                    and all(k.arg == "dtype" for k in n.keywords):
                a, b = n.args[0].elts
                return f"(Np.zeros {self.t(a, 'nat')} {self.t(b, 'nat')})"
            if head == "np.diag" and len(n.args) == 1 and not n.keywords:
                return f"(Np.diag {self.t(n.args[0], 'list')})"
            if head == "from_matvec" and len(n.args) == 2 and not n.keywords:
                return f"(Np.fromMatvec {self.t(n.args[0], 'mat')} {self.t(n.args[1], 'vec')})"
            if head == "np.array" and len(n.args) == 1 and not n.keywords and isinstance(n.args[0], ast.List) \
                    and all(isinstance(r, ast.List) for r in n.args[0].elts):
                rows = ["[" + ", ".join(self.t(e, "rat") for e in r.elts) + "]" for r in n.args[0].elts]
                return "(Np.lit [" + ", ".join(rows) + "])"
        if isinstance(n, ast.Attribute) and n.attr == "T":
            return f"(Np.T {self.t(n.value, 'mat')})"
        if isinstance(n, ast.BinOp) and isinstance(n.op, ast.Add) and isinstance(n.right, ast.Subscript) \
                and self.seg(n.right.slice).replace(" ", "") == "np.newaxis,:":
            return f"(Np.addRow {self.t(n.left, 'mat')} {self.t(n.right.value, 'vec')})"
        if isinstance(n, ast.Subscript) and isinstance(n.slice, ast.Tuple) and len(n.slice.elts) == 2 \
                and all(isinstance(e, ast.Slice) for e in n.slice.elts):
            a, b = n.slice.elts
            return f"(Np.sub {self.t(n.value, 'mat')} {self.sel(a)} {self.sel(b)})"
        return None

    def k_bmat(self, n):
        if isinstance(n, ast.Compare) and len(n.ops) == 1:
            l, r = n.left, n.comparators[0]
            if isinstance(n.ops[0], ast.Eq) and isinstance(r, ast.Constant) and r.value == 0:
                return f"(Np.eq0 {self.t(l, 'mat')})"
            if isinstance(n.ops[0], ast.Gt) and isinstance(l, ast.Call) and self.seg(l.func) == "np.abs":
                return f"(Np.absGt {self.t(l.args[0], 'mat')} {self.t(r, 'rat')})"
        return None

    def k_natlist(self, n):
        # np.where(np.all(zeros, axis=k))[0]
        if isinstance(n, ast.Subscript) and isinstance(n.slice, ast.Constant) and n.slice.value == 0 \
                and isinstance(n.value, ast.Call) and self.seg(n.value.func) == "np.where" and len(n.value.args) == 1:
            c = n.value.args[0]
            if isinstance(c, ast.Call) and self.seg(c.func) == "np.all" and len(c.args) == 1 and len(c.keywords) == 1 \
                    and c.keywords[0].arg == "axis" and isinstance(c.keywords[0].value, ast.Constant):
                ax = c.keywords[0].value.value
                if ax in (0, 1):
                    return f"(Np.whereAllAxis{ax} {self.t(c.args[0], 'bmat')})"
        return None

    def k_bool(self, n):
        if isinstance(n, ast.UnaryOp) and isinstance(n.op, ast.Not):
            return f"(!{self.t(n.operand, 'bool')})"
        if isinstance(n, ast.BoolOp):
            op = " && " if isinstance(n.op, ast.And) else " || "
            return "(" + op.join(self.t(v, "bool") for v in n.values) + ")"
        if isinstance(n, ast.Compare) and len(n.ops) == 1 and isinstance(n.ops[0], (ast.Eq, ast.NotEq)):
            l, r = n.left, n.comparators[0]
            kind = "pair" if (isinstance(l, ast.Tuple) or isinstance(r, ast.Tuple)
                              or "shape" in self.seg(l)) else self.leaves.get("#cmp", "nat")
            rel = "=" if isinstance(n.ops[0], ast.Eq) else "≠"
            return f"(decide ({self.t(l, kind)} {rel} {self.t(r, kind)}))"
        if isinstance(n, ast.Call):
            head = self.seg(n.func)
            if head == "np.allclose" and len(n.args) == 2 and not n.keywords:
                return f"(Np.allclose {self.t(n.args[0], 'list')} {self.t(n.args[1], 'list')})"
            if head == "np.all" and len(n.args) == 1 and not n.keywords and isinstance(n.args[0], ast.Compare):
                c = n.args[0]
                if len(c.ops) == 1 and isinstance(c.ops[0], ast.Eq) and isinstance(c.comparators[0], ast.Constant) \
                        and c.comparators[0].value == 0 and isinstance(c.left, ast.Subscript):
                    s = c.left
                    if isinstance(s.slice, ast.Tuple) and len(s.slice.elts) == 2 and self.seg(s.slice.elts[0]) == ":":
                        return f"(Np.allColFalse {self.t(s.value, 'bmat')} {self.t(s.slice.elts[1], 'nat')})"
                    if not isinstance(s.slice, (ast.Tuple, ast.Slice)):
                        return f"(Np.allRowFalse {self.t(s.value, 'bmat')} {self.t(s.slice, 'nat')})"
        if isinstance(n, ast.Subscript) and isinstance(n.slice, ast.Tuple) and len(n.slice.elts) == 2:
            a, b = n.slice.elts
            return f"({self.t(n.value, 'bmat')}.f {self.t(a, 'nat')} {self.t(b, 'nat')})"
        return None

    def k_any(self, n):
        return None

    # ------------------------------------------------------------------ statements
    def subassign(self, st):
        """`X[a, b] = v` as the new value of X"""
        tg = st.targets[0]
        if not (isinstance(tg.slice, ast.Tuple) and len(tg.slice.elts) == 2):
            self.fail(st, "subscript assignment")
        a, b = tg.slice.elts
        base = self.t(tg.value, "any")
        sa, sb = isinstance(a, ast.Slice), isinstance(b, ast.Slice)
        if self.leaves.get("#bool"):
            if sa or sb or not (isinstance(st.value, ast.Constant) and st.value.value == 0):
                self.fail(st, "boolean cell assignment")
            return f"(Np.bclear {base} {self.t(a, 'nat')} {self.t(b, 'nat')})"
        if sa and sb:
            return f"(Np.setBlock {base} {self.sel(a)} {self.sel(b)} {self.t(st.value, 'mat')})"
        if sa and not sb:
            return f"(Np.setCol {base} {self.sel(a)} {self.ix(b)} {self.t(st.value, 'vec')})"
        if not sa and not sb:
            return f"(Np.setCell {base} {self.ix(a)} {self.ix(b)} {self.t(st.value, 'rat')})"
        self.fail(st, "subscript assignment")


def _ordered(node):
    """statements / expressions of a function in source order"""
    out = []
    for n in ast.walk(node):
        if hasattr(n, "lineno"):
            out.append(n)
    out.sort(key=lambda n: (n.lineno, n.col_offset, -(getattr(n, "end_lineno", n.lineno) * 10000
                                                         + getattr(n, "end_col_offset", 0))))
    return out


def _find_def(tree, path):
    node = tree
    for nm in path:
        node = next((b for b in node.body if isinstance(b, (ast.FunctionDef, ast.ClassDef)) and b.name == nm), None)
        if node is None:
            return None
    return node


def _locate(src, fdef, loc, tb, where):
    kind = loc[0]
    nodes = _ordered(fdef)
    seg = lambda n: " ".join((ast.get_source_segment(src, n) or "").split())   # noqa: E731
    if kind == "assign":
        _, target, nth = loc
        hits = [n.value for n in nodes if (isinstance(n, ast.Assign) and len(n.targets) == 1 and seg(n.targets[0]) == target)
                or (isinstance(n, ast.AugAssign) and seg(n.target) == target)]
    elif kind == "subassign":
        _, base, nth = loc
        hits = [n for n in nodes if isinstance(n, ast.Assign) and len(n.targets) == 1
                and isinstance(n.targets[0], ast.Subscript) and seg(n.targets[0].value) == base]
    elif kind == "test_with":
        _, sub, nth = loc
        hits = [n.test for n in nodes if isinstance(n, ast.If) and sub in seg(n.test)]
    elif kind == "return":
        _, nth = loc
        hits = [n.value for n in nodes if isinstance(n, ast.Return) and n.value is not None]
    elif kind == "for_iter":
        _, nth = loc
        hits = [n.iter for n in nodes if isinstance(n, ast.For)]
    elif kind == "call":
        _, head, nth = loc
        hits = [n for n in nodes if isinstance(n, ast.Call) and seg(n.func) == head]
    else:
        raise tb(f"{where}: unknown locator {loc}")
    if len(hits) <= nth:
        raise tb(f"{REL}:{where}: {loc} not found")
    return hits[nth]


# (lean name, def path, locator, binders, kind, leaves)
ITEMS = [
    # ---- AffineTransform.__init__ -------------------------------------------------------------
    ("initShapeBad", ["AffineTransform", "__init__"], ("test_with", "affine.shape", 0),
     "(shape : Nat × Nat) (nin nout : Nat) : Bool", "bool",
     {"affine.shape": "shape", "self.ndims[1]": "nout", "self.ndims[0]": "nin"}),
    ("initBottomRow", ["AffineTransform", "__init__"], ("assign", "bottom_row", 0),
     "(nin : Nat) : List Rat", "list", {"self.ndims[0]": "nin"}),
    ("initBottomBad", ["AffineTransform", "__init__"], ("test_with", "np.allclose", 0),
     "(affine : Np.FM) (bottom_row : List Rat) : Bool", "bool", {"affine": "affine", "bottom_row": "bottom_row"}),
    # ---- from_params / from_start_step --------------------------------------------------------
    ("fromParamsTuple", ["AffineTransform", "from_params"], ("assign", "params", 0),
     "(A : Np.FM) (b : Nat → Rat) : Np.FM", "mat", {"A": "A", "b": "b"}),
    ("fromParamsNdim", ["AffineTransform", "from_params"], ("assign", "ndim", 0),
     "(nin nout : Nat) : Nat × Nat", "pair", {"len(innames)": "nin", "len(outnames)": "nout"}),
    ("fromParamsShapeBad", ["AffineTransform", "from_params"], ("test_with", "params.shape", 0),
     "(shape ndim : Nat × Nat) : Bool", "bool", {"params.shape": "shape", "ndim": "ndim"}),
    ("fromStartStepNdim", ["AffineTransform", "from_start_step"], ("assign", "ndim", 0),
     "(nin : Nat) : Nat", "nat", {"len(innames)": "nin"}),
    ("fromStartStepBad", ["AffineTransform", "from_start_step"], ("test_with", "len(outnames)", 0),
     "(nout ndim : Nat) : Bool", "bool", {"len(outnames)": "nout", "ndim": "ndim"}),
    ("fromStartStepParams", ["AffineTransform", "from_start_step"], ("call", "AffineTransform.from_params", 0),
     "(step : List Rat) (start : Nat → Rat) : Np.FM", "#matvec_arg2", {"step": "step", "start": "start"}),
    # ---- __call__ ----------------------------------------------------------------------------
    ("callOut", ["AffineTransform", "__call__"], ("assign", "out_vals", 0),
     "(in_vals A : Np.FM) (b : Nat → Rat) : Np.FM", "mat", {"in_vals": "in_vals", "A": "A", "b": "b"}),
    ("callSplit", ["AffineTransform", "__call__"], ("assign", "A, b", 0),
     "(affine : Np.FM) : Np.FM × (Nat → Rat)", "#to_matvec", {"self.affine": "affine"}),
    # ---- _compose_affines --------------------------------------------------------------------
    ("composeInitMat", ["_compose_affines"], ("call", "AffineTransform", 0),
     "(nin_last : Nat) : Np.FM", "#arg2mat", {"affines[-1].ndims[0]": "nin_last"}),
    ("composeOrder", ["_compose_affines"], ("for_iter", 0),
     "{α : Type} (affines : List α) : List α", "list", {"affines": "affines"}),
    ("composeGate", ["_compose_affines"], ("test_with", "function_domain", 0),
     "(cmap_dom cur_rng : CoordSys) : Bool", "bool",
     {"cmap.function_domain": "cmap_dom", "cur.function_range": "cur_rng", "#cmp": "any"}),
    ("composeStepMat", ["_compose_affines"], ("call", "AffineTransform", 1),
     "(cmap_affine cur_affine : Np.FM) : Np.FM", "#arg2mat", {"cmap.affine": "cmap_affine", "cur.affine": "cur_affine"}),
    ("composeStepCS", ["_compose_affines"], ("call", "AffineTransform", 1),
     "(cur_dom cur_rng cmap_dom cmap_rng : CoordSys) : CoordSys × CoordSys", "#arg01",
     {"cur.function_domain": "cur_dom", "cur.function_range": "cur_rng",
      "cmap.function_domain": "cmap_dom", "cmap.function_range": "cmap_rng"}),
    # ---- _product_affines --------------------------------------------------------------------
    ("productZeros", ["_product_affines"], ("assign", "M", 0),
     "(sum_ndimout sum_ndimin : Nat) : Np.FM", "mat", {"np.sum(ndimout)": "sum_ndimout", "np.sum(ndimin)": "sum_ndimin"}),
    ("productCorner", ["_product_affines"], ("subassign", "M", 0), "(M : Np.FM) : Np.FM", "#sub", {"M": "M"}),
    ("productSplit", ["_product_affines"], ("assign", "A, b", 0),
     "(affine : Np.FM) : Np.FM × (Nat → Rat)", "#to_matvec", {"affine.affine": "affine"}),
    ("productBlock", ["_product_affines"], ("subassign", "M", 1),
     "(M : Np.FM) (i j nout_l nin_l : Nat) (A : Np.FM) : Np.FM", "#sub",
     {"M": "M", "i": "i", "j": "j", "ndimout[l]": "nout_l", "ndimin[l]": "nin_l", "A": "A"}),
    ("productCol", ["_product_affines"], ("subassign", "M", 2),
     "(M : Np.FM) (i nout_l : Nat) (b : Nat → Rat) : Np.FM", "#sub",
     {"M": "M", "i": "i", "ndimout[l]": "nout_l", "b": "b"}),
    ("productNextI", ["_product_affines"], ("assign", "i", 1), "(i nout_l : Nat) : Nat", "#aug",
     {"i": "i", "ndimout[l]": "nout_l"}),
    ("productNextJ", ["_product_affines"], ("assign", "j", 1), "(j nin_l : Nat) : Nat", "#aug",
     {"j": "j", "ndimin[l]": "nin_l"}),
    # ---- shifted origins ---------------------------------------------------------------------
    ("shiftDomInit", ["shifted_domain_origin"], ("assign", "shift_matrix", 0), "(ndim : Nat) : Np.FM", "mat", {"ndim": "ndim"}),
    ("shiftDomSet", ["shifted_domain_origin"], ("subassign", "shift_matrix", 0),
     "(shift_matrix : Np.FM) (difference_vector : Nat → Rat) : Np.FM", "#sub",
     {"shift_matrix": "shift_matrix", "difference_vector": "difference_vector"}),
    ("shiftDomOrder", ["shifted_domain_origin"], ("call", "_compose_affines", 0),
     "{α : Type} (mapping shift_map : α) : List α", "#args", {"mapping": "mapping", "shift_map": "shift_map"}),
    ("shiftRngInit", ["shifted_range_origin"], ("assign", "shift_matrix", 0), "(ndim : Nat) : Np.FM", "mat", {"ndim": "ndim"}),
    ("shiftRngSet", ["shifted_range_origin"], ("subassign", "shift_matrix", 0),
     "(shift_matrix : Np.FM) (difference_vector : Nat → Rat) : Np.FM", "#sub",
     {"shift_matrix": "shift_matrix", "difference_vector": "difference_vector"}),
    ("shiftRngOrder", ["shifted_range_origin"], ("call", "_compose_affines", 0),
     "{α : Type} (mapping shift_map : α) : List α", "#args", {"mapping": "mapping", "shift_map": "shift_map"}),
    # ---- _fix0 -------------------------------------------------------------------------------
    ("fix0Zeros", ["_fix0"], ("assign", "zeros", 0), "(aff : Np.FM) : Np.BM", "bmat", {"aff": "aff"}),
    ("fix0Zrs", ["_fix0"], ("assign", "zrs", 0), "(zeros : Np.BM) : List Nat", "natlist", {"zeros": "zeros"}),
    ("fix0Zcs", ["_fix0"], ("assign", "zcs", 0), "(zeros : Np.BM) : List Nat", "natlist", {"zeros": "zeros"}),
    ("fix0NoFix", ["_fix0"], ("test_with", "len(zrs)", 0), "(zrs zcs : List Nat) : Bool", "bool", {"zrs": "zrs", "zcs": "zcs"}),
    ("fix0Set", ["_fix0"], ("subassign", "fixed_aff", 0), "(fixed_aff : Np.FM) (zrs zcs : List Nat) : Np.FM", "#sub",
     {"fixed_aff": "fixed_aff", "zrs": "zrs", "zcs": "zcs"}),
    # ---- orth_axes ---------------------------------------------------------------------------
    ("orthSplit", ["orth_axes"], ("assign", "rzs, trans", 0),
     "(affine : Np.FM) : Np.FM × (Nat → Rat)", "#to_matvec", {"affine": "affine"}),
    ("orthNzs", ["orth_axes"], ("assign", "nzs", 0), "(rzs : Np.FM) (tol : Rat) : Np.BM", "bmat", {"rzs": "rzs", "tol": "tol"}),
    ("orthEarly", ["orth_axes"], ("test_with", "allow_zero", 0),
     "(allow_zero : Bool) (nzs : Np.BM) (out_ax in_ax : Nat) : Bool", "bool",
     {"allow_zero": "allow_zero", "nzs": "nzs", "out_ax": "out_ax", "in_ax": "in_ax"}),
    ("orthClear", ["orth_axes"], ("subassign", "nzs", 0), "(nzs : Np.BM) (out_ax in_ax : Nat) : Np.BM", "#sub",
     {"nzs": "nzs", "out_ax": "out_ax", "in_ax": "in_ax", "#bool": True}),
    ("orthReturn", ["orth_axes"], ("return", 1), "(nzs : Np.BM) (out_ax in_ax : Nat) : Bool", "bool",
     {"nzs": "nzs", "out_ax": "out_ax", "in_ax": "in_ax"}),
    # ---- append_io_dim -----------------------------------------------------------------------
    ("appendExtra", ["append_io_dim"], ("assign", "extra_aff", 0), "(start step : Rat) : Np.FM", "mat",
     {"start": "start", "step": "step"}),
    ("appendOrder", ["append_io_dim"], ("call", "product", 0), "{α : Type} (cm extra_cmap : α) : List α", "#args",
     {"cm": "cm", "extra_cmap": "extra_cmap"}),
    # ---- CoordMapMaker.make_affine ------------------------------------------------------------
    ("makeOND", ["CoordMapMaker", "make_affine"], ("assign", "o_n_domain", 0), "(cols : Nat) : Nat", "nat", {"affine.shape[1]": "cols"}),
    ("makeONR", ["CoordMapMaker", "make_affine"], ("assign", "o_n_range", 0), "(rows : Nat) : Nat", "nat", {"affine.shape[0]": "rows"}),
    ("makeAffine1", ["CoordMapMaker", "make_affine"], ("assign", "affine1", 0),
     "(append_zooms : List Rat) (append_offsets : Nat → Rat) : Np.FM", "mat",
     {"append_zooms": "append_zooms", "append_offsets": "append_offsets"}),
    ("makeDom0", ["CoordMapMaker", "make_affine"], ("call", "CS", 0), "{α : Type} (names : List α) (o_n_domain : Nat) : List α",
     "#arg0list", {"domain.coord_names": "names", "o_n_domain": "o_n_domain"}),
    ("makeRng0", ["CoordMapMaker", "make_affine"], ("call", "CS", 1), "{α : Type} (names : List α) (o_n_range : Nat) : List α",
     "#arg0list", {"range.coord_names": "names", "o_n_range": "o_n_range"}),
    ("makeDom1", ["CoordMapMaker", "make_affine"], ("call", "CS", 2), "{α : Type} (names : List α) (o_n_domain : Nat) : List α",
     "#arg0list", {"domain.coord_names": "names", "o_n_domain": "o_n_domain"}),
    ("makeRng1", ["CoordMapMaker", "make_affine"], ("call", "CS", 3), "{α : Type} (names : List α) (o_n_range : Nat) : List α",
     "#arg0list", {"range.coord_names": "names", "o_n_range": "o_n_range"}),
    ("makeOrder", ["CoordMapMaker", "make_affine"], ("call", "product", 0), "{α : Type} (cmap0 cmap1 : α) : List α", "#args",
     {"cmap0": "cmap0", "cmap1": "cmap1"}),
    ("makeDomN", ["CoordMapMaker", "make_affine"], ("call", "self.domain_maker", 0), "(o_n_domain extra_N : Nat) : Nat",
     "#arg0nat", {"o_n_domain": "o_n_domain", "extra_N": "extra_N"}),
    ("makeRngN", ["CoordMapMaker", "make_affine"], ("call", "self.range_maker", 0), "(o_n_range extra_N : Nat) : Nat",
     "#arg0nat", {"o_n_range": "o_n_range", "extra_N": "extra_N"}),
]


REL_CS = "nipy/core/reference/coordinate_system.py"

# coordinate_system.py: (lean name, def path, locator, binders, kind, leaves)
ITEMS_CS = [
    ("csCompositeDtype", ["CoordinateSystem", "__init__"], ("assign", "self.dtype", 0),
     "{δ : Type} (coord_names : List String) (coord_dtype : δ) : List (String × δ)", "#dtype_listcomp",
     {"self.coord_names": "coord_names", "self.coord_dtype": "coord_dtype"}),
    ("csEqExpr", ["CoordinateSystem", "__eq__"], ("return", 0),
     "{δ : Type} [DecidableEq δ] (self_dtype other_dtype : δ) (self_name other_name : String) : Bool", "bool",
     {"self.dtype": "self_dtype", "other.dtype": "other_dtype", "self.name": "self_name", "other.name": "other_name",
      "#cmp": "any"}),
    ("csSimilarExpr", ["CoordinateSystem", "similar_to"], ("return", 0),
     "{δ : Type} [DecidableEq δ] (self_dtype other_dtype : δ) : Bool", "bool",
     {"self.dtype": "self_dtype", "other.dtype": "other_dtype", "#cmp": "any"}),
    ("csNeExpr", ["CoordinateSystem", "__ne__"], ("return", 0), "(eq : Bool) : Bool", "bool",
     {"self.__eq__(other)": "eq"}),
    ("checkedWidthBad", ["CoordinateSystem", "_checked_values"], ("test_with", "arr.shape[-1]", 0),
     "(last ndim : Nat) : Bool", "bool", {"arr.shape[-1]": "last", "self.ndim": "ndim"}),
    ("checkedCastBad", ["CoordinateSystem", "_checked_values"], ("test_with", "np.can_cast", 0),
     "{δ : Type} (can_cast : δ → δ → Bool) (arr_dtype coord_dtype : δ) : Bool", "bool",
     {"np.can_cast(arr.dtype, self.coord_dtype)": "(can_cast arr_dtype coord_dtype)"}),
    ("makerRefuse", ["CoordSysMaker", "__call__"], ("test_with", "len(self.coord_names)", 0),
     "(N len : Nat) : Bool", "#gt", {"N": "N", "len(self.coord_names)": "len"}),
    ("makerNames", ["CoordSysMaker", "__call__"], ("call", "self.coord_sys_klass", 0),
     "{α : Type} (names : List α) (N : Nat) : List α", "#arg0list", {"self.coord_names": "names", "N": "N"}),
]


def translate(repo, TieBroken):
    fp = os.path.join(repo, REL)
    try:
        src = open(fp).read()
        tree = ast.parse(src)
    except Exception as e:      # noqa: BLE001
        raise TieBroken(f"{REL} does not parse: {e}")
    try:
        src_cs = open(os.path.join(repo, REL_CS)).read()
        tree_cs = ast.parse(src_cs)
    except Exception as e:      # noqa: BLE001
        raise TieBroken(f"{REL_CS} does not parse: {e}")
    out = ["/- GENERATED by harness/props/c01_translate.py from the text of",
           f"   {REL}.  Each definition is the Python expression / statement named in its",
           "   docstring, leaves renamed, numpy idioms as in Model/C01Np.lean.  Do not edit. -/",
           "import NipyVerif.Model.C01Np", "", "namespace NipyVerif.C01.Src", "open NipyVerif.C01", ""]
    for name, path, loc, binders, kind, leaves in ITEMS:
        where = ".".join(path) + ":" + name
        fdef = _find_def(tree, path)
        if fdef is None:
            raise TieBroken(f"{REL}: {'.'.join(path)} not found")
        node = _locate(src, fdef, loc, TieBroken, where)
        tr = _Tr(src, leaves, TieBroken, where)
        doc = tr.seg(node)
        if kind == "#sub":
            body = tr.subassign(node)
        elif kind == "#aug":
            body = f"({tr.t(ast.Name(id=loc[1]), 'nat')} + {tr.t(node, 'nat')})"
            doc = f"{loc[1]} += {doc}"
        elif kind == "#to_matvec":
            if not (isinstance(node, ast.Call) and tr.seg(node.func) == "to_matvec" and len(node.args) == 1):
                raise TieBroken(f"{REL}:{where}: expected to_matvec(...), found `{doc}`")
            a = tr.t(node.args[0], "mat")
            body = f"(Np.mvA {a}, Np.mvB {a})"
        elif kind == "#arg2mat":
            if len(node.args) < 3:
                raise TieBroken(f"{REL}:{where}: expected three positional arguments in `{doc}`")
            body = tr.t(node.args[2], "mat")
            doc = tr.seg(node.args[2])
        elif kind == "#matvec_arg2":
            a = node.args[2] if len(node.args) >= 3 else None
            if not (isinstance(a, ast.Tuple) and len(a.elts) == 2):
                raise TieBroken(f"{REL}:{where}: expected an (A, b) tuple as third argument of `{doc}`")
            # from_params turns the tuple into from_matvec(A, b) (see fromParamsTuple)
            body = f"(fromParamsTuple {tr.t(a.elts[0], 'mat')} {tr.t(a.elts[1], 'vec')})"
            doc = tr.seg(a)
        elif kind == "#arg01":
            if len(node.args) < 2:
                raise TieBroken(f"{REL}:{where}: expected two positional arguments in `{doc}`")
            body = f"({tr.t(node.args[0], 'any')}, {tr.t(node.args[1], 'any')})"
        elif kind == "#args":
            if node.keywords:
                raise TieBroken(f"{REL}:{where}: unexpected keywords in `{doc}`")
            body = "[" + ", ".join(tr.t(a, "any") for a in node.args) + "]"
        elif kind == "#arg0list":
            body = tr.t(node.args[0], "list")
        elif kind == "#arg0nat":
            body = tr.t(node.args[0], "nat")
        else:
            body = tr.t(node, kind)
        out.append(f"/-- `{doc}` ({'.'.join(path)}) -/")
        out.append(f"def {name} {binders} := {body}")
    # module constant TINY and the default of orth_axes(tol=…), numpy's allclose defaults are numpy's own
    tiny = next((n.value for n in tree.body if isinstance(n, ast.Assign) and len(n.targets) == 1
                 and ast.unparse(n.targets[0]) == "TINY"), None)
    try:
        tv = Fraction(float(ast.literal_eval(tiny)))
    except Exception:      # noqa: BLE001
        raise TieBroken(f"{REL}: TINY is not a numeric literal")
    fdef = _find_def(tree, ["orth_axes"])
    a = fdef.args
    names_ = [x.arg for x in a.args]
    try:
        d = a.defaults[names_.index("tol") - (len(names_) - len(a.defaults))]
        az = a.defaults[names_.index("allow_zero") - (len(names_) - len(a.defaults))]
    except Exception:      # noqa: BLE001
        raise TieBroken(f"{REL}: orth_axes has no default for tol / allow_zero")
    if ast.unparse(d) != "TINY":
        raise TieBroken(f"{REL}: orth_axes default tol is `{ast.unparse(d)}`, not TINY")
    out.append(f"/-- `TINY = {ast.unparse(tiny)}` as the exact binary64 value; it is the default `tol` of orth_axes -/")
    out.append(f"def TINY : Rat := mkRat {tv.numerator} {tv.denominator}")
    out.append(f"def orthAllowZeroDefault : Bool := {'true' if ast.unparse(az) == 'True' else 'false'}")
    # drop_io_dim: which list loses which position
    fdef = _find_def(tree, ["drop_io_dim"])
    pops = [(" ".join(ast.unparse(n.func.value).split()), ast.unparse(n.args[0])) for n in _ordered(fdef)
            if isinstance(n, ast.Call) and isinstance(n.func, ast.Attribute) and n.func.attr == "pop" and len(n.args) == 1]
    out.append("/-- the `.pop` calls of drop_io_dim, in source order: (list, position) -/")
    out.append("def dropPops : List (String × String) := [" + ", ".join(f'("{a_}", "{b_}")' for a_, b_ in pops) + "]")
    call = _locate(src, fdef, ("call", "orth_axes", 0), TieBroken, "drop_io_dim:orth_axes")
    out.append("/-- the arguments of the orth_axes call in drop_io_dim -/")
    out.append("def dropOrthArgs : List String := [" + ", ".join(
        '"' + ast.unparse(x) + '"' for x in call.args) + "] ++ [" + ", ".join(
        '"' + k.arg + "=" + ast.unparse(k.value) + '"' for k in call.keywords) + "]")
    sel = [" ".join(ast.unparse(n.value).split()) for n in _ordered(fdef)
           if isinstance(n, ast.Assign) and ast.unparse(n.targets[0]) == "aff"]
    out.append("/-- the assignments to `aff` in drop_io_dim -/")
    out.append("def dropAffAssigns : List String := [" + ", ".join(f'"{s}"' for s in sel) + "]")
    out.append("")
    out.append(f"/-! from {REL_CS} -/")
    for name, path, loc, binders, kind, leaves in ITEMS_CS:
        where = REL_CS + ":" + ".".join(path) + ":" + name
        fdef = _find_def(tree_cs, path)
        if fdef is None:
            raise TieBroken(f"{REL_CS}: {'.'.join(path)} not found")
        node = _locate(src_cs, fdef, loc, TieBroken, where)
        tr = _Tr(src_cs, leaves, TieBroken, where)
        doc = tr.seg(node)
        if kind == "#dtype_listcomp":
            # np.dtype([(name, self.coord_dtype) for name in self.coord_names])
            ok = (isinstance(node, ast.Call) and tr.seg(node.func) == "np.dtype" and len(node.args) == 1
                  and isinstance(node.args[0], ast.ListComp) and len(node.args[0].generators) == 1
                  and not node.args[0].generators[0].ifs and isinstance(node.args[0].elt, ast.Tuple)
                  and len(node.args[0].elt.elts) == 2)
            if not ok:
                raise TieBroken(f"{where}: unexpected shape `{doc}`")
            lc = node.args[0]
            var = tr.seg(lc.generators[0].target)
            a, b = lc.elt.elts
            tr.leaves = dict(leaves, **{var: var})
            body = f"(List.map (fun {var} => ({tr.t(a, 'any')}, {tr.t(b, 'any')})) {tr.t(lc.generators[0].iter, 'any')})"
        elif kind == "#gt":
            if not (isinstance(node, ast.Compare) and len(node.ops) == 1 and isinstance(node.ops[0], ast.Gt)):
                raise TieBroken(f"{where}: expected `a > b`, found `{doc}`")
            body = f"(decide ({tr.t(node.left, 'nat')} > {tr.t(node.comparators[0], 'nat')}))"
        elif kind == "#arg0list":
            body = tr.t(node.args[0], "list")
            doc = tr.seg(node.args[0])
        else:
            body = tr.t(node, kind)
        out.append(f"/-- `{doc}` ({'.'.join(path)}) -/")
        out.append(f"def {name} {binders} := {body}")
    # the default name of product(), the dtype kinds safe_dtype accepts
    fdef = _find_def(tree_cs, ["product"])
    pops = [n for n in _ordered(fdef) if isinstance(n, ast.Call) and ast.unparse(n.func) == "kwargs.pop" and len(n.args) == 2]
    if len(pops) != 1 or not all(isinstance(a_, ast.Constant) and isinstance(a_.value, str) for a_ in pops[0].args):
        raise TieBroken(f"{REL_CS}: product: expected one kwargs.pop('name', <default>)")
    out.append(f"/-- `{ast.unparse(pops[0])}` (product) -/")
    out.append(f'def csProductKw : String := "{pops[0].args[0].value}"')
    out.append(f'def csProductDefaultName : String := "{pops[0].args[1].value}"')
    fdef = _find_def(tree_cs, ["safe_dtype"])
    sub = [n for n in _ordered(fdef) if isinstance(n, ast.Call) and isinstance(n.func, ast.Attribute)
           and n.func.attr == "issubset" and len(n.args) == 1 and isinstance(n.args[0], ast.Constant)]
    if len(sub) != 1:
        raise TieBroken(f"{REL_CS}: safe_dtype: expected one set(kinds).issubset('<kinds>')")
    out.append(f"/-- `{ast.unparse(sub[0])}` (safe_dtype) -/")
    out.append(f'def safeKinds : String := "{sub[0].args[0].value}"')
    out += ["", "end NipyVerif.C01.Src", ""]
    return [("NipyVerif/Gen/C01Source.lean", "\n".join(out))]
