"""C09 extension — the rest of the public surface of histogram_registration.py / similarity_measures.py
that the first round never executed: `approx_gradient`, `approx_hessian_diag`, `approx_hessian`,
`eval_gradient`, `eval_hessian`, `explore`, the `interp` / `similarity` properties, `smooth_image`
(`smooth=` argument), the VERBOSE callback of `optimize`, `SimilarityMeasure.loss`.

Case kinds: `agrad` (finite-difference helpers on exact rational objectives: model line + textbook oracle),
`regapi` (one operation on a real HistogramRegistration object: model lines where the arithmetic is
rational, oracle = the operation's documented meaning recomputed independently through `eval`).
"""
from __future__ import annotations

import contextlib
import io
import math

import numpy as np

from harness.util import errname, fr, frs, plist
from harness.props.c09_opt import FixedRng, make_obj, obj_text

API_OPS = ["gradient", "hessian", "hessian_diag", "explore", "interp", "similarity", "smooth", "verbose",
           "baseloss", "ideal", "ideal"]


# ----------------------------------------------------------------------
# approx_gradient / approx_hessian_diag / approx_hessian
# ----------------------------------------------------------------------
def gen_agrad(rng):
    n = rng.choice([1, 2, 2, 3])
    dy = lambda: rng.randrange(-16, 17) / rng.choice([1, 2, 4])
    c = [dy() for _ in range(n)]
    if rng.random() < 0.7:
        terms = [[rng.choice([0.25, 0.5, 1, 2, 8]), [rng.choice([0, 1, 1, -1, 2]) for _ in range(n)]]
                 for _ in range(rng.choice([1, n, n + 1]))]
        obj = {"type": "squares", "c": c, "c0": rng.choice([0, 1, -3, 0.5]), "terms": terms}
    else:
        lo = [rng.choice([0, 0, 0.5, 1]) for _ in range(n)]
        obj = {"type": "plateau", "w": [rng.choice([1, 2, 0.5, 4]) for _ in range(n)], "c": c,
               "lo": lo, "hi": [l + rng.choice([0.5, 2, 8]) for l in lo]}
    return {"kind": "agrad", "which": rng.choice(["g", "g", "d", "h"]), "n": n, "obj": obj,
            "x": [dy() for _ in range(n)], "eps": rng.choice([0.125, 0.25, 0.5, 1.0, 2.0, -0.5, 2 ** -10])}


def run_agrad(c, patch):
    hr, sm = patch()
    f = make_obj(c["obj"])
    x = np.array(c["x"], float)
    x_before = x.copy()
    fn = {"g": hr.approx_gradient, "d": hr.approx_hessian_diag, "h": hr.approx_hessian}[c["which"]]
    try:
        out = np.asarray(fn(f, x, c["eps"]), float)
    except Exception as e:
        return {"lines": [], "impl": [], "nontrivial": True, "tags": ["agrad", "raised"],
                "oracle": f"approx_* ({c['which']}) raised {type(e).__name__}: {e}"}
    fail = None
    if not np.array_equal(x, x_before):
        fail = "approx_* modified the point it was given"
    elif c["obj"]["type"] == "squares":
        o = c["obj"]
        D = np.array([d for d, _ in o["terms"]], float)
        Lm = np.array([l for _, l in o["terms"]], float).reshape(len(D), c["n"])
        r = Lm @ (x - np.array(o["c"], float))
        want = {"g": 2 * Lm.T @ (D * r), "d": np.diag(2 * Lm.T @ (D[:, None] * Lm)),
                "h": 2 * Lm.T @ (D[:, None] * Lm)}[c["which"]]
        if not np.allclose(out, want, rtol=1e-7, atol=1e-7):
            fail = (f"central finite differences ({c['which']}) of a quadratic are not its derivatives: got "
                    f"{out.tolist()}, analytic {np.asarray(want).tolist()} (x={c['x']}, epsilon={c['eps']})")
    line = f"agrad {c['which']} {c['n']} {obj_text(c['obj'])} {frs(c['x'])} {fr(c['eps'])}"
    return {"lines": [line], "impl": [("rats", out.ravel().tolist(), 1e-9)], "oracle": fail,
            "nontrivial": bool(np.any(out != 0)), "tags": ["agrad", "fd=" + c["which"], "obj=" + c["obj"]["type"]],
            "mutated": None}


# ----------------------------------------------------------------------
# operations on a HistogramRegistration object
# ----------------------------------------------------------------------
def gen_regapi(rng, op=None):
    op = op or rng.choice(API_OPS)
    c = {"kind": "regapi", "op": op, "dseed": rng.randrange(10 ** 6),
         "shape": [rng.choice([4, 5, 6]) for _ in range(3)],
         "vox": rng.choice([[1.0, 1.0, 1.0], [2.0, 2.0, 2.0], [2.0, 1.0, 4.0]]),
         "sim": rng.choice(["cc", "cr", "crl1", "mi", "nmi", "pmi", "dpmi"]),
         "interp": rng.choice(["pv", "pv", "tri", "rand"]), "bins": rng.choice([4, 8, 16]),
         "ttype": rng.choice(["rigid", "affine", "similarity"]),
         "start": [rng.choice([0.0, 0.5, -0.25, 1.0]) for _ in range(3)] + [rng.choice([0.0, 0.0, 0.03125]) for _ in range(3)],
         "eps": rng.choice([0.125, 0.5, 1.0, 0.1])}
    if op == "explore":
        nargs = rng.choice([0, 1, 1, 2, 2, 3])
        args = []
        for _ in range(nargs):
            ax = rng.choice([0, 1, 2, 3, 4, 5, -1, -2, 0, 1]) if rng.random() < 0.9 else rng.choice([40, -40])
            args.append([ax, [rng.choice([-2.0, -1.0, -0.5, 0.0, 0.25, 1.0, 3.0]) for _ in range(rng.choice([0, 1, 2, 3]))]])
        c["args"] = args
    if op == "interp":
        c["name"] = rng.choice(["pv", "tri", "rand", "pv", "tri", "rand", "nearest", "PV", "linear"])
    if op == "similarity":
        c["via"] = rng.choice(["setter", "setter", "ctor"])
        c["name"] = rng.choice(["cc", "cr", "crl1", "mi", "nmi", "pmi", "dpmi", "slr", "slr", "<callable>", "<obj>",
                                "ncc", "MI"])
        c["dist"] = rng.choice([None, "ok", "badshape"])
    if op == "smooth":
        c["sigma"] = rng.choice([0.5, 1.0, 2.0, 3.0, -1.0, 0.0])
    if op == "verbose":
        c["optimizer"] = rng.choice(["powell", "steepest", "simplex", "cg", "bfgs"])
    if op == "ideal":
        c["dims"] = [rng.choice([1, 2, 3, 4, 5, 6, 9]) for _ in range(3)]
        c["mask_p"] = rng.choice([0.0, 0.0, 0.3, 0.7, 1.0])
        n = c["dims"][0] * c["dims"][1] * c["dims"][2]
        c["npoints"] = rng.choice([1, 1, 2, 3, 5, 8, max(1, n // 2), n, n + 5, 10 ** 6])
        c["via"] = rng.choice(["direct", "direct", "set_fov", "subsample"])
    return c


def _setup(c, hr, **kw):
    import scipy.ndimage as nd
    from nipy.core.image.image_spaces import make_xyz_image
    rs = np.random.RandomState(c["dseed"])
    d1 = nd.gaussian_filter(rs.standard_normal(c["shape"]), 1.2)
    d2 = np.roll(d1, 1, axis=0) if c["dseed"] % 2 else d1.copy()
    aff = np.diag(c["vox"] + [1.0])
    im1, im2 = make_xyz_image(d1, aff, "scanner"), make_xyz_image(d2, aff, "scanner")
    args = dict(from_bins=c["bins"], similarity=c["sim"], interp=c["interp"], rng=FixedRng(77))
    args.update(kw)
    return hr.HistogramRegistration(im1, im2, **args), d1, d2, aff, im1, im2


def _transform(c):
    from nipy.algorithms.registration import affine as af
    cls = {"rigid": af.Rigid, "affine": af.Affine, "similarity": af.Similarity}[c["ttype"]]
    T = cls()
    T.translation = np.array(c["start"][:3])
    T.rotation = np.array(c["start"][3:6])
    return cls, T


def run_regapi(c, patch):
    hr, sm = patch()
    op = c["op"]
    tags = ["regapi", "api=" + op]
    lines, impl, fail = [], [], None
    try:
        if op in ("gradient", "hessian", "hessian_diag", "explore", "verbose"):
            R = _setup(c, hr)[0]
            cls, T = _transform(c)
            p0 = T.param.copy()

            def sim_at(p):
                U = cls(); U.param = np.asarray(p, float)
                return float(R.eval(U))
        if op == "gradient":
            eps = c["eps"]
            g = np.asarray(R.eval_gradient(T, epsilon=eps), float)
            want = np.zeros(len(p0))
            for i in range(len(p0)):
                e = np.zeros(len(p0)); e[i] = .5 * eps
                want[i] = (sim_at(p0 + e) - sim_at(p0 - e)) / eps
            if not np.allclose(g, want, rtol=1e-9, atol=1e-9, equal_nan=True):
                fail = f"eval_gradient differs from central differences of eval: {g.tolist()} vs {want.tolist()}"
            elif not np.array_equal(T.param, p0):
                fail = "eval_gradient modified a transform that has a copy method"
        elif op in ("hessian", "hessian_diag"):
            eps = c["eps"]
            Hm = np.asarray(R.eval_hessian(T, epsilon=eps, diag=(op == "hessian_diag")), float)
            n = len(p0)
            if Hm.shape != (n, n):
                fail = f"eval_hessian returned shape {Hm.shape}"
            elif op == "hessian_diag":
                s0 = sim_at(p0)
                want = np.zeros(n)
                for i in range(n):
                    e = np.zeros(n); e[i] = eps
                    want[i] = (sim_at(p0 + e) + sim_at(p0 - e) - 2 * s0) / eps ** 2
                if not np.allclose(np.diag(Hm), want, rtol=1e-8, atol=1e-8, equal_nan=True) or \
                        np.any(Hm - np.diag(np.diag(Hm)) != 0):
                    fail = f"eval_hessian(diag=True) is not the diagonal second difference of eval: {np.diag(Hm).tolist()} vs {want.tolist()}"
            else:
                def grad(p):
                    out = np.zeros(n)
                    for i in range(n):
                        e = np.zeros(n); e[i] = .5 * eps
                        out[i] = (sim_at(p + e) - sim_at(p - e)) / eps
                    return out
                want = np.zeros((n, n))
                for i in range(n if n <= 7 else 3):
                    e = np.zeros(n); e[i] = .5 * eps
                    want[i] = (grad(p0 + e) - grad(p0 - e)) / eps
                k = n if n <= 7 else 3
                if not np.allclose(Hm[:k], want[:k], rtol=1e-7, atol=1e-7, equal_nan=True):
                    fail = "eval_hessian is not the central difference of central-difference gradients of eval"
            if fail is None and not np.array_equal(T.param, p0):
                fail = "eval_hessian modified a transform that has a copy method"
        elif op == "explore":
            args = [(a[0], list(a[1])) for a in c["args"]]
            line = (f"explore {plist(p0)} {len(args)} " +
                    " ".join(f"{a[0]} {plist(a[1])}" for a in args)).rstrip()
            try:
                s, p = R.explore(T, *args)
                s, p = np.asarray(s, float), np.asarray(p, float)
                obs = ("explore", p.T.tolist())
                if not np.array_equal(T.param, p0):
                    fail = "explore modified a transform that has a copy method"
                elif p.shape[1] != int(np.prod([len(a[1]) for a in dict((a[0] % len(p0), a) for a in args).values()] or [1])):
                    fail = f"explore evaluated {p.shape[1]} transforms, not one per point of the grid of values"
                elif p.shape[1] > 0:
                    for ax, a in dict((a[0] % len(p0), a) for a in args).items():
                        seen = []
                        for v in (p[ax] - p0[ax]).tolist():
                            if not any(abs(v - u) < 1e-12 for u in seen):
                                seen.append(v)
                        want = []
                        for v in a[1]:
                            if not any(abs(v - u) < 1e-12 for u in want):
                                want.append(v)
                        if len(seen) != len(want) or any(abs(u - v) > 1e-12 for u, v in zip(seen, want)):
                            fail = (f"explore: values tried along parameter {ax} are {seen} (offsets), not the "
                                    f"successive values {want} that were asked for")
                            break
                if fail is None:
                    for k in range(min(p.shape[1], 12)):
                        v = sim_at(p[:, k])
                        if not (abs(v - s[k]) <= 1e-9 * max(1, abs(v)) or (math.isnan(v) and math.isnan(s[k]))):
                            fail = f"explore: similarity {s[k]!r} reported for parameters {p[:, k].tolist()} but eval gives {v!r}"
                            break
            except Exception as e:
                obs = ("err", errname(e))
                if any(len(a[1]) == 0 for a in args) and obs[1] != "error:indexError":
                    obs = None      # an empty value list: zero trials, NumPy's behaviour on the empty grid
            if obs is not None:
                lines.append(line); impl.append(obs)
                tags.append("explore=" + obs[0])
        elif op == "interp":
            R = _setup(c, hr)[0]
            try:
                R.interp = c["name"]
                obs = ("txt", f"{R._interp} {R.interp}")
            except Exception as e:
                obs = ("txt", errname(e))
            lines.append(f"interp {c['name']}"); impl.append(obs)
            tags.append("interp->" + obs[1].split()[0])
        elif op == "similarity":
            name = c["name"]
            val = {"<callable>": (lambda H: float(H.sum())), "<obj>": 3}.get(name, name)
            R0 = _setup(c, hr, similarity="cc")[0]
            shp = R0._joint_hist.shape
            dist = None
            if c["dist"] == "ok":
                dist = np.full(shp, 1.0 / (shp[0] * shp[1]))
            elif c["dist"] == "badshape":
                dist = np.full((shp[0] + 1, shp[1]), 0.01)
            if c["via"] == "setter":
                dist = None     # the property setter cannot pass a distribution model
            try:
                if c["via"] == "setter":
                    R0.similarity = val
                    R = R0
                else:
                    R = _setup(c, hr, similarity=val, dist=dist)[0]
                obs = ("txt", str(R.similarity))
                cls, T = _transform(c)
                v = float(R.eval(T))
                if name == "<callable>" and abs(v - R._joint_hist.sum()) > 1e-9:
                    fail = "a callable similarity is not called with the joint histogram"
            except Exception as e:
                obs = ("txt", errname(e))
            # with 'slr' the histogram keeps the requested (bins, bins) shape
            shape_ok = dist is not None and dist.shape == (c["bins"], c["bins"])
            lines.append(f"setsim {name} {int(name == '<callable>')} {int(dist is not None)} {int(bool(shape_ok))}")
            impl.append(obs)
            tags.append("setsim->" + obs[1])
        elif op == "smooth":
            import scipy.ndimage as nd
            sigma = c["sigma"]
            try:
                R, d1, d2, aff, im1, im2 = _setup(c, hr, smooth=sigma)
                if sigma < 0:
                    fail = "a negative smoothing scale was accepted"
                else:
                    sm_d = nd.gaussian_filter(d2, sigma / np.array(c["vox"])) if sigma > 0 else d2
                    want, _ = hr.clamp(sm_d, c["bins"])
                    if not np.array_equal(R._to_data[1:-1, 1:-1, 1:-1], want):
                        fail = (f"smooth={sigma}: the clamped `to` image is not the clamp of the image smoothed by an "
                                f"isotropic Gaussian of {sigma} mm (sigma/voxel size per axis)")
                    elif np.any(R._to_data[0] != -1) or np.any(R._to_data[:, :, -1] != -1):
                        fail = "the padding of the `to` image is not -1"
                    tags.append("smooth>0" if sigma > 0 else "smooth=0")
            except ValueError as e:
                if sigma >= 0:
                    fail = f"smooth={sigma} refused: {e}"
                tags.append("smooth-refused")
        elif op == "verbose":
            hr.VERBOSE = True
            buf = io.StringIO()
            try:
                s0 = sim_at(p0)
                with contextlib.redirect_stdout(buf):
                    Topt = R.optimize(T, optimizer=c["optimizer"], maxiter=2)
                s1 = float(R.eval(Topt))
            finally:
                hr.VERBOSE = False
            txt = buf.getvalue()
            if math.isfinite(s0) and not (s1 >= s0 - 1e-9 * max(1, abs(s0))):
                fail = (f"optimize(optimizer={c['optimizer']!r}, verbose) returned a transform with similarity {s1!r} "
                        f"lower than the start's {s0!r}")
            elif "Initial guess" not in txt or "Optimizing using" not in txt:
                fail = "VERBOSE optimize did not report its initial guess / optimizer"
            tags.append("verbose-callback" if (c["sim"] + " = ") in txt else "verbose-no-iteration")
        elif op == "ideal":
            rs = np.random.RandomState(c["dseed"])
            dims = c["dims"]
            if c["via"] == "direct":
                data = rs.randint(0, 7, size=dims).astype(np.int16)
                data[rs.rand(*dims) < c["mask_p"]] = -1
                sp = [int(v) for v in hr.ideal_spacing(data, c["npoints"])]
                sub = data[::sp[0], ::sp[1], ::sp[2]]
            else:
                cc = dict(c); cc["shape"] = [max(2, d) for d in dims]
                m = rs.rand(*cc["shape"]) >= c["mask_p"]
                m.flat[0] = m.flat[-1] = True
                R = _setup(cc, hr, from_mask=m)[0]
                data = np.asarray(R._from_img.get_fdata())
                if c["via"] == "set_fov":
                    R.set_fov(npoints=c["npoints"])
                else:
                    R.subsample(npoints=c["npoints"])
                sub = np.asarray(R._from_data)
                full_shape = data.shape
                # spacing from the shape of the sub-sampled block: recompute through the function itself
                sp = [int(v) for v in hr.ideal_spacing(data, c["npoints"])]
                if sub.shape != data[::sp[0], ::sp[1], ::sp[2]].shape or not np.array_equal(sub, data[::sp[0], ::sp[1], ::sp[2]]):
                    fail = f"{c['via']}(npoints={c['npoints']}) did not keep data[::{sp[0]}, ::{sp[1]}, ::{sp[2]}]"
                elif R._from_npoints != int((sub >= 0).sum()):
                    fail = "_from_npoints is not the number of non-negative voxels of the field of view"
            cnt = int((sub >= 0).sum())
            if fail is None and cnt > c["npoints"]:
                fail = f"ideal_spacing left {cnt} voxels, more than the requested {c['npoints']}"
            elif fail is None and min(sp) < 1:
                fail = f"ideal_spacing returned a spacing below 1: {sp}"
            elif fail is None and int((data >= 0).sum()) <= c["npoints"] and sp != [1, 1, 1]:
                fail = f"ideal_spacing subsampled ({sp}) a block that already had at most npoints voxels"
            d = data.shape
            lines.append(f"ideal {d[0]} {d[1]} {d[2]} " + " ".join(str(int(v >= 0)) for v in np.asarray(data).ravel())
                         + f" {c['npoints']}")
            impl.append(("txt", f"{sp[0]} {sp[1]} {sp[2]} {cnt}"))
            tags.append("ideal-" + c["via"]); tags.append("subsampled" if sp != [1, 1, 1] else "no-subsampling")
        elif op == "baseloss":
            rs = np.random.RandomState(c["dseed"])
            H = rs.randint(0, 5, size=(3, 4)).astype(float)
            m = sm.SimilarityMeasure(H.shape, renormalize=bool(c["dseed"] % 2))
            v = float(m(H))
            if v != 0 or np.any(m.loss(H) != 0) or m.npoints(H) != H.sum():
                fail = f"the template measure (zero loss) evaluates to {v!r}"
    except Exception as e:
        return {"lines": [], "impl": [], "nontrivial": True, "tags": tags + ["raised"],
                "oracle": f"{op} raised {type(e).__name__}: {e} (case {c})"}
    return {"lines": lines, "impl": impl, "oracle": fail, "nontrivial": True, "tags": tags, "mutated": None}


def compare_api(obs, model_out):
    if obs[0] == "txt":
        return None if model_out == obs[1] else f"impl {obs[1]!r} model {model_out!r}"
    if obs[0] == "err":
        return None if model_out == obs[1] else f"impl {obs[1]!r} model {model_out[:80]!r}"
    if obs[0] == "explore":
        from fractions import Fraction
        if model_out.startswith("error"):
            return f"impl returned parameters, model says {model_out}"
        cnt, flat = model_out.split(" | ") if " | " in model_out else (model_out.rstrip(" |"), "")
        rows = obs[1]
        if int(cnt.split()[0]) != len(rows):
            return f"number of trials impl {len(rows)} model {cnt}"
        vals = [float(Fraction(t)) for t in flat.split()]
        iv = [v for r in rows for v in r]
        if len(vals) != len(iv) or any(abs(a - b) > 1e-12 * max(1, abs(a)) for a, b in zip(iv, vals)):
            return f"explored parameters differ: impl {rows[:3]} model {vals[:12]}"
        return None
    return "unknown observation kind"
