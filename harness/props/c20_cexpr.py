"""C20 — a tiny C-expression reader and Lean emitter used by the kernel translators (c20_kern.py).

Accepted fragment (anything else raises CParseError → TieBroken in the translator):
  identifiers, decimal literals, `+ - * / %`, unary `- !`, comparisons, `&& ||`, `?:`, parentheses,
  the casts `(int)` `(double)` `(npy_intp)` `(unsigned int)` `(size_t)`, calls of translated macros/functions.
Two value types: `Int` (C integer variables; `/` `%` truncate) and `Rat` (doubles, exact).
An `Int` expression used where a double is expected is coerced (`((e : Int) : Rat)`); a double used where an
integer is expected must go through an explicit `(int)` cast (→ `truncC`, truncation toward zero).
"""
from __future__ import annotations

import re
from fractions import Fraction


class CParseError(Exception):
    pass


TOK = re.compile(r"\s*(?:(\d+\.\d*(?:[eE][-+]?\d+)?|\.\d+|\d+[eE][-+]?\d+|\d+)|([A-Za-z_][A-Za-z_0-9]*)|"
                 r"(>=|<=|==|!=|&&|\|\||[-+*/%()?:<>!,]))")
INT_CASTS = {("int",), ("ptrdiff_t",), ("npy_intp",), ("unsigned", "int"), ("size_t",), ("long",), ("unsigned",)}
DBL_CASTS = {("double",)}


def tokenize(src):
    out, pos = [], 0
    src = src.strip()
    while pos < len(src):
        m = TOK.match(src, pos)
        if not m:
            raise CParseError(f"cannot tokenize {src[pos:pos + 24]!r}")
        if m.group(1):
            out.append(("num", m.group(1)))
        elif m.group(2):
            out.append(("id", m.group(2)))
        else:
            out.append(("op", m.group(3)))
        pos = m.end()
    return out


class Parser:
    """AST: ('num', text) ('id', name) ('bin', op, a, b) ('neg', a) ('not', a) ('icast', a) ('dcast', a)
    ('call', f, [args]) ('tern', c, a, b)"""
    LEVELS = [["||"], ["&&"], ["==", "!="], [">", "<", ">=", "<="], ["+", "-"], ["*", "/", "%"]]

    def __init__(self, toks):
        self.t, self.i = toks, 0

    def peek(self, k=0):
        return self.t[self.i + k] if self.i + k < len(self.t) else (None, None)

    def eat(self, val=None):
        k, v = self.peek()
        if k is None or (val is not None and v != val):
            raise CParseError(f"expected {val!r}, found {v!r}")
        self.i += 1
        return k, v

    def parse(self):
        e = self.ternary()
        if self.i != len(self.t):
            raise CParseError(f"trailing tokens {self.t[self.i:]}")
        return e

    def ternary(self):
        c = self.binary(0)
        if self.peek()[1] == "?":
            self.eat("?")
            a = self.ternary()
            self.eat(":")
            b = self.ternary()
            return ("tern", c, a, b)
        return c

    def binary(self, lvl):
        if lvl == len(self.LEVELS):
            return self.unary()
        a = self.binary(lvl + 1)
        while self.peek()[0] == "op" and self.peek()[1] in self.LEVELS[lvl]:
            op = self.eat()[1]
            b = self.binary(lvl + 1)
            a = ("bin", op, a, b)
        return a

    def _cast(self):
        """(type) prefix at the cursor → 'icast' / 'dcast' / None"""
        if self.peek()[1] != "(":
            return None
        names, k = [], 1
        while self.peek(k)[0] == "id":
            names.append(self.peek(k)[1]); k += 1
        if not names or self.peek(k) != ("op", ")"):
            return None
        kind = "icast" if tuple(names) in INT_CASTS else "dcast" if tuple(names) in DBL_CASTS else None
        if kind:
            self.i += k + 1
        return kind

    def unary(self):
        v = self.peek()[1]
        if v == "-":
            self.eat()
            return ("neg", self.unary())
        if v == "!":
            self.eat()
            return ("not", self.unary())
        kind = self._cast()
        if kind:
            return (kind, self.unary())
        return self.primary()

    def primary(self):
        k, v = self.eat()
        if k == "num":
            return ("num", v)
        if k == "id":
            if self.peek()[1] == "(":
                self.eat("(")
                args = []
                if self.peek()[1] != ")":
                    args.append(self.ternary())
                    while self.peek()[1] == ",":
                        self.eat(",")
                        args.append(self.ternary())
                self.eat(")")
                return ("call", v, args)
            return ("id", v)
        if v == "(":
            e = self.ternary()
            self.eat(")")
            return e
        raise CParseError(f"unexpected token {v!r}")


def cparse(src):
    return Parser(tokenize(src)).parse()


def idents(e):
    """free identifiers of an expression"""
    k = e[0]
    if k == "id":
        return {e[1]}
    if k == "num":
        return set()
    if k == "call":
        return set().union(*[idents(a) for a in e[2]]) if e[2] else set()
    out = set()
    for sub in e[1:]:
        if isinstance(sub, tuple):
            out |= idents(sub)
    return out


class Emitter:
    """`types`: identifier → 'Int' | 'Rat';  `funs`: callable name → (arg types, result type)."""

    def __init__(self, types, funs=None):
        self.types = dict(types)
        self.funs = dict(funs or {})

    def infer(self, e):
        k = e[0]
        if k == "num":
            return "Int" if re.fullmatch(r"\d+", e[1]) else "Rat"
        if k == "id":
            if e[1] not in self.types:
                raise CParseError(f"identifier {e[1]!r} is not a known variable of the translated fragment")
            return self.types[e[1]]
        if k == "neg":
            return self.infer(e[1])
        if k == "icast":
            return "Int"
        if k == "dcast":
            return "Rat"
        if k == "call":
            if e[1] not in self.funs:
                raise CParseError(f"call of {e[1]} (not a translated macro/function)")
            return self.funs[e[1]][1]
        if k == "tern":
            a, b = self.infer(e[2]), self.infer(e[3])
            return "Rat" if "Rat" in (a, b) else "Int"
        if k == "bin" and e[1] in ("+", "-", "*", "/", "%"):
            a, b = self.infer(e[2]), self.infer(e[3])
            return "Rat" if "Rat" in (a, b) else "Int"
        raise CParseError(f"not a value: {e}")

    def val(self, e, want):
        """Lean text of value `e` at type `want`"""
        have = self.infer(e)
        if have == "Rat" and want == "Int":
            raise CParseError(f"a double is used as an integer without a cast: {e}")
        if have == "Int" and want == "Rat":
            if e[0] == "num":
                return f"({int(e[1])} : Rat)"
            return f"(({self.val(e, 'Int')} : Int) : Rat)"
        ty = want
        k = e[0]
        if k == "num":
            f = Fraction(e[1].rstrip(".")) if not re.search(r"[eE]", e[1]) else Fraction(e[1])
            if ty == "Int":
                return f"({f.numerator} : Int)"
            return f"({f.numerator} : Rat)" if f.denominator == 1 else f"(({f.numerator} : Rat) / {f.denominator})"
        if k == "id":
            return e[1]
        if k == "neg":
            return f"(-{self.val(e[1], ty)})"
        if k == "icast":
            inner = self.infer(e[1])
            return f"(truncC {self.val(e[1], 'Rat')})" if inner == "Rat" else self.val(e[1], "Int")
        if k == "dcast":
            return self.val(e[1], "Rat")
        if k == "call":
            argt, _ = self.funs[e[1]]
            if len(argt) != len(e[2]):
                raise CParseError(f"{e[1]}: {len(e[2])} arguments, expected {len(argt)}")
            return "(" + e[1] + " " + " ".join(self.val(a, t) for a, t in zip(e[2], argt)) + ")"
        if k == "tern":
            return f"(if {self.prop(e[1])} then {self.val(e[2], ty)} else {self.val(e[3], ty)})"
        if k == "bin":
            op, a, b = e[1:]
            if op in ("+", "-", "*"):
                return f"({self.val(a, ty)} {op} {self.val(b, ty)})"
            if op == "/":
                return f"(Int.tdiv {self.val(a, ty)} {self.val(b, ty)})" if ty == "Int" else \
                    f"({self.val(a, ty)} / {self.val(b, ty)})"
            if op == "%":
                if ty != "Int":
                    raise CParseError("% on doubles")
                return f"(Int.tmod {self.val(a, ty)} {self.val(b, ty)})"
        raise CParseError(f"cannot translate {e} as a {ty} value")

    def prop(self, e):
        k = e[0]
        if k == "bin" and e[1] in (">", "<", ">=", "<=", "==", "!="):
            op = {">": ">", "<": "<", ">=": "≥", "<=": "≤", "==": "=", "!=": "≠"}[e[1]]
            ty = "Rat" if "Rat" in (self.infer(e[2]), self.infer(e[3])) else "Int"
            return f"({self.val(e[2], ty)} {op} {self.val(e[3], ty)})"
        if k == "bin" and e[1] == "&&":
            return f"({self.prop(e[2])} ∧ {self.prop(e[3])})"
        if k == "bin" and e[1] == "||":
            return f"({self.prop(e[2])} ∨ {self.prop(e[3])})"
        if k == "not":
            return f"(¬ {self.prop(e[1])})"
        raise CParseError(f"not a condition: {e}")


def strip_comments(src):
    src = re.sub(r"/\*.*?\*/", " ", src, flags=re.S)
    return re.sub(r"//[^\n]*", " ", src)


def function_body(src, name, rel):
    """text between the braces of the *definition* of `name` (comment-free source)"""
    for m in re.finditer(r"\b" + re.escape(name) + r"\s*\(", src):
        depth, i = 0, m.end() - 1
        while i < len(src):
            if src[i] == "(":
                depth += 1
            elif src[i] == ")":
                depth -= 1
                if depth == 0:
                    break
            i += 1
        j = i + 1
        while j < len(src) and src[j].isspace():
            j += 1
        if j < len(src) and src[j] == "{":
            depth, k = 0, j
            while k < len(src):
                if src[k] == "{":
                    depth += 1
                elif src[k] == "}":
                    depth -= 1
                    if depth == 0:
                        return src[j + 1:k]
                k += 1
    raise CParseError(f"{rel}: definition of {name} not found")


def squash(s):
    return "".join(s.split())
