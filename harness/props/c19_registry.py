"""C19 — translator: `nipy/algorithms/slicetiming/timefuncs.py` -> lean/NipyVerif/Gen/C19Registry.lean.

The slice-timing module is a registry of small functions.  The translator reads the *current* source
with `ast`, recognises each `st_*` body as one of six shapes, the `_derived_func` aliases and the
registration rule of `_dec_register_stf`, and regenerates the Lean table the model evaluates
(`NipyVerif.C19.Src.bodyOf`, `stNames`, `aliases`).  Theorems `registry_*` (Props/C19C) are re-checked
against that table on every run.  An unrecognised shape raises TieBroken.
"""
from __future__ import annotations

import ast
import os

EXPECT_REGISTER = """def _dec_register_stf(func):
    name = func.__name__
    SLICETIME_FUNCTIONS[name] = func
    if name.startswith('st_'):
        short_name = name[3:]
        if short_name in SLICETIME_FUNCTIONS:
            raise ValueError(f'Duplicate short / long function name {short_name}')
        SLICETIME_FUNCTIONS[short_name] = func
    return func"""

EXPECT_DERIVED = """def _derived_func(name, func):

    def derived(n_slices, TR):
        return func(n_slices, TR)
    derived.__name__ = name
    derived.__doc__ = func._doc_template
    return _dec_stfunc(derived)"""

EXPECT_STFUNC = """def _dec_stfunc(func):
    return _dec_register_stf(_dec_filldoc(func))"""

EV = "list(range(0, n_slices, 2))"
OD = "list(range(1, n_slices, 2))"
HALF = {EV: "Half.ev", OD: "Half.od"}


def _strip_doc(fn):
    body = list(fn.body)
    if body and isinstance(body[0], ast.Expr) and isinstance(getattr(body[0], "value", None), ast.Constant) \
            and isinstance(body[0].value.value, str):
        body = body[1:]
    return body


def _unparse_nodoc(fn):
    fn2 = ast.FunctionDef(name=fn.name, args=fn.args, body=_strip_doc(fn) or [ast.Pass()], decorator_list=[],
                          returns=None, type_comment=None, type_params=[])
    return ast.unparse(ast.fix_missing_locations(fn2))


def _sum_halves(expr):
    """`list(range(a, n_slices, 2)) + list(range(b, n_slices, 2))` -> (Half, Half) or None"""
    if isinstance(expr, ast.BinOp) and isinstance(expr.op, ast.Add):
        a, b = ast.unparse(expr.left), ast.unparse(expr.right)
        if a in HALF and b in HALF:
            return HALF[a], HALF[b]
    return None


def classify_body(fn, known):
    st = [ast.unparse(x) for x in _strip_doc(fn)]
    nodes = _strip_doc(fn)
    if st == ["return np.arange(n_slices) / n_slices * TR"]:
        return "Body.arange"
    if st == ["return np.arange(n_slices)[::-1] / n_slices * TR"]:
        return "Body.arangeRev"
    if len(st) == 1 and st[0].startswith("return st_") and st[0].endswith("(n_slices, TR)[::-1]"):
        f = st[0][len("return "):-len("(n_slices, TR)[::-1]")]
        if f in known:
            return f'Body.rev "{f}"'
    if len(st) == 2 and st[0].startswith("if n_slices % 2 == 0:\n    return ") and st[1].startswith("return "):
        e = st[0].split("return ", 1)[1]
        o = st[1][len("return "):]
        suf = "(n_slices, TR)"
        if e.endswith(suf) and o.endswith(suf) and e[:-len(suf)] in known and o[:-len(suf)] in known:
            return f'Body.parity "{e[:-len(suf)]}" "{o[:-len(suf)]}"'
    if len(st) == 4 and st[0] == "one_slice = TR / n_slices" and st[2] == "space_to_time = np.argsort(time_to_space)" \
            and st[3] == "return space_to_time * one_slice" and isinstance(nodes[1], ast.Assign) \
            and ast.unparse(nodes[1].targets[0]) == "time_to_space":
        h = _sum_halves(nodes[1].value)
        if h:
            return f"Body.argsort {h[0]} {h[1]}"
    if len(st) == 3 and st[0] == "one_slice = TR / n_slices" and st[2] == "return np.array(space_to_time) * one_slice" \
            and isinstance(nodes[1], ast.Assign) and ast.unparse(nodes[1].targets[0]) == "space_to_time":
        h = _sum_halves(nodes[1].value)
        if h:
            return f"Body.direct {h[0]} {h[1]}"
    return None


def translate(repo, TieBroken):
    path = os.path.join(repo, "nipy/algorithms/slicetiming/timefuncs.py")
    try:
        tree = ast.parse(open(path).read())
    except Exception as e:
        raise TieBroken(f"timefuncs.py does not parse: {e}")
    funcs, aliases, helpers, order = [], [], {}, []
    for node in tree.body:
        if isinstance(node, ast.FunctionDef):
            decs = [ast.unparse(d) for d in node.decorator_list]
            if decs == ["_dec_stfunc"]:
                funcs.append(node)
                order.append((node.name, node.name))
                if node.name.startswith("st_"):
                    order.append((node.name[3:], node.name))
            elif not decs:
                helpers[node.name] = node
            else:
                raise TieBroken(f"timefuncs.py: function {node.name} has decorators {decs}")
        elif isinstance(node, ast.Assign) and isinstance(node.value, ast.Call) \
                and ast.unparse(node.value.func) == "_derived_func":
            a = node.value.args
            if len(a) != 2 or not isinstance(a[0], ast.Constant) or not isinstance(a[1], ast.Name) \
                    or len(node.targets) != 1 or ast.unparse(node.targets[0]) != a[0].value:
                raise TieBroken(f"timefuncs.py: unrecognised alias definition {ast.unparse(node)!r}")
            aliases.append((a[0].value, a[1].id))
            order.append((a[0].value, a[1].id))
    for name, want in (("_dec_register_stf", EXPECT_REGISTER), ("_derived_func", EXPECT_DERIVED),
                       ("_dec_stfunc", EXPECT_STFUNC)):
        if name not in helpers:
            raise TieBroken(f"timefuncs.py: helper {name} not found")
        got = _unparse_nodoc(helpers[name])
        if got != want:
            raise TieBroken(f"timefuncs.py: {name} no longer has the registration shape the model assumes: {got!r}")
    known = {f.name for f in funcs}
    rows = []
    for f in funcs:
        if not f.name.startswith("st_") or [a.arg for a in f.args.args] != ["n_slices", "TR"]:
            raise TieBroken(f"timefuncs.py: registered function {f.name} has an unexpected name / signature")
        b = classify_body(f, known)
        if b is None:
            raise TieBroken(f"timefuncs.py: body of {f.name} is not one of the recognised schedule shapes: "
                            + " ; ".join(ast.unparse(x) for x in _strip_doc(f))[:300])
        rows.append((f.name, b))
    for al, tgt in aliases:
        if tgt not in known:
            raise TieBroken(f"timefuncs.py: alias {al} derives from unknown function {tgt}")
        if al.startswith("st_"):
            raise TieBroken(f"timefuncs.py: alias {al} would register a short name too")
    out = ["/- GENERATED by harness/props/c19_registry.py from /repo/nipy/algorithms/slicetiming/timefuncs.py",
           "   (function bodies as recognised shapes, `_derived_func` aliases).  Do not edit. -/",
           "namespace NipyVerif.C19.Src", "",
           "/-- `list(range(0, n_slices, 2))` / `list(range(1, n_slices, 2))` -/",
           "inductive Half", "  | ev | od", "deriving DecidableEq, Repr", "",
           "/-- the recognised shapes of a slice-time function body -/",
           "inductive Body",
           "  | arange                       -- np.arange(n) / n * TR",
           "  | arangeRev                    -- np.arange(n)[::-1] / n * TR",
           "  | argsort (a b : Half)         -- np.argsort(a + b) * (TR / n)",
           "  | direct (a b : Half)          -- np.array(a + b) * (TR / n)",
           "  | rev (f : String)             -- f(n, TR)[::-1]",
           "  | parity (even odd : String)   -- even(n, TR) if n % 2 == 0 else odd(n, TR)",
           "deriving DecidableEq, Repr", "",
           "/-- body of every `@_dec_stfunc` function, by name -/",
           "def bodyOf : String → Option Body"]
    for n, b in rows:
        out.append(f'  | "{n}" => some ({b})')
    out += ["  | _ => none", "",
            "/-- the decorated functions in definition order -/",
            "def stNames : List String := [" + ", ".join(f'"{n}"' for n, _ in rows) + "]", "",
            "/-- `alias = _derived_func('alias', st_x)` -/",
            "def aliases : List (String × String) := ["
            + ", ".join(f'("{a}", "{t}")' for a, t in aliases) + "]", "",
            "/-- `SLICETIME_FUNCTIONS` (key, function) in insertion order, as `_dec_register_stf` fills it:",
            "    every decorated function under its name and (`st_*`) its short name, every alias -/",
            "def registry : List (String × String) := ["
            + ", ".join(f'("{a}", "{t}")' for a, t in order) + "]", "",
            "end NipyVerif.C19.Src", ""]
    if len({a for a, _ in order}) != len(order):
        raise TieBroken("timefuncs.py: duplicate key in SLICETIME_FUNCTIONS")
    return [("NipyVerif/Gen/C19Registry.lean", "\n".join(out))]
