"""C14 — partitional and hierarchical clustering return valid, consistent clusterings.

Correspondence (Lean model `NipyVerif.Model.C14`):
  * every `_EStep` / `_MStep` call made by `kmeans` (traced), the whole `kmeans` run (wrapper argument
    handling included) when no float near-tie can steer it, random restarts (`kmeansr`), `voronoi`;
  * `ward` merge sequence (generative model when every argmin is separated by more than rounding;
    replay checker for `ward` and `ward_quick` always: admissible, cost = merged inertia, cheapest,
    stored heights = max(cost, children)); the live edge set `_remap` leaves after each merge
    (`wardedges`); `_auxiliary_graph` + `_initial_inertia` (`auxgraph`); `_inertia` (`inertia`);
  * `average_link_graph` through a replay checker (`avgchk`: admissible, similarity of the merged pair
    = model's fused weight, heaviest) and `fusion` called directly (`fusion`);
  * `WeightedForest.split` / `partition` label vectors, `check_compatible_height`, `list_of_subtrees`
    on dendrograms from the algorithms and on hand-made forests (`forest` cases); the `*_segment`
    wrappers with their rarely used arguments (finite `stop`, `qmax = -1 / 0`) (`segment`).
Two streams of numbers: *dyadic* (binary64 arithmetic exact, first-minimum tie rules compared exactly)
and *non-dyadic* (thirds, tenths, 1e-3 offsets, 1e6 + small spread, near-duplicates one ulp apart):
values are compared with the exact model by tolerance, structure (heights non-decreasing child to
parent, cluster counts of every cut, labels in range) is demanded exactly as the code stores it.
Oracle: the clauses of C14 evaluated directly on the real code.
"""
from __future__ import annotations

import re
import warnings
from fractions import Fraction

import numpy as np

from harness.core import PropertyCheck
from harness.util import Snapshot, close, errname, fr, frs, parse_rats

MAXTRACE = 5
EPS = 2.0 ** -52
# Three routines used to compute in the caller's integer dtype: `voronoi` squared `x - centers[q]` in it
# (wrap-around), `ward` / `ward_quick` squared the features in it (`feature ** 2`), `average_link_graph` kept
# integer similarity weights (assigning `-inf` raised OverflowError) and took a self-loop of the similarity graph
# for a merge.  The clauses are demanded for those inputs since the fixes are in /repo; with False a failing case
# of these families is only tagged `…-unfixed` (for runs against a tree without the fixes).
INT_DTYPE_FIXED = True       # fixes 6e8a039, a17d7b6, 16a3007 are in /repo
INT_RANGES = {"int8": (-128, 127), "uint8": (0, 255), "int16": (-32768, 32767), "uint16": (0, 65535),
              "int32": (-(1 << 18), 1 << 18), "uint32": (0, 1 << 18), "int64": (-(1 << 18), 1 << 18)}
LAYOUTS = [None, None, None, "F", "strided", "neg", "ro"]


# ----------------------------------------------------------------------------------------
# generators
# ----------------------------------------------------------------------------------------
def _base(rng, n, p, kinds):
    kind = rng.choice(kinds)
    if kind == "ints":
        X = [[float(rng.randrange(-4, 9)) for _ in range(p)] for _ in range(n)]
    elif kind == "halves":
        X = [[rng.randrange(-8, 17) / 4.0 for _ in range(p)] for _ in range(n)]
    elif kind == "two":
        a = [float(rng.randrange(0, 3)) for _ in range(p)]
        b = [float(rng.randrange(0, 5)) for _ in range(p)]
        X = [list(rng.choice([a, b])) for _ in range(n)]
    elif kind == "dups":
        base = [[float(rng.randrange(0, 6)) for _ in range(p)] for _ in range(max(1, n // 3))]
        X = [list(rng.choice(base)) for _ in range(n)]
    elif kind == "const":
        a = [float(rng.randrange(0, 3)) for _ in range(p)]
        X = [list(a) for _ in range(n)]
    elif kind == "lattice":   # equally spaced: many tied merge costs
        X = [[float(i)] + [0.0] * (p - 1) for i in range(n)]
        if rng.random() < 0.5:
            rng.shuffle(X)
    else:
        cs = [[float(rng.randrange(-20, 21)) for _ in range(p)] for _ in range(rng.choice([2, 3, 4]))]
        X = [[c + rng.randrange(-2, 3) / 2.0 for c in rng.choice(cs)] for _ in range(n)]
    return X


ND_KINDS = ["thirds", "tenths", "sevenths", "off", "milli", "big", "bigdy", "huge", "neardup", "ulp", "mixed"]


def _nd_scalar(rng, kind, v):
    """non-dyadic image of the small dyadic number v"""
    if kind == "thirds":
        return v / 3.0
    if kind == "tenths":
        return v / 10.0
    if kind == "sevenths":
        return v / 7.0
    if kind == "off":
        return v + 1e-3
    if kind == "milli":
        return v * 1e-3 + 0.1
    if kind == "big":
        return 1e6 + v / 10.0
    if kind == "bigdy":
        return 1e6 + v
    if kind == "huge":
        return 1e8 + v / 3.0
    if kind == "neardup":
        return v / 10.0 + rng.choice([0.0, 0.0, 0.0, 1e-9, -1e-9, 1e-12])
    if kind == "ulp":
        w = v / 3.0
        r = rng.random()
        return w if r < 0.6 else float(np.nextafter(w, np.inf if r < 0.8 else -np.inf))
    raise ValueError(kind)


def _data(rng, n, p, stream="dyadic"):
    if stream == "dyadic":
        return _base(rng, n, p, ["ints", "ints", "halves", "two", "dups", "const", "lattice", "blobs"])
    # non-dyadic: exact duplicates on purpose (rounded cost of a zero-variance cluster), then the rest
    X = _base(rng, n, p, ["dups", "dups", "two", "two", "const", "ints", "halves", "lattice", "blobs"])
    kind = rng.choice(ND_KINDS)
    if kind == "mixed":
        ks = [rng.choice(ND_KINDS[:-1]) for _ in range(p)]
        return [[_nd_scalar(rng, ks[d], v) for d, v in enumerate(r)] for r in X]
    return [[_nd_scalar(rng, kind, v) for v in r] for r in X]


def _size(rng, lo=2):
    r = rng.random()
    if r < 0.55:
        return rng.randrange(lo, 9)
    if r < 0.9:
        return rng.randrange(9, 25)
    return rng.randrange(25, 61)


def _graph(rng, n):
    """undirected edge list (pairs a != b, may repeat) of a named shape"""
    kind = rng.choice(["complete", "chain", "ring", "grid", "sparse", "sparse", "comps", "tree", "empty", "star"])
    E = []
    if kind == "complete":
        E = [(a, b) for a in range(n) for b in range(a + 1, n)]
    elif kind == "chain":
        E = [(a, a + 1) for a in range(n - 1)]
    elif kind == "ring":
        E = [(a, (a + 1) % n) for a in range(n)] if n > 2 else [(0, 1)]
    elif kind == "grid":
        w = max(1, int(n ** 0.5))
        for a in range(n):
            if (a + 1) % w and a + 1 < n:
                E.append((a, a + 1))
            if a + w < n:
                E.append((a, a + w))
    elif kind == "sparse":
        m = rng.randrange(0, 2 * n)
        for _ in range(m):
            a, b = rng.randrange(n), rng.randrange(n)
            if a != b:
                E.append((a, b))
    elif kind == "comps":     # several complete / chain components and isolated vertices
        perm = list(range(n)); rng.shuffle(perm)
        i = 0
        while i < n:
            s = rng.choice([1, 1, 2, 3, 5, 8])
            part = perm[i:i + s]; i += s
            if rng.random() < 0.5:
                E += [(part[a], part[b]) for a in range(len(part)) for b in range(a + 1, len(part))]
            else:
                E += [(part[a], part[a + 1]) for a in range(len(part) - 1)]
    elif kind == "tree":
        E = [(rng.randrange(0, a), a) for a in range(1, n)]
    elif kind == "star":
        E = [(0, a) for a in range(1, n)]
    perm = list(range(n))
    if rng.random() < 0.5:
        rng.shuffle(perm)
    E = [(perm[a], perm[b]) for a, b in E]
    E = [(a, b) if rng.random() < 0.5 else (b, a) for a, b in E]
    rng.shuffle(E)
    return kind, [list(e) for e in E]


def _und(E):
    return sorted({(min(a, b), max(a, b)) for a, b in E if a != b})


def _components(n, und):
    lab = list(range(n))

    def find(a):
        while lab[a] != a:
            lab[a] = lab[lab[a]]
            a = lab[a]
        return a
    for a, b in und:
        ra, rb = find(a), find(b)
        if ra != rb:
            lab[max(ra, rb)] = min(ra, rb)
    return [find(a) for a in range(n)]


def _canon(labels):
    seen, out = {}, []
    for l in labels:
        l = int(l)
        if l not in seen:
            seen[l] = len(seen)
        out.append(seen[l])
    return out


def _connected(members, adj):
    members = set(members)
    if not members:
        return True
    start = next(iter(members))
    seen, todo = {start}, [start]
    while todo:
        a = todo.pop()
        for b in adj[a]:
            if b in members and b not in seen:
                seen.add(b); todo.append(b)
    return seen == members


def _cls(failure):
    """kind of an oracle failure: its text with the numbers blanked"""
    return re.sub(r"-?\d+(\.\d+)?(e-?\d+)?", "#", failure)[:44]


def _mat(X):
    return " ".join(frs(r) for r in X)


def _ints(v):
    return " ".join(str(int(x)) for x in v)


def _random_forest(rng, n, full=False):
    """parents of a random binary forest over n items (children before parents), as merges produce"""
    roots = list(range(n))
    parents = list(range(n))
    while len(roots) > 1 and (full or rng.random() < 0.85):
        a, b = rng.sample(roots, 2)
        k = len(parents)
        parents.append(k)
        parents[a] = k; parents[b] = k
        roots = [r for r in roots if r not in (a, b)] + [k]
    return parents


def _presented(A, dtype=None, layout=None):
    """the same numbers as the caller may hold them (dtype used only when every value is exactly representable)"""
    A = np.asarray(A, float)
    out = A
    if dtype:
        with np.errstate(all="ignore"):
            B = A.astype(dtype)
        if np.array_equal(B.astype(float), A):
            out = B
    if layout == "F":
        out = np.asfortranarray(out)
    elif layout == "strided" and out.ndim == 2:
        big = np.zeros((out.shape[0], 2 * out.shape[1]), dtype=out.dtype)
        big[:, ::2] = out
        out = big[:, ::2]
    elif layout == "neg":         # negative stride along the items
        out = out[::-1].copy()[::-1]
    elif layout == "ro":
        out = out.copy()
        out.flags.writeable = False
    return out


def _wide(rng, n, p, dtype):
    """integral data spanning the range of an integer dtype (magnitudes far from 1): uniform, a few groups
    far apart, or values at the ends of the range"""
    lo, hi = INT_RANGES[dtype]
    kind = rng.choice(["uniform", "groups", "groups", "ends"])
    if kind == "uniform":
        X = [[float(rng.randrange(lo, hi + 1)) for _ in range(p)] for _ in range(n)]
    elif kind == "groups":
        w = max(1, (hi - lo) // 40)
        cs = [[rng.randrange(lo + w, hi - w + 1) for _ in range(p)] for _ in range(rng.choice([2, 3, 4]))]
        X = [[float(c + rng.randrange(-w, w + 1)) for c in rng.choice(cs)] for _ in range(n)]
    else:
        X = [[float(rng.choice([lo, lo + 1, hi, hi - 1, (lo + hi) // 2, lo + (hi - lo) // 4])) for _ in range(p)]
             for _ in range(n)]
    return X


class C14(PropertyCheck):
    id = "C14"
    title = "Partitional and hierarchical clustering return valid, consistent clusterings"
    lean_modules = ["NipyVerif.Props.C14", "NipyVerif.Props.C14B", "NipyVerif.Props.C14C", "NipyVerif.Props.C14D",
                    "NipyVerif.Props.C14E", "NipyVerif.Props.C14F", "NipyVerif.Props.C14G", "NipyVerif.Props.C14Source"]
    driver = "Drivers/C14.lean"
    rule = ("cases are (data matrix, cluster count, initial labelling or restarts, iteration budget, delta) for "
            "k-means/voronoi, (data matrix, constraint graph) for the Ward family, (similarity graph) for average "
            "link, hand-made forests with heights for the cut methods, operation histories on one WeightedForest "
            "(cuts by count and height in any order, queries, set_height, merge_simple_branches, _label on binary / "
            "general / chain / arbitrarily numbered forests) and direct calls of the helpers, from a seeded PRNG in "
            "two streams: dyadic numbers (binary64 exact; duplicates and tied distances/costs on purpose) and "
            "non-dyadic ones (thirds, tenths, sevenths, 1e-3 offsets, 1e6/1e8 + small spread, near-duplicates 1e-9 "
            "or one ulp apart, exact duplicates); the same numbers as float32 / int8..int64 / uint8..uint32 arrays "
            "(data spanning the dtype's range), Fortran / strided / negative-stride / read-only / 1-D layouts, labels "
            "as int8/uint8/int32/float/bool; Labels the wrapper does not accept (other length, entries out of range), "
            "maxiter / ninit <= 0, delta < 0; topology weights zero / cancelling / edge lengths / integers, similarity "
            "weights integer / zero / negative / with self-loops; 1..5 features, 2..60 items, graph shapes "
            "complete/chain/ring/grid/sparse/several components/isolated/empty/tree/star, loops and parallel "
            "edges; non-trivial = at least 3 items and (k >= 2 or at least one merge); distinct by full JSON")
    assumptions = [
        "float arithmetic of NumPy (sums, means, q - s**2/n, fi*w) is compared with the exact rational model by "
        "tolerance (1e-9 relative for k-means, 1e-13 * n p max|x|^2 for merge costs; 2^-21 relative where the "
        "caller's float32 features / similarities are squared or averaged in single precision); where two exact "
        "costs/distances tie or nearly tie the implementation's choice is accepted if it is within that tolerance "
        "of the optimum (the first-minimum tie rule is compared exactly only on the dyadic stream)",
        "structural clauses are demanded exactly as the code stores them, on both streams: heights non-decreasing "
        "from child to parent (no tolerance), split(k) gives exactly max(k, nbcc) connected clusters for every k, "
        "partition(th) gives nbcc + #{merges with height >= th}, labels in range",
        "the constraint graph is symmetric (an undirected topology given with both directions; its weights may be "
        "any numbers: the Ward family ignores them); Graph.cc() and WeightedGraph.symmeterize() (scipy.sparse) are "
        "outside the model: the model receives the undirected edge set and stops when no edge is left. A graph "
        "given in one direction only is outside (G.cc() is direction-dependent, the merge count follows it)",
        "np.argsort is not stable on ties: ward_quick, average_link_graph and the duplicate-edge removal of "
        "_remap / fusion are compared through replay checkers (any admissible optimal merge is accepted); "
        "similarity graphs with repeated (parallel) edges are outside (fusion leaves a loop on the merged node)",
        "cut heights are taken above the leaves (partition at a height <= the leaves' removes them and "
        "raises ValueError; recorded as an observation)",
        "inputs outside the property's quantifier are modelled as the refusals the code has, not demanded to "
        "work: kmeans with Labels=None and maxiter <= 0, or ninit <= 0 (UnboundLocalError), Labels of another "
        "length with an entry in range (IndexError, although the docstring promises a random initialisation); "
        "_label (the numbering plot() uses) on a forest with a single-item tree, a unary or a more-than-binary "
        "node (NumPy 2 raises ValueError on `parent == <empty>`); merge_simple_branches on a non-dendrogram makes "
        "the children of a dropped node roots (subforest semantics) - modelled as written",
        "WeightedForest.plot / plot_height (matplotlib drawing) are not executed",
    ]
    level_note = ("proved for all inputs of the exact model: k-means / voronoi clauses incl. the public wrapper for "
                  "every Labels / maxiter / delta / ninit (what is returned, what is refused, which restart), the "
                  "early stop as a truncation of the plain Lloyd iteration, offset / unit invariance of voronoi; the "
                  "Ward cost algebra (both cost routines), the global dendrogram structure of every edge-constrained "
                  "agglomeration, the cluster counts of split/partition, merge_simple_branches = identity and _label "
                  "= in-order bijection on dendrograms; formula-like source statements are regenerated into Lean "
                  "terms and proved to be the model's (Props/C14Source). Floating-point rounding and NumPy's dtype "
                  "promotion are outside the model: covered by the non-dyadic stream and the dtype / layout "
                  "presentations of the oracle")
    finding_keys = {}

    def translators(self):
        from harness.core import REPO, TieBroken
        from harness.props import c14_translate
        return c14_translate.translate(REPO, TieBroken)

    # ------------------------------------------------------------------
    def generate(self, rng, tier):
        q = tier == "quick"
        nk, nkn, nv, nvn = (150, 100, 60, 50) if q else (1100, 700, 350, 300)
        nw, nwn, na, nan = (150, 140, 50, 50) if q else (1300, 1100, 350, 350)
        nf, npc = (90, 90) if q else (600, 500)
        cases = []
        for stream, cnt in (("dyadic", nk), ("nondyadic", nkn)):
            for _ in range(cnt):
                cases.append(self._gen_kmeans(rng, stream))
        for stream, cnt in (("dyadic", nk // 6), ("nondyadic", nkn // 6)):
            for _ in range(cnt):
                cases.append(self._gen_kmeans_slow(rng, stream))
        for _ in range(nk // 5):
            cases.append(self._gen_kmeans_threshold(rng))
        for stream, cnt in (("dyadic", nv), ("nondyadic", nvn)):
            for _ in range(cnt):
                cases.append(self._gen_voronoi(rng, stream))
        for stream, cnt in (("dyadic", nw), ("nondyadic", nwn)):
            for _ in range(cnt):
                n = _size(rng)
                p = rng.choice([1, 1, 2, 3, 5])
                gk, E = _graph(rng, n)
                ncc = len(set(_components(n, _und(E))))
                wide = rng.choice(list(INT_RANGES)) if stream == "dyadic" and rng.random() < 0.2 else None
                dts = [None, None, None, "float32", "int8", "uint8", "int16", "int32", "int64"]
                cases.append({"kind": "ward", "stream": stream, "p": p,
                              "X": _wide(rng, n, p, wide) if wide else _data(rng, n, p, stream),
                              "graph": gk, "E": E,
                              "extra": rng.choice(["none", "none", "loops", "parallel"]),
                              # how the caller holds the features; what the edge weights of the topology are
                              # (ignored by the Ward family: zeros, cancelling pairs, edge lengths, integers)
                              "xdtype": (wide if wide and rng.random() < 0.85 else rng.choice(dts))
                              if stream == "dyadic" else None,
                              "xlayout": rng.choice(LAYOUTS),
                              "wmode": rng.choice(["ones", "ones", "zeros", "antisym", "lengths", "mixed", "ints"]),
                              "ks": sorted({1, 2, n, n - 1, ncc, min(n, ncc + 1), rng.randrange(1, n + 1),
                                            rng.randrange(1, n + 1)})})
        for stream, cnt in (("dyadic", na), ("nondyadic", nan)):
            for _ in range(cnt):
                n = _size(rng)
                gk, E = _graph(rng, n)
                und = _und(E)
                wk = rng.random()
                if stream == "dyadic" and wk < 0.3:      # counts as similarities: integers, zeros included
                    W = [float(rng.choice([0, 1, 1, 2, 3, 5, 100, 200])) for _ in und]
                elif stream == "dyadic" and wk < 0.4:    # zero and negative similarities
                    W = [rng.choice([0.0, 0.0, 1.0, -1.0, 0.5, -2.0]) for _ in und]
                elif stream == "dyadic":
                    W = [rng.choice([1.0, 1.0, 2.0, 0.5, 3.0, 4.0, 0.25, 8.0]) for _ in und]
                else:
                    kind = rng.choice(["thirds", "tenths", "sevenths", "off", "big", "neardup", "ulp"])
                    W = [_nd_scalar(rng, kind, float(rng.choice([1, 1, 2, 3, 3, 5, 7, 8]))) for _ in und]
                cases.append({"kind": "avglink", "stream": stream, "graph": gk, "n": n,
                              "E": [list(e) for e in und], "W": W,
                              # how the caller holds the similarities; self-similarities (the diagonal of a
                              # similarity matrix turned into a graph)
                              "wdtype": rng.choice([None, None, "int64", "int32", "uint8", "int8", "float32"])
                              if stream == "dyadic" else None,
                              "loops": [[v, rng.choice([1.0, 4.0, 16.0, 0.0])] for v in range(n) if rng.random() < 0.5]
                              if rng.random() < 0.25 else [],
                              "ks": sorted({1, 2, n, n - 1, rng.randrange(1, n + 1)})})
        for _ in range(240 if q else 1500):
            # few distinct similarities on a dense graph: fused averages tie in exact arithmetic
            # (and differ by rounding when the values are not dyadic)
            n = rng.randrange(4, 13)
            dense = rng.random() < 0.5
            und = [(a, b) for a in range(n) for b in range(a + 1, n) if dense or rng.random() < 0.7]
            stream = "nondyadic" if rng.random() < 0.85 else "dyadic"
            kind = rng.choice(["thirds", "tenths", "sevenths", "off"])
            vals = [float(v) for v in rng.sample([1, 2, 3, 4, 5, 7, 8], rng.choice([1, 2, 2, 3]))]
            if stream == "nondyadic":
                vals = [_nd_scalar(rng, kind, v) for v in vals]
            cases.append({"kind": "avglink", "stream": stream, "graph": "tied", "n": n,
                          "E": [list(e) for e in und], "W": [rng.choice(vals) for _ in und],
                          "ks": sorted({1, 2, n, n - 1, rng.randrange(1, n + 1)})})
        for _ in range(nf):
            cases.append(self._gen_forest(rng))
        for _ in range(npc):
            cases.append(self._gen_pieces(rng))
        for _ in range(120 if q else 900):
            cases.append(self._gen_fhist(rng))
        if tier == "thorough":   # exhaustive small domain: 1-D data on 0..2, all labellings, n <= 4
            for n in (2, 3, 4):
                for code in range(3 ** n):
                    X = [[float((code // 3 ** i) % 3)] for i in range(n)]
                    for k in range(1, n + 1):
                        for zc in range(k ** n):
                            if (code * 31 + zc * 7 + k) % 5:
                                continue
                            z0 = [(zc // k ** i) % k for i in range(n)]
                            cases.append({"kind": "kmeans", "stream": "dyadic", "p": 1, "k": k, "X": X, "z0": z0,
                                          "maxiter": 3, "delta": 0.0, "seed": 1, "ninit": 1, "mode": "labels"})
            # every binary forest shape on <= 5 items is reached by the random forests; all cuts of each
            for n in (2, 3, 4, 5):
                for rep in range(40):
                    c = self._gen_forest(rng, n=n)
                    c["ks"] = list(range(1, n + 2))
                    cases.append(c)
        return cases

    @staticmethod
    def _gen_kmeans(rng, stream):
        n = _size(rng, 1 if rng.random() < 0.05 else 2)
        p = rng.choice([1, 1, 2, 2, 3, 4, 5])
        k = rng.choice([1, 2, 2, 3, 3, 4, 5, n, max(1, n - 1), rng.randrange(1, n + 1)])
        k = max(1, min(k, n))
        X = _data(rng, n, p, stream)
        mode = rng.choice(["rand", "rand", "one", "skip", "kk"])
        if mode == "rand":
            z0 = [rng.randrange(k) for _ in range(n)]
        elif mode == "one":
            z0 = [0] * n
        elif mode == "skip":    # some clusters empty from the start
            z0 = [rng.choice([0, k - 1]) for _ in range(n)]
        else:                   # label == k is accepted by the wrapper
            z0 = [rng.randrange(k + 1) for _ in range(n)]
        big = n <= 12 and rng.random() < 0.15
        c = {"kind": "kmeans", "stream": stream, "p": p, "k": k, "X": X, "z0": z0,
             "maxiter": 300 if big else rng.choice([1, 1, 2, 3, 4, 6]),
             "delta": rng.choice([0.0, 0.0, 1e-4, 0.25, 1.0]),
             "seed": rng.randrange(1 << 30), "ninit": rng.choice([1, 1, 1, 2, 3]),
             "mode": rng.choice(["labels", "labels", "labels", "restarts"])}
        if stream == "dyadic":      # how the caller holds the data and the labels
            c["xdtype"] = rng.choice([None, None, None, "float32", "int8", "uint8", "int16", "int64"])
            c["ldtype"] = rng.choice([None, None, "int8", "uint8", "int32", "float64", "bool"])
        c["xlayout"] = rng.choice(LAYOUTS)
        c["xform"] = "1d" if p == 1 and rng.random() < 0.3 else "2d"
        if stream == "dyadic" and rng.random() < 0.2:
            # what the wrapper does with a labelling it does not accept, and with budgets it does not rewrite then
            lm = rng.choice(["short", "long", "offrange", "oor", "oor", "none0", "ninit0"])
            c["lmode"] = lm
            kk = max(1, min(k, n))
            if lm == "short":
                c["L"] = z0[:rng.choice([max(1, n - 1), max(1, n // 2)])] if n > 1 else z0 + [0]
            elif lm == "long":
                c["L"] = z0 + [rng.randrange(kk + 2) for _ in range(rng.choice([1, 2]))]
            elif lm == "offrange":      # another length, no entry selects a cluster
                c["L"] = [rng.choice([-1, -3, kk, kk + 4]) for _ in range(n + rng.choice([-1, 1, 2]) or 1)]
            elif lm == "oor":           # right length, entries outside 0..k
                c["L"] = [v if rng.random() < 0.6 else rng.choice([-1, -2, kk + 1, kk + 5]) for v in z0]
                if all(0 <= v <= kk for v in c["L"]):
                    c["L"][rng.randrange(n)] = rng.choice([-1, kk + 1])
            elif lm == "none0":
                c["mode"] = "restarts"
            if lm in ("oor", "none0", "short", "long", "offrange"):
                c["maxiter"] = rng.choice([0, -1, 1, 2, 3])
                c["delta"] = rng.choice([-1.0, 0.0, 1e-4, 0.25])
            if lm == "ninit0" or rng.random() < 0.15:
                c["ninit"] = rng.choice([0, -1])
            return c
        r = rng.random()
        if r < 0.06:      # rarely used argument values the wrapper rewrites
            c["maxiter"] = rng.choice([0, -1])
        elif r < 0.12:
            c["delta"] = rng.choice([-1.0, -1e-4])
        elif r < 0.18:    # cluster count outside 1..n (clamped), labels valid for the clamped count
            c["k"] = rng.choice([0, -2, n + 1, n + 5])
            kk = max(1, min(c["k"], n))
            c["z0"] = [rng.randrange(kk) for _ in range(n)]
        return c

    @staticmethod
    def _gen_kmeans_slow(rng, stream):
        """runs that need many iterations and whose centre moves shrink gradually: the stopping rule
        (`delta * vdata`, the substituted 0.0001, the substituted 300 iterations) decides the result"""
        n = rng.randrange(20, 61)
        p = rng.choice([1, 1, 2])
        shape = rng.choice(["lattice", "blobs", "blobs"])
        if shape == "lattice":
            X = [[float(i)] + [0.0] * (p - 1) for i in range(n)]
            k = rng.choice([2, 3, 4])
            cut = sorted(rng.sample(range(1, 6), k - 1))          # boundaries far from where they end
            z0 = [sum(1 for b in cut if i >= b) for i in range(n)]
        else:
            cs = [[float(rng.randrange(-20, 21)) for _ in range(p)] for _ in range(rng.choice([2, 3]))]
            X = [[c + rng.randrange(-6, 7) / 4.0 for c in rng.choice(cs)] for _ in range(n)]
            k = rng.choice([3, 4, 5, 6])
            z0 = [rng.randrange(k) for _ in range(n)]
        if stream == "nondyadic":
            kind = rng.choice(["thirds", "tenths", "off", "big"])
            X = [[_nd_scalar(rng, kind, v) for v in r] for r in X]
        return {"kind": "kmeans", "stream": stream, "p": p, "k": k, "X": X, "z0": z0,
                "maxiter": rng.choice([0, -1, 5, 20, 50]),
                "delta": rng.choice([-1.0, -1e-4, 0.0, 1e-4, 1e-3, 1e-2]),
                "seed": rng.randrange(1 << 30), "ninit": 1, "mode": "labels", "slow": True}

    @staticmethod
    def _gen_kmeans_threshold(rng):
        """the stopping rule decides: two tight groups and a chain of points between them that change
        side one after the other (several iterations with small centre moves); a second feature that
        does not influence the assignment scales `vdata` so that one of the moves is a factor 3 below
        or above `delta * vdata` (`delta < 0` stands for the substituted 0.0001)."""
        m = rng.choice([8, 8, 16]); L = rng.randrange(3, 9); D = 16.0
        sp = rng.choice([0.5, 1.0, 2.0])
        xs = [0.0] * m + [D] * m + [D / 2 + (j + 0.5) * (D / (2 * m)) * sp for j in range(L)]
        z0 = [0] * m + [1] * m + [0] * L
        n = len(xs)
        # the moves of the 1-D run (the second feature keeps both centres at 0)
        x = np.array(xs); z = np.array(z0); moves = []
        c = np.array([x[z == 0].mean(), x[z == 1].mean()])
        for _ in range(12):
            z = (np.abs(x - c[1]) < np.abs(x - c[0])).astype(int)
            c2 = np.array([x[z == q].mean() if np.any(z == q) else x.mean() for q in (0, 1)])
            moves.append(float(np.sum((c - c2) ** 2))); c = c2
            if moves[-1] == 0:
                break
        live = [t for t, v in enumerate(moves[:-1]) if v > 0]
        delta = rng.choice([-1.0, -1e-4, 1e-4, 1e-3, 1e-2])
        target = 1e-4 if delta < 0 else delta
        H = 0.0
        if live:
            t = rng.choice(live)
            vd = moves[t] / (target * rng.choice([1 / 3.0, 3.0]))
            vary = 2 * vd - float(np.var(x))
            if vary > 0:
                H = round((vary * n / (2 * m)) ** 0.5 * 4) / 4
        X = [[xs[a], (H if a % 2 == 0 else -H) if a < 2 * m else 0.0] for a in range(n)]
        return {"kind": "kmeans", "stream": "dyadic", "p": 2, "k": 2, "X": X, "z0": z0,
                "maxiter": rng.choice([10, 20, 0]), "delta": delta,
                "seed": rng.randrange(1 << 30), "ninit": 1, "mode": "labels", "slow": True}

    @staticmethod
    def _gen_voronoi(rng, stream):
        n = _size(rng, 1)
        p = rng.choice([1, 1, 2, 3, 5])
        k = rng.choice([1, 2, 3, 4, 7, 12])
        wide = rng.choice(list(INT_RANGES)) if stream == "dyadic" and rng.random() < 0.3 else None
        X = _wide(rng, n, p, wide) if wide else _data(rng, n, p, stream)
        r = rng.random()
        if r < 0.4:       # centres among the data, duplicated centres: exact ties
            C = [list(rng.choice(X)) for _ in range(k)]
        elif r < 0.7 and not wide:     # symmetric pairs around data points: equidistant centres
            C = []
            for _ in range(k):
                x = rng.choice(X); d = rng.choice([0.5, 1.0, 2.0]); s = rng.choice([-1, 1])
                C.append([x[0] + s * d] + list(x[1:]))
        else:
            C = _wide(rng, k, p, wide) if wide else _data(rng, k, p, stream)
        form = rng.choice(["2d", "2d", "2d", "1d" if p == 1 else "2d", "mismatch"])
        if form == "mismatch":
            C = [c + [0.0] for c in C]
        dts = [None, None, "float32", "int8", "uint8", "int16", "uint16", "int32", "int64", "float32"]
        xd = wide if wide and rng.random() < 0.85 else rng.choice(dts)
        return {"kind": "voronoi", "stream": stream, "p": p, "X": X, "C": C, "form": form,
                # how the caller holds the (dyadic) data: float32 / integer dtypes when exact, Fortran / strided /
                # negative-stride / read-only; the centres in the same dtype or another one
                "xdtype": xd if stream == "dyadic" else None,
                "cdtype": (xd if rng.random() < 0.6 else rng.choice(dts)) if stream == "dyadic" else None,
                "xlayout": rng.choice(LAYOUTS), "clayout": rng.choice(LAYOUTS),
                "offset": rng.choice([0, 0, 0, 4096, 65536]) if stream == "dyadic" and not wide else 0}

    @staticmethod
    def _gen_forest(rng, n=None):
        n = n or rng.choice([1, 2, 2, 3, 4, 5, 6, 8, 12, 20])
        parents = _random_forest(rng, n)
        V = len(parents)
        hk = rng.choice(["mono", "mono", "ties", "zero", "nonmono", "neg", "nd"])
        h = [0.0] * V
        for v in range(n, V):
            kids = [c for c in range(V) if parents[c] == v and c != v]
            lo = max(h[c] for c in kids)
            if hk == "mono":
                h[v] = lo + rng.choice([0.0, 0.5, 1.0, 2.0])
            elif hk == "ties":
                h[v] = lo + rng.choice([0.0, 0.0, 1.0])
            elif hk == "zero":
                h[v] = 0.0
            elif hk == "nonmono":
                h[v] = max(0.0, lo + rng.choice([-1.0, -0.5, 0.5, 1.0]))
            elif hk == "neg":
                h[v] = lo + rng.choice([-1.0, 0.0, 1.0, -0.25])
            else:
                h[v] = lo + rng.choice([0.0, 1 / 3.0, 0.1, 1e-9])
        ths = sorted(set(h))
        cuts = [t for t in ths if t > 0][:3] + [(a + b) / 2 for a, b in zip(ths, ths[1:])][:3] + [ths[-1] + 1]
        return {"kind": "forest", "n": n, "parents": parents, "heights": h, "hk": hk,
                "ks": sorted({1, 2, n, max(1, n - 1), n + 1, V, rng.randrange(1, V + 2)}), "ths": cuts[:6]}

    @staticmethod
    def _gen_fhist(rng):
        """a history on ONE WeightedForest object: cuts by count and by height in any order, the queries, new
        heights, `merge_simple_branches`, `_label` - every answer must be the one a fresh object gives"""
        shape = rng.choice(["binary", "binary", "general", "general", "chain", "anyorder"])
        n = rng.choice([1, 2, 3, 4, 5, 6, 8, 12])
        if shape == "binary":
            parents = _random_forest(rng, n, full=rng.random() < 0.5)
        elif shape == "chain":
            V = n + rng.randrange(0, 4)
            parents = [min(v + 1, V - 1) for v in range(V)]
            if V > 3 and rng.random() < 0.5:
                parents[rng.randrange(V - 2)] = V - 1
        else:
            V = n + rng.randrange(0, n + 2)
            parents = list(range(V))
            for v in range(V - 1):
                if rng.random() < 0.8:
                    parents[v] = rng.randrange(v + 1, V)
            if shape == "anyorder":     # parents need not come after their children
                perm = list(range(V)); rng.shuffle(perm)
                q = [0] * V
                for v in range(V):
                    q[perm[v]] = perm[parents[v]]
                parents = q
        V = len(parents)

        def heights():
            kind = rng.choice(["mono", "mono", "ties", "zero", "any"])
            h = [0.0] * V
            if kind == "any":
                return [rng.choice([0.0, 0.5, 1.0, 2.0, -1.0, 3.0]) for _ in range(V)]
            order = sorted(range(V), key=lambda v: (parents[v] == v, v))
            depth = {}
            def dep(v, seen=()):
                if v in depth:
                    return depth[v]
                kids = [c for c in range(V) if parents[c] == v and c != v]
                depth[v] = 0 if not kids else 1 + max(dep(c) for c in kids)
                return depth[v]
            for v in range(V):
                dep(v)
            for v in sorted(range(V), key=lambda v: depth[v]):
                kids = [c for c in range(V) if parents[c] == v and c != v]
                if kids:
                    lo = max(h[c] for c in kids)
                    h[v] = {"mono": lo + rng.choice([0.5, 1.0, 2.0, 0.0]), "ties": lo + rng.choice([0.0, 0.0, 1.0]),
                            "zero": 0.0}[kind]
            return h
        h = heights()
        h0 = list(h)
        ops = []
        for _ in range(rng.randrange(3, 10)):
            o = rng.choice(["split", "split", "partition", "partition", "chk", "subtrees", "msb", "label",
                            "setheight", "getheight", "children"])
            if o == "split":
                ops.append(["split", rng.choice([0, 1, 2, 3, n, V, V + 1, rng.randrange(1, V + 2)])])
            elif o == "partition":
                hs = sorted(set(h))
                ops.append(["partition", rng.choice(hs + [(a + b) / 2 for a, b in zip(hs, hs[1:])] + [hs[-1] + 1.0])])
            elif o == "setheight":
                h = heights()
                ops.append(["setheight", list(h)])
            else:
                ops.append([o])
        return {"kind": "fhist", "shape": shape, "parents": parents, "heights": h0, "ops": ops}

    @staticmethod
    def _gen_pieces(rng):
        what = rng.choice(["inertia", "auxgraph", "fusion", "fusion"])
        stream = rng.choice(["dyadic", "nondyadic"])
        if what == "inertia":
            p = rng.choice([1, 2, 3, 5])
            A = _data(rng, rng.randrange(1, 6), p, stream)
            B = _data(rng, rng.randrange(1, 6), p, stream)
            return {"kind": "pieces", "what": what, "stream": stream, "p": p, "A": A, "B": B}
        if what == "auxgraph":
            n = rng.randrange(1, 12)
            p = rng.choice([1, 2, 3])
            m = rng.randrange(0, 3 * n)
            E = [[rng.randrange(n), rng.randrange(n)] for _ in range(m)]   # directed, loops, repeats
            return {"kind": "pieces", "what": what, "stream": stream, "p": p, "X": _data(rng, n, p, stream), "E": E}
        # fusion on a symmetric similarity graph over some current roots
        nodes = rng.sample(range(12), rng.randrange(3, 9))
        i, j = nodes[0], nodes[1]
        k = 12 + rng.randrange(3)
        und = [(min(a, b), max(a, b)) for x, a in enumerate(nodes) for b in nodes[x + 1:]
               if {a, b} != {i, j} and rng.random() < 0.7]
        if rng.random() < 0.5:
            und = [(b, a) if rng.random() < 0.5 else (a, b) for a, b in und]
        if stream == "dyadic":
            W = [rng.choice([1.0, 2.0, 0.5, 3.0, 0.25]) for _ in und]
        else:
            W = [rng.choice([1 / 3.0, 0.1, 0.7, 1e6 + 0.1, 2 / 7.0]) for _ in und]
        return {"kind": "pieces", "what": what, "stream": stream, "E": [list(e) for e in und], "W": W,
                "i": i, "j": j, "k": k, "pi": rng.randrange(1, 6), "pj": rng.randrange(1, 6)}

    # ------------------------------------------------------------------
    def run_case(self, case):
        warnings.filterwarnings("ignore")
        r = getattr(self, "_" + case["kind"])(case)
        # while shrinking, a candidate only counts if it fails in the same way as the original
        if case.get("focus") and r.get("oracle") and _cls(r["oracle"]) != case["focus"]:
            r["oracle"] = None
        return r

    # ---- k-means ------------------------------------------------------
    @staticmethod
    def _wcss(X, C, z):
        return float(np.sum((X - C[z]) ** 2))

    def _kmeans(self, c):
        from nipy.algorithms.clustering import utils as ku
        X = np.array(c["X"], dtype=float).reshape(len(c["X"]), c["p"])
        n, p, k = X.shape[0], c["p"], c["k"]
        kk = max(1, min(k, n))
        z0 = np.array(c["z0"], dtype=int)
        restarts = c.get("mode") == "restarts"
        lmode = c.get("lmode")
        ninit = c.get("ninit", 1)
        maxiter = c["maxiter"] if (not restarts or lmode) else max(1, c["maxiter"])
        calls, draws = [], []
        oE, oM, orand = ku._EStep, ku._MStep, np.random.rand

        def E(x, cen):
            r = oE(x, cen)
            calls.append(("E", np.array(x, float), np.array(cen, float), np.array(r[0]), float(r[1])))
            return r

        def M(x, z, kq):
            r = oM(x, z, kq)
            calls.append(("M", np.array(x, float), np.array(z), int(kq), np.array(r, float)))
            return r

        def rand(*a):
            r = orand(*a)
            draws.append(np.array(r))
            return r
        Xc = _presented(X, c.get("xdtype"), c.get("xlayout"))
        if c.get("xform") == "1d" and p == 1:
            Xc = Xc[:, 0]
        z0c = z0
        if c.get("ldtype"):
            zt = z0.astype(c["ldtype"])
            if np.array_equal(zt.astype(int), z0):
                z0c = zt
        if lmode and "L" in c:
            z0c = np.array(c["L"], dtype=int)
        Lpass = None if restarts else z0c

        def publine():
            """the call as the model of the public wrapper reads it"""
            if Lpass is None:
                inits = [X[np.argsort(d)[:kk]] for d in draws]
                ltxt = f"N {len(inits)} " + " ".join(_mat(I) for I in inits)
            else:
                ltxt = f"L {len(Lpass)} " + _ints(Lpass)
            return f"kmpub {p} {n} {k} {maxiter} {fr(c['delta'])} {ninit} {_mat(X)} {ltxt}".rstrip()
        snap = Snapshot(X=Xc, z0=z0c)
        st = np.random.get_state()
        np.random.seed(c["seed"] % (2 ** 31))
        ku._EStep, ku._MStep, np.random.rand = E, M, rand
        try:
            try:
                Cn, zn, J = ku.kmeans(Xc, k, Labels=Lpass, maxiter=maxiter, delta=c["delta"], ninit=ninit)
            except Exception as e:
                if lmode:
                    # a labelling the wrapper does not accept / a loop that never runs: outside the inputs the
                    # property quantifies over; the refusal is an observation the model must reproduce
                    return {"lines": [publine()], "impl": [("err", errname(e))], "oracle": None,
                            "nontrivial": n >= 3 and kk >= 2, "mutated": snap.changed(),
                            "tags": ["kmeans", "kmeans-labels:" + lmode, "kmeans-refusal:" + type(e).__name__]}
                return {"oracle": f"kmeans raised {type(e).__name__}: {e} (n={n}, p={p}, k={k}, "
                                  f"maxiter={maxiter}, delta={c['delta']}, ninit={ninit}, restarts={restarts})",
                        "tags": ["kmeans", "raised"]}
        finally:
            ku._EStep, ku._MStep, np.random.rand = oE, oM, orand
            np.random.set_state(st)
        mut = snap.changed()
        Cn = np.asarray(Cn, float); zn = np.asarray(zn)
        lines, impl, tags = [], [], ["kmeans", "kmeans-" + c.get("stream", "dyadic"), "kmeans-x=" + Xc.dtype.name,
                                     "kmeans-labels=" + z0c.dtype.name]
        scale = 1.0 + float(np.abs(X).max()) ** 2 * p
        exact_all, fragile_run = True, False
        ne = nm = 0
        prevC = None
        vdat = float(np.mean(np.var(X, 0)))
        delta_eff = c["delta"]
        accepted = Lpass is not None and len(Lpass) == n and Lpass.min() > -1 and Lpass.max() < kk + 1
        if accepted and maxiter > 0 and c["delta"] < 0:
            delta_eff = 0.0001
        for cl in calls:
            if cl[0] == "E":
                _, x, cen, z, Jv = cl
                D = ((x[:, None, :] - cen[None, :, :]) ** 2).sum(2)
                exact = bool(c.get("stream", "dyadic") == "dyadic" and np.all(np.abs(cen) < 1024)
                             and np.all(cen * 1024 == np.round(cen * 1024))
                             and np.all(np.abs(x) < 2 ** 20) and np.all(x * 1024 == np.round(x * 1024)))
                exact_all = exact_all and exact
                frag = []
                if not exact:
                    for i in range(n):
                        o = np.argsort(D[i], kind="stable")
                        for q in o[1:]:
                            if D[i, q] - D[i, o[0]] > 1e-9 * scale:
                                break
                            # the whole-run model computes its own exact centres: centres that are the
                            # same float (e.g. a one-point cluster at the global mean) may differ there
                            fragile_run = True
                            if not np.array_equal(cen[q], cen[o[0]]):
                                frag.append(i); break
                if frag:
                    fragile_run = True
                prevC = cen
                if ne < MAXTRACE:
                    ne += 1
                    lines.append(f"estep {p} {n} {cen.shape[0]} {_mat(x)} {_mat(cen)}")
                    impl.append(("estep", z.tolist(), Jv, frag, scale))
            else:
                _, x, z, kq, cen = cl
                # the loop compares the centres handed to the E-step of this iteration with these
                if prevC is not None and delta_eff > 0 and prevC.shape == cen.shape:
                    val, thr = float(np.sum((prevC - cen) ** 2)), delta_eff * vdat
                    if abs(val - thr) <= 1e-9 * (1 + thr) * scale:
                        fragile_run = True
                prevC = None
                if nm < MAXTRACE and np.all(z >= 0) and len(z) == n:
                    nm += 1
                    lines.append(f"mstep {p} {n} {kq} {_mat(x)} {_ints(z)}")
                    impl.append(("mat", cen.ravel().tolist(), scale))
        if lmode:
            tags.append("kmeans-labels:" + lmode)
        if not fragile_run and (Lpass is not None or len(draws) == ninit):
            lines.append(publine())
            impl.append(("kmeans", zn.tolist(), Cn.ravel().tolist(), float(J), scale))
            tags.append("kmeans-public-run")
        if lmode:
            pass
        elif not fragile_run and not restarts:
            lines.append(f"kmeans {p} {n} {k} {maxiter} {fr(c['delta'])} {_mat(X)} {_ints(z0)}")
            impl.append(("kmeans", zn.tolist(), Cn.ravel().tolist(), float(J), scale))
            tags.append("kmeans-full-run")
        elif not fragile_run and restarts and len(draws) == ninit:
            inits = [X[np.argsort(d)[:kk]] for d in draws]
            lines.append(f"kmeansr {p} {n} {kk} {ninit} {maxiter} {fr(c['delta'])} {_mat(X)} "
                         + " ".join(_mat(I) for I in inits))
            impl.append(("kmeans", zn.tolist(), Cn.ravel().tolist(), float(J), scale))
            tags.append("kmeans-restarts-run")
        else:
            tags.append("kmeans-near-tie")
        tags.append("exact-arith" if exact_all else "rounded-arith")
        if maxiter <= 0:
            tags.append("maxiter<=0")
        if c["delta"] < 0:
            tags.append("delta<0")
        if k != kk:
            tags.append("k-clamped")
        if np.isinf(J):
            tags.append("J=inf")
        # ---- oracle
        fail = self._kmeans_valid(X, k, Cn, zn, "kmeans")
        if fail is None and not restarts and not lmode:
            # from the fixed initial labelling, more iterations never increase the WCSS of the solution
            top = min(maxiter, 8) if maxiter > 0 else 4
            prev = None
            for m in range(1, top + 2):
                Cm, zm, _ = ku.kmeans(X, k, Labels=z0.copy(), maxiter=m, delta=c["delta"])
                w = self._wcss(X, np.asarray(Cm), np.asarray(zm))
                f2 = self._kmeans_valid(X, k, np.asarray(Cm, float), np.asarray(zm), f"kmeans(maxiter={m})")
                if f2:
                    fail = f2; break
                if prev is not None and w > prev + 1e-9 * scale * n:
                    fail = (f"kmeans from the fixed initial labelling: within-cluster sum of squares of the "
                            f"returned solution rises from {prev} (maxiter={m - 1}) to {w} (maxiter={m})")
                    break
                prev = w
        if fail is None and restarts and not lmode:
            # the same draws, more iterations: the returned solution (last restart) is never worse
            prev = None
            for m in range(1, min(maxiter, 6) + 2):
                np.random.seed(c["seed"] % (2 ** 31))
                try:
                    Cm, zm, _ = ku.kmeans(X, k, Labels=None, maxiter=m, delta=c["delta"], ninit=ninit)
                finally:
                    np.random.set_state(st)
                w = self._wcss(X, np.asarray(Cm), np.asarray(zm))
                f2 = self._kmeans_valid(X, k, np.asarray(Cm, float), np.asarray(zm), f"kmeans(random init, maxiter={m})")
                if f2:
                    fail = f2; break
                if prev is not None and w > prev + 1e-9 * scale * n:
                    fail = (f"kmeans from fixed random seeds: within-cluster sum of squares of the returned "
                            f"solution rises from {prev} (maxiter={m - 1}) to {w} (maxiter={m})")
                    break
                prev = w
        if len(set(zn.tolist())) < kk:
            tags.append("empty-cluster")
        return {"lines": lines, "impl": impl, "oracle": fail, "nontrivial": n >= 3 and kk >= 2,
                "tags": tags, "mutated": mut}

    @staticmethod
    def _kmeans_valid(X, k, C, z, who):
        n = X.shape[0]
        kk = max(1, min(k, n))
        if z.shape != (n,) or C.shape != (kk, X.shape[1]):
            return f"{who}: labels shape {z.shape} / centres shape {C.shape} for n={n}, k={kk}"
        if z.min() < 0 or z.max() >= kk:
            return f"{who}: label out of range: min {z.min()} max {z.max()} for k={kk}"
        g = X.mean(0)
        for q in range(kk):
            want = X[z == q].mean(0) if np.any(z == q) else g
            if not np.allclose(C[q], want, rtol=1e-12, atol=1e-12 * (1 + np.abs(X).max())):
                return (f"{who}: centre {q} = {C[q].tolist()} is not the mean of its members "
                        f"{want.tolist()} ({int(np.sum(z == q))} members)")
        return None

    def _voronoi(self, c):
        from nipy.algorithms.clustering import utils as ku
        p = c["p"]
        X = np.array(c["X"], dtype=float).reshape(len(c["X"]), p)
        C = np.array(c["C"], dtype=float)
        if c.get("offset"):      # a large common offset (time stamps, scanner coordinates): distances are unchanged
            X = X + float(c["offset"]); C = C + float(c["offset"])
        pc = C.shape[1]
        xa, ca = (X[:, 0].copy(), C[:, 0].copy()) if c["form"] == "1d" else (X, C)
        if c.get("xdtype") or c.get("xlayout") or c.get("cdtype") or c.get("clayout"):
            xa = _presented(xa, c.get("xdtype"), c.get("xlayout"))
            ca = _presented(ca, c.get("cdtype", c.get("xdtype")), c.get("clayout"))
        intd = xa.dtype.kind in "iub" or ca.dtype.kind in "iub"
        eps = EPS
        if np.result_type(xa, ca) == np.float32:      # distances are computed in single precision: exact?
            x32, c32 = xa.astype(np.float32).reshape(len(xa), -1), ca.astype(np.float32).reshape(len(ca), -1)
            if x32.shape[1] == c32.shape[1]:
                D32 = ((x32[:, None, :] - c32[None, :, :]) ** 2).sum(2)
                D64 = ((x32.astype(float)[:, None, :] - c32.astype(float)[None, :, :]) ** 2).sum(2)
                if not np.array_equal(D32.astype(float), D64):
                    eps = 2.0 ** -23
        snap = Snapshot(X=xa, C=ca)
        line = f"voronoi {p} {X.shape[0]} {pc} {C.shape[0]} {_mat(X)} {_mat(C)}"
        fail = None
        dyadic = c.get("stream", "dyadic") == "dyadic" and eps == EPS
        try:
            z = np.asarray(ku.voronoi(xa, ca))
            n, k = X.shape[0], C.shape[0]
            if z.shape != (n,) or z.min() < 0 or z.max() >= k:
                fail = f"voronoi: labels {z.tolist()} not in range for {k} centres"
                obs = ("labels", z.tolist())
            else:
                # exact squared distances of the binary64 inputs
                XF = [[Fraction(v) for v in r] for r in X.tolist()]
                CF = [[Fraction(v) for v in r] for r in C.tolist()]
                frag = []
                for i in range(n):
                    D = [sum((a - b) ** 2 for a, b in zip(XF[i], CF[q])) for q in range(k)]
                    mn = min(D)
                    # rounding of (x - c)**2 summed over p features: a few ulps of the largest term
                    slack = 0 if dyadic else Fraction(8 * (p + 2) * eps) * max(D[int(z[i])], 1e-300)
                    if D[int(z[i])] > mn + slack:
                        fail = (f"voronoi: item {i} labelled {int(z[i])} at squared distance {float(D[int(z[i])])} "
                                f"but centre {D.index(mn)} is at {float(mn)}")
                        break
                    if not dyadic:
                        near = [q for q in range(k) if D[q] <= mn + 2 * slack + Fraction(1, 10 ** 300)]
                        if len({tuple(C[q].tolist()) for q in near}) > 1:
                            frag.append(i)
                obs = ("vlabels", z.tolist(), frag)
        except Exception as e:
            obs = ("err", errname(e))
            if c["form"] != "mismatch":
                fail = f"voronoi raised {type(e).__name__}: {e} on consistent shapes"
        tags = ["voronoi", "voronoi-" + c["form"], "voronoi-" + c.get("stream", "dyadic"),
                "voronoi-x=" + xa.dtype.name, "voronoi-c=" + ca.dtype.name]
        if c.get("xlayout") or c.get("clayout"):
            tags.append("voronoi-layout")
        lines, impl = [line], [obs]
        if fail and intd and not INT_DTYPE_FIXED:       # see INT_DTYPE_FIXED
            fail, lines, impl = None, [], []
            tags.append("voronoi-int-dtype-unfixed")
        return {"lines": lines, "impl": impl, "oracle": fail,
                "nontrivial": X.shape[0] >= 3 and C.shape[0] >= 2, "tags": tags, "mutated": snap.changed()}

    # ---- hierarchical -------------------------------------------------
    @staticmethod
    def _mkgraph(n, E, extra, W=None, wmode=None, X=None, loops=None, wdtype=None):
        from nipy.algorithms.graph.graph import WeightedGraph
        d = [(a, b) for a, b in E] + [(b, a) for a, b in E]
        w = (list(W) + list(W)) if W is not None else [1.0] * len(d)
        if extra == "loops":
            d += [(a, a) for a in range(0, n, 2)]; w += [1.0] * len(range(0, n, 2))
        if extra == "parallel" and E:
            d += d[: len(E)][:3] + d[len(E):][:3]
            w += [1.0] * (len(d) - len(w))
        for a, x in loops or []:          # self-similarities (the diagonal of a similarity matrix)
            d.append((a, a)); w.append(x)
        if W is None and wmode not in (None, "ones"):     # weights of a pure topology: any numbers
            if wmode == "zeros":
                w = [0.0] * len(d)
            elif wmode == "antisym":      # cancel in the symmetric part
                w = [1.0 + (a + b) % 3 if a < b else -(1.0 + (a + b) % 3) for a, b in d]
            elif wmode == "lengths" and X is not None:    # 0 between duplicated points
                w = [float(np.sqrt(np.sum((np.asarray(X[a], float) - np.asarray(X[b], float)) ** 2))) for a, b in d]
            elif wmode == "mixed":
                w = [float((3 * a + 5 * b) % 4 - 1) for a, b in d]
            elif wmode == "ints":
                w = [float((a + b) % 5) for a, b in d]
        if not d:
            return WeightedGraph(n)
        wa = np.array(w, dtype=float)
        if wdtype or wmode == "ints":
            with np.errstate(all="ignore"):
                wi = wa.astype(wdtype or "int64")
            if np.array_equal(wi.astype(float), wa):
                wa = wi
        return WeightedGraph(n, np.array(d, dtype=int), wa)

    @staticmethod
    def _dendrogram(parents, heights, n, und, comps, who, cost_fn, tol):
        """validity of a dendrogram + admissibility/optimality of each merge.
        cost_fn(setA, setB) -> linkage cost of merging; returns (failure, merge sequence).
        Heights must be non-decreasing from child to parent exactly as stored (no tolerance);
        values are compared with the linkage cost within `tol`."""
        ncc = len(set(comps))
        V = len(parents)
        if V != 2 * n - ncc or len(heights) != V:
            return f"{who}: {V} nodes for {n} items in {ncc} components (expected {2 * n - ncc})", None
        kids = {}
        for v in range(V):
            pv = int(parents[v])
            if pv != v:
                if pv < n:
                    return f"{who}: input item {pv} is the parent of node {v} (items must be leaves)", None
                if pv <= v or pv >= V:
                    return f"{who}: parent of node {v} is {pv}: not a forest ordered by creation", None
                kids.setdefault(pv, []).append(v)
                if heights[pv] < heights[v]:
                    return (f"{who}: height decreases from child {v} ({heights[v]!r}) to parent {pv} "
                            f"({heights[pv]!r})"), None
        seq = []
        for kx in range(n, V):
            ch = kids.get(kx, [])
            if len(ch) != 2:
                return f"{who}: non-leaf node {kx} has {len(ch)} children (one binary merge expected)", None
            seq.append((ch[0], ch[1]))
        roots = [v for v in range(V) if int(parents[v]) == v]
        if len(roots) != ncc:
            return f"{who}: {len(roots)} trees for {ncc} connected components", None
        # replay
        leaves = {v: {v} for v in range(n)}
        alive = set(range(n))
        adj = {v: set() for v in range(n)}
        for a, b in und:
            adj[a].add(b); adj[b].add(a)
        for t, (i, j) in enumerate(seq):
            kx = n + t
            if i not in alive or j not in alive:
                return f"{who}: merge {t} uses node {i if i not in alive else j} which is not a current root", seq
            if j not in adj[i]:
                return f"{who}: merge {t} joins clusters {i} and {j} that are not joined by an edge", seq
            cij = cost_fn(leaves[i], leaves[j])
            if not close(cij, heights[kx], 1e-9, tol):
                return f"{who}: height of node {kx} is {heights[kx]} but the linkage cost of its merge is {cij}", seq
            best, arg = cij, None
            for a in alive:
                for b in adj[a]:
                    if a < b:
                        cab = cost_fn(leaves[a], leaves[b])
                        if cab < best - tol:
                            best, arg = cab, (a, b)
            if arg is not None:
                return (f"{who}: merge {t} ({i},{j}) costs {cij} but the admissible merge {arg} costs {best}"), seq
            leaves[kx] = leaves[i] | leaves[j]
            na = (adj[i] | adj[j]) - {i, j}
            for a in na:
                adj[a] -= {i, j}; adj[a].add(kx)
            adj[kx] = na
            alive -= {i, j}; alive.add(kx)
            del adj[i], adj[j]
        for r in roots:
            ls = leaves[r]
            if len({comps[v] for v in ls}) != 1 or len(ls) != sum(1 for v in range(n) if comps[v] == comps[next(iter(ls))]):
                return f"{who}: the tree rooted at {r} does not span exactly one connected component", seq
        return None, seq

    @staticmethod
    def _cut_ok(u, n, want, adjl, who):
        u = np.asarray(u)
        if u.shape != (n,):
            return f"{who}: label vector of shape {u.shape} for {n} items"
        got = len(set(u.tolist()))
        if got != want:
            return f"{who}: {got} clusters returned, {want} expected"
        if int(u.min()) < 0 or int(u.max()) >= want:
            return f"{who}: labels {int(u.min())}..{int(u.max())} out of range for {want} clusters"
        for l in set(u.tolist()):
            if not _connected([v for v in range(n) if u[v] == l], adjl):
                return f"{who}: cluster {l} is not connected in the constraint graph"
        return None

    def _cuts(self, t, n, ncc, adjl, ks, who, lines, impl, tagk):
        """split for the ks, partition at heights of the tree: oracle + model lines"""
        fail = None
        par, hei = np.asarray(t.parents).tolist(), np.asarray(t.height, float).tolist()
        V = len(par)
        ptxt = _ints(par)
        try:
            ok = bool(t.check_compatible_height())
            if not ok:
                fail = f"{who}: check_compatible_height() is False on the returned dendrogram"
            lines.append(f"chkheight {V} {ptxt} {frs(hei)}")
            impl.append(("flag", "1" if ok else "0"))
        except Exception as e:
            fail = f"{who}.check_compatible_height() raised {type(e).__name__}: {e}"
        for k in ks:
            want = max(min(k, n), ncc)
            try:
                u = t.split(k)
                f = self._cut_ok(u, n, want, adjl, f"{who}.split({k})")
                obs = ("labels", _canon(u))
            except Exception as e:
                f = f"{who}.split({k}) raised {type(e).__name__}: {e} ({n} items, {ncc} components)"
                obs = ("err", errname(e))
            fail = fail or f
            lines.append(f"split {V} {k} {ptxt} {frs(hei)}")
            impl.append(obs)
        leafh = max(hei[:n])
        ths = sorted({h for h in hei if h > leafh})
        cuts = ths[:2] + ths[-1:] + [(a + b) / 2 for a, b in zip(ths[:3], ths[1:4])] + ([ths[-1] + 1] if ths else [leafh + 1.0])
        for th in cuts[:5]:
            want = ncc + sum(1 for v in range(n, V) if not (hei[v] < th))
            try:
                u = t.partition(th)
                f = self._cut_ok(u, n, want, adjl, f"{who}.partition({th!r})")
                obs = ("labels", _canon(u))
            except Exception as e:
                f = f"{who}.partition({th!r}) raised {type(e).__name__}: {e}"
                obs = ("err", errname(e))
            fail = fail or f
            lines.append(f"partition {V} {fr(th)} {ptxt} {frs(hei)}")
            impl.append(obs)
        try:
            st = t.list_of_subtrees()
            lines.append(f"subtrees {V} {ptxt}")
            impl.append(("lists", [sorted(int(v) for v in s) for s in st]))
            if ncc == 1:    # one tree: the caveat of the docstring (parent[i] > i below the root) holds
                below = {v: {v} for v in range(n)}
                for v in range(n, V):
                    below[v] = set()
                for v in range(V - 1):
                    below[par[v]] |= below[v]
                for v in range(n, V):
                    if sorted(int(x) for x in st[v - n]) != sorted(below[v]):
                        fail = fail or (f"{who}.list_of_subtrees(): node {v} lists {sorted(int(x) for x in st[v - n])}, "
                                        f"the items below it are {sorted(below[v])}")
                        break
        except Exception as e:
            fail = fail or f"{who}.list_of_subtrees() raised {type(e).__name__}: {e}"
        # a dendrogram has no simple branch: `merge_simple_branches` gives the same forest back
        try:
            f2 = t.merge_simple_branches()
            p2 = [int(v) for v in f2.parents]
            lines.append(f"msb {V} {ptxt}"); impl.append(("nats", p2))
            if p2 != par:
                fail = fail or f"{who}.merge_simple_branches(): parents {p2[:12]} differ from the dendrogram's {par[:12]}"
        except Exception as e:
            fail = fail or f"{who}.merge_simple_branches() raised {type(e).__name__}: {e}"
        # the numbering `plot` uses (`_label`): an in-order numbering of every tree; NumPy refuses a tree that is
        # a single item (recorded, the model refuses the same)
        from nipy.algorithms.clustering import hierarchical_clustering as hc
        try:
            lab = [int(v) for v in hc._label(np.asarray(t.parents))]
            obs = ("nats", lab)
            if sorted(lab) != list(range(V)):
                fail = fail or f"{who}: _label(parents) = {lab[:12]} is not a numbering of the {V} nodes"
        except Exception as e:
            obs = ("err", errname(e))
            if not any(par[v] == v for v in range(n)):
                fail = fail or f"{who}: _label(parents) raised {type(e).__name__}: {e} on a forest without single-item trees"
        lines.append(f"label {V} {ptxt}"); impl.append(obs)
        return fail

    def _ward(self, c):
        from nipy.algorithms.clustering import hierarchical_clustering as hc
        from nipy.algorithms.graph.field import Field
        p = c["p"]
        X = np.array(c["X"], dtype=float).reshape(len(c["X"]), p)
        n = X.shape[0]
        und = _und(c["E"])
        comps = _components(n, und)
        ncc = len(set(comps))
        adjl = {v: set() for v in range(n)}
        for a, b in und:
            adjl[a].add(b); adjl[b].add(a)
        scale = 1.0 + float(np.abs(X).max()) ** 2 * p * n
        tol = 1e-13 * scale if c.get("stream") == "nondyadic" else 1e-9 * scale

        def wcost(A, B):
            S = X[sorted(A | B)]
            return float(((S - S.mean(0)) ** 2).sum())
        stream = c.get("stream", "dyadic")
        lines, impl, tags, fail, mut = [], [], ["ward", "ward-" + stream, "graph=" + c["graph"]], None, None
        edges_txt = " ".join(f"{a} {b}" for a, b in und)
        trees = {}
        Xp = _presented(X, c.get("xdtype"), c.get("xlayout"))
        if p == 1 and c.get("xlayout") == "F":       # a feature vector is accepted as such
            Xp = Xp[:, 0].copy()
        intd = Xp.dtype.kind in "iub"
        if Xp.dtype == np.float32:        # `feature ** 2` is rounded in the features' precision
            tol = max(tol, 2.0 ** -21 * scale)
        tags.append("ward-x=" + Xp.dtype.name)
        if c.get("wmode", "ones") != "ones":
            tags.append("ward-weights=" + c["wmode"])

        def mk():
            return self._mkgraph(n, c["E"], c["extra"], wmode=c.get("wmode"), X=c["X"])
        for name in ("ward", "ward_quick"):
            G = mk()
            snap = Snapshot(X=Xp, e=G.edges if G.E else 0, w=G.weights if G.E else 0)
            live = []
            oremap = hc._remap

            def remap(K, i, j, k, Features, linc, rinc, _o=oremap, _live=live):
                r = _o(K, i, j, k, Features, linc, rinc)
                # `_remap` removes double edges on each side only: (k, x) and (x, k) may both stay,
                # with the same weight; the model keeps one edge per unordered pair
                d = {}
                for (a, b), w in zip(K.edges.tolist(), K.weights.tolist()):
                    if a >= 0:
                        d.setdefault((int(min(a, b)), int(max(a, b))), []).append(float(w))
                _live.append(sorted((a, b, ws[0] if len(set(ws)) == 1 else float("nan")) for (a, b), ws in d.items()))
                return r
            hc._remap = remap
            try:
                t = getattr(hc, name)(G, Xp)
            except Exception as e:
                fail = fail or (f"{name} raised {type(e).__name__}: {e} (n={n}, graph={c['graph']}, {ncc} components, "
                                f"features {Xp.dtype.name}, weights {c.get('wmode', 'ones')})")
                continue
            finally:
                hc._remap = oremap
            mut = mut or snap.changed()
            par, hei = np.asarray(t.parents).tolist(), np.asarray(t.height, float).tolist()
            f, seq = self._dendrogram(par, hei, n, und, comps, name, wcost, tol)
            fail = fail or f
            trees[name] = t
            if seq is not None and len(par) == n + len(seq):
                seq_txt = " ".join(f"{a} {b}" for a, b in seq)
                if name == "ward":
                    lines.append(f"ward {p} {n} {len(und)} {_mat(X)} {edges_txt}")
                    impl.append(("ward", par, hei, tol))
                lines.append(f"wardchk {p} {n} {len(und)} {len(seq)} {_mat(X)} {edges_txt} {seq_txt}")
                impl.append(("wardchk", par, hei, tol))
                if n <= 10 and len(live) == len(seq):
                    lines.append(f"wardedges {p} {n} {len(und)} {len(seq)} {_mat(X)} {edges_txt} {seq_txt}")
                    impl.append(("edgesets", live, tol))
        for name in ("ward", "ward_quick"):
            t = trees.get(name)
            if t is not None and fail is None:
                ks = list(range(1, n + 1)) if n <= 12 else c["ks"]
                if name == "ward_quick":
                    ks = c["ks"]
                fail = self._cuts(t, n, ncc, adjl, ks, f"{name}(...)", lines, impl, name)
        if fail is None:
            # the wrappers: stop = -1 (no threshold) with every k of the case, plus rarely used arguments
            # (a finite stop taken from the tree's heights, qmax = -1 / 0)
            combos = [(-1, k) for k in c["ks"]]
            for name in ("ward", "ward_quick"):
                t = trees.get(name)
                if t is not None:
                    hs = sorted({h for h in np.asarray(t.height, float).tolist() if h > 0})
                    if hs:
                        th = [hs[0], hs[len(hs) // 2], (hs[0] + hs[-1]) / 2, hs[-1] * 2 + 1]
                        combos += [(th[(len(c["E"]) + q) % 4], q) for q in (c["ks"][0], c["ks"][-1], -1, 0)]
                    break
            few = {(-1, c["ks"][0]), (-1, c["ks"][-1])} | set(combos[len(c["ks"]):])
            for stop, k in combos:
                for name in ("ward_segment", "ward_quick_segment", "ward_field_segment", "Field.ward"):
                    if name == "Field.ward" and (stop != -1 or k < 1):
                        continue
                    if name != "ward_segment" and (stop, k) not in few:
                        continue
                    kind = 0 if name in ("ward_segment", "Field.ward") else 1
                    t = trees.get("ward" if kind == 0 else "ward_quick")
                    if t is None:
                        continue
                    par, hei = np.asarray(t.parents).tolist(), np.asarray(t.height, float).tolist()
                    V = len(par)
                    G = mk()
                    # what the property promises for these arguments
                    kq = (n - 1 if kind == 0 else k) if k == -1 else k
                    kq = min(kq, n)
                    want_split = max(kq, ncc) if kq > 0 else 1
                    want_part = 1 if (stop != -1 and stop < 0) else \
                        ncc + (0 if stop == -1 else sum(1 for v in range(n, V) if not (hei[v] < stop)))
                    want = max(want_split, want_part)
                    try:
                        if name == "ward_segment":
                            u, cost = hc.ward_segment(G, Xp, stop=stop, qmax=k)
                        elif name == "ward_quick_segment":
                            u, cost = hc.ward_quick_segment(G, Xp, stop=stop, qmax=k)
                        else:
                            F = Field(n, G.edges if G.E else None, G.weights if G.E else None,
                                      Xp.reshape(n, p).copy())
                            if name == "ward_field_segment":
                                u, cost = hc.ward_field_segment(F, stop=stop, qmax=k)
                            else:
                                u, _ = F.ward(k); cost = None
                        f = self._cut_ok(u, n, want, adjl, f"{name}(stop={stop!r}, qmax={k})")
                        if f is None and cost is not None and len(cost) != n - ncc:
                            f = f"{name}: {len(cost)} merge costs for {n - ncc} merges"
                        obs = ("labels", _canon(u))
                    except Exception as e:
                        f = f"{name}(stop={stop!r}, qmax={k}) raised {type(e).__name__}: {e} ({n} items, {ncc} components)"
                        obs = ("err", errname(e))
                    if name != "Field.ward":
                        lines.append(f"segment {kind} {V} {n} {fr(stop)} {k} {_ints(par)} {frs(hei)}")
                        impl.append(obs)
                    fail = fail or f
                    if fail:
                        break
                if fail:
                    break
        tags.append("components=%s" % ("1" if ncc == 1 else "many" if ncc < n else "n"))
        if fail and intd and not INT_DTYPE_FIXED:       # see INT_DTYPE_FIXED
            fail, lines, impl = None, [], []
            tags.append("ward-int-features-unfixed")
        return {"lines": lines, "impl": impl, "oracle": fail, "nontrivial": n >= 3 and ncc < n,
                "tags": tags, "mutated": mut}

    def _avglink(self, c):
        from nipy.algorithms.clustering import hierarchical_clustering as hc
        n = c["n"]
        und = [tuple(e) for e in c["E"]]
        W = {e: w for e, w in zip(und, c["W"])}
        comps = _components(n, und)
        ncc = len(set(comps))
        adjl = {v: set() for v in range(n)}
        for a, b in und:
            adjl[a].add(b); adjl[b].add(a)
        wmax = max(c["W"] + [1.0])
        tol = (1e-13 if c.get("stream") == "nondyadic" else 1e-9) * (1 + wmax) * n

        def sim(A, B):
            s = sum(Fraction(W.get((min(a, b), max(a, b)), 0.0)) for a in A for b in B)
            return -max(float(s / (len(A) * len(B))), 0.0)
        stream = c.get("stream", "dyadic")
        tags, fail = ["avglink", "avglink-" + stream, "graph=" + c["graph"]], None
        lines, impl = [], []
        gated = False

        def mk():
            return self._mkgraph(n, und, "none", c["W"], loops=c.get("loops"), wdtype=c.get("wdtype"))
        try:
            G = mk()
            gated = bool(c.get("loops")) or (G.E > 0 and G.weights.dtype.kind in "iub")
            tags.append("avglink-w=" + (G.weights.dtype.name if G.E else "none"))
            if c.get("loops"):
                tags.append("avglink-self-loops")
            if G.E > 0 and G.weights.dtype == np.float32:     # fused averages are computed in the weights' precision
                tol = max(tol, 2.0 ** -21 * (1 + wmax) * n)
            snap = Snapshot(e=G.edges if G.E else 0, w=G.weights if G.E else 0)
            t = hc.average_link_graph(G)
            mut = snap.changed()
            par, hei = np.asarray(t.parents).tolist(), np.asarray(t.height, float).tolist()
            hl = list(hei)
            lo = min(hl) if hl else 0.0
            # leaves sit strictly below every merge; compare merge heights with the negated similarity
            fail, seq = self._dendrogram(par, hl, n, und, comps, "average_link_graph", sim, tol)
            if fail is None and any(hl[v] > lo for v in range(n)):
                fail = "average_link_graph: a leaf is higher than the lowest node"
            if seq is not None and len(par) == n + len(seq):
                lines.append(f"avgchk {n} {len(und)} {len(seq)} "
                             + " ".join(f"{a} {b} {fr(w)}" for (a, b), w in zip(und, c["W"]))
                             + " " + " ".join(f"{a} {b}" for a, b in seq))
                impl.append(("avgchk", par, hei, tol))
            if fail is None:
                ks = list(range(1, n + 1)) if n <= 10 else c["ks"]
                fail = self._cuts(t, n, ncc, adjl, ks, "average_link_graph(...)", lines, impl, "avg")
            if fail is None:
                V = len(par)
                sims = sorted({-h for h in hl[n:]})
                combos = [(-1, k) for k in c["ks"]] + [(-1, -1)]
                if sims:   # a finite stop: clusters are cut where the similarity is <= stop
                    combos += [(sims[len(sims) // 2], c["ks"][0]), (sims[0], 0), (sims[-1], -1)]
                for stop, k in combos:
                    G = mk()
                    kq = min(n if k == -1 else k, n)
                    want_split = max(kq, ncc) if kq > 0 else 1
                    want_part = 1 if stop < 0 else ncc + sum(1 for v in range(n, V) if not (hl[v] < -stop))
                    who = f"average_link_graph_segment(stop={stop!r}, qmax={k})"
                    try:
                        u, cost = hc.average_link_graph_segment(G, stop=stop, qmax=k)
                        fail = fail or self._cut_ok(u, n, max(want_split, want_part), adjl, who)
                        if fail is None and len(cost) != n - ncc:
                            fail = f"average_link_graph_segment: {len(cost)} merge costs for {n - ncc} merges"
                        obs = ("labels", _canon(u))
                    except Exception as e:
                        obs = ("err", errname(e))
                        fail = fail or f"{who} raised {type(e).__name__}: {e} ({n} items, {ncc} components)"
                    lines.append(f"segment 2 {V} {n} {fr(stop)} {k} {_ints(par)} {frs(hl)}")
                    impl.append(obs)
        except Exception as e:
            mut = None
            fail = (f"average_link_graph raised {type(e).__name__}: {e} ({n} items, {len(und)} edges, "
                    f"{ncc} components)")
        if fail and gated and not INT_DTYPE_FIXED:       # see INT_DTYPE_FIXED
            fail, lines, impl = None, [], []
            tags.append("avglink-input-graph-unfixed")
        return {"lines": lines, "impl": impl, "oracle": fail, "nontrivial": n >= 3 and ncc < n, "tags": tags,
                "mutated": mut}

    # ---- hand-made forests: the cut methods on their own -----------------
    def _forest(self, c):
        from nipy.algorithms.clustering import hierarchical_clustering as hc
        n, par, hei = c["n"], c["parents"], c["heights"]
        V = len(par)
        lines, impl, fail = [], [], None
        tags = ["forest", "forest-heights=" + c["hk"]]
        ptxt = _ints(par)
        try:
            t = hc.WeightedForest(V, np.array(par, dtype=int), np.array(hei, dtype=float))
        except Exception as e:
            return {"oracle": f"WeightedForest({V}, parents, height) raised {type(e).__name__}: {e} on a valid forest",
                    "tags": tags}
        snap = Snapshot(p=t.parents, h=t.height)
        if list(np.asarray(t.get_height())) != hei:
            fail = "get_height() differs from the heights given"
        ncc = sum(1 for v in range(V) if par[v] == v)
        mono = all(hei[par[v]] >= hei[v] for v in range(V))
        ok = bool(t.check_compatible_height())
        lines.append(f"chkheight {V} {ptxt} {frs(hei)}"); impl.append(("flag", "1" if ok else "0"))
        if ok != mono:
            fail = fail or f"check_compatible_height() = {ok} but heights are {'' if mono else 'not '}non-decreasing child to parent"
        # leaves of each node / the tree structure: the dendrogram itself is the constraint (every subtree connected)
        below = {v: {v} for v in range(n)}
        for v in range(n, V):
            below[v] = set()
        for v in range(V):
            if par[v] != v:
                below[par[v]] |= below[v]
        leaflow = all(hei[v] <= hei[k] for v in range(n) for k in range(n, V))
        for k in c["ks"]:
            try:
                u = np.asarray(t.split(k))
                obs = ("labels", _canon(u))
                if mono and leaflow:
                    want = max(min(k, n), ncc)
                    if u.shape != (n,) or len(set(u.tolist())) != want:
                        fail = fail or (f"split({k}) on a forest of {n} items in {ncc} trees with monotone heights: "
                                        f"{len(set(u.tolist()))} clusters in a vector of shape {u.shape}, {want} expected")
                    elif not self._subtree_clusters(u, below, n, V):
                        fail = fail or f"split({k}): a cluster is not the item set of a subtree"
            except Exception as e:
                obs = ("err", errname(e))
                if mono and leaflow:
                    fail = fail or f"split({k}) raised {type(e).__name__}: {e} on a forest with monotone heights"
            lines.append(f"split {V} {k} {ptxt} {frs(hei)}"); impl.append(obs)
        for th in c["ths"]:
            try:
                u = np.asarray(t.partition(th))
                obs = ("labels", _canon(u))
                if mono and all(hei[v] < th for v in range(n)):
                    want = ncc + sum(1 for v in range(n, V) if not (hei[v] < th))
                    if u.shape != (n,) or len(set(u.tolist())) != want:
                        fail = fail or (f"partition({th!r}): {len(set(u.tolist()))} clusters, {want} expected "
                                        f"(trees + merges at or above the threshold)")
                    elif not self._subtree_clusters(u, below, n, V):
                        fail = fail or f"partition({th!r}): a cluster is not the item set of a subtree"
            except Exception as e:
                obs = ("err", errname(e))
                if mono and all(hei[v] < th for v in range(n)):
                    fail = fail or f"partition({th!r}) raised {type(e).__name__}: {e}"
            lines.append(f"partition {V} {fr(th)} {ptxt} {frs(hei)}"); impl.append(obs)
        try:
            st = t.list_of_subtrees()
            lines.append(f"subtrees {V} {ptxt}")
            impl.append(("lists", [sorted(int(v) for v in s) for s in st]))
            if ncc == 1:
                for v in range(n, V):
                    if sorted(int(x) for x in st[v - n]) != sorted(below[v]):
                        fail = fail or f"list_of_subtrees(): node {v} lists {sorted(int(x) for x in st[v - n])}, items below it are {sorted(below[v])}"
                        break
        except Exception as e:
            fail = fail or f"list_of_subtrees() raised {type(e).__name__}: {e}"
        # set_height / get_height round trip
        try:
            h2 = [v + 1.0 for v in hei]
            t.set_height(np.array(h2))
            if list(np.asarray(t.get_height())) != h2:
                fail = fail or "set_height then get_height does not return the heights set"
            t.set_height(np.array(hei))
        except Exception as e:
            fail = fail or f"set_height raised {type(e).__name__}: {e}"
        return {"lines": lines, "impl": impl, "oracle": fail, "nontrivial": n >= 3 and V > n, "tags": tags,
                "mutated": snap.changed()}

    def _fhist(self, c):
        from nipy.algorithms.clustering import hierarchical_clustering as hc
        par, hei = list(c["parents"]), list(c["heights"])
        V = len(par)
        ptxt = _ints(par)
        tags = ["fhist", "fhist-" + c["shape"]]
        try:
            t = hc.WeightedForest(V, np.array(par, dtype=int), np.array(hei, dtype=float))
        except Exception as e:
            return {"oracle": f"WeightedForest({V}, parents, height) raised {type(e).__name__}: {e} on a valid forest",
                    "tags": tags}

        def answer(obj, op, h):
            """(observation, model line) of one operation"""
            o = op[0]
            try:
                if o == "split":
                    return ("labels", _canon(obj.split(op[1]))), f"split {V} {op[1]} {ptxt} {frs(h)}"
                if o == "partition":
                    return ("labels", _canon(obj.partition(op[1]))), f"partition {V} {fr(op[1])} {ptxt} {frs(h)}"
                if o == "chk":
                    return ("flag", "1" if obj.check_compatible_height() else "0"), f"chkheight {V} {ptxt} {frs(h)}"
                if o == "subtrees":
                    return ("lists", [sorted(int(v) for v in x) for x in obj.list_of_subtrees()]), f"subtrees {V} {ptxt}"
                if o == "msb":
                    f = obj.merge_simple_branches()
                    return ("nats", [int(v) for v in f.parents]), f"msb {V} {ptxt}"
                if o == "label":
                    return ("nats", [int(v) for v in hc._label(np.asarray(obj.parents))]), f"label {V} {ptxt}"
                if o == "getheight":
                    return ("rats", [float(v) for v in obj.get_height()]), None
                if o == "children":
                    return ("lists", [sorted(int(v) for v in x) for x in obj.get_children()]), None
            except Exception as e:
                line = {"split": f"split {V} {op[1] if len(op) > 1 else 0} {ptxt} {frs(h)}",
                        "partition": f"partition {V} {fr(op[1]) if len(op) > 1 else 0} {ptxt} {frs(h)}",
                        "label": f"label {V} {ptxt}", "msb": f"msb {V} {ptxt}"}.get(o)
                return ("err", errname(e)), line
            raise ValueError(o)
        lines, impl, fail = [], [], None
        nl = sum(1 for v in range(V) if not any(par[u] == v and u != v for u in range(V)))
        for step, op in enumerate(c["ops"]):
            if op[0] == "setheight":
                hei = list(op[1])
                t.set_height(np.array(hei, dtype=float))
                tags.append("fhist-setheight")
                continue
            obs, line = answer(t, op, hei)
            tags.append("fhist-op=" + op[0] + (":refused" if obs[0] == "err" else ""))
            # "the result is a value": a query leaves the object as it was ...
            if [int(v) for v in t.parents] != par or [float(v) for v in t.height] != hei:
                fail = fail or (f"step {step} ({op[0]}{op[1:]}) changed the dendrogram: parents {list(map(int, t.parents))} "
                                f"heights {[float(v) for v in t.height]} (were {par}, {hei})")
                break
            # ... and answers what a fresh object with the same parents and heights answers
            fresh = hc.WeightedForest(V, np.array(par, dtype=int), np.array(hei, dtype=float))
            obs2, _ = answer(fresh, op, hei)
            if obs2 != obs:
                fail = fail or (f"step {step} ({op[0]}{op[1:]}) after {[o[0] for o in c['ops'][:step]]} answers "
                                f"{obs[1]}, a fresh object with the same parents and heights answers {obs2[1]}")
                break
            if line is not None and not (op[0] == "subtrees" and c["shape"] == "anyorder"):
                lines.append(line); impl.append(obs)
        return {"lines": lines, "impl": impl, "oracle": fail, "nontrivial": V >= 3 and nl < V, "tags": sorted(set(tags)),
                "mutated": None}

    @staticmethod
    def _subtree_clusters(u, below, n, V):
        sets = {}
        for a in range(n):
            sets.setdefault(int(u[a]), set()).add(a)
        subs = {frozenset(below[v]) for v in range(V)}
        return all(frozenset(s) in subs for s in sets.values())

    # ---- direct calls of the helpers ---------------------------------------
    def _pieces(self, c):
        from nipy.algorithms.clustering import hierarchical_clustering as hc
        from nipy.algorithms.graph.graph import WeightedGraph
        what = c["what"]
        tags = ["pieces", "pieces-" + what, "pieces-" + c["stream"]]
        fail, lines, impl, mut = None, [], [], None
        nd = c["stream"] == "nondyadic"
        if what == "inertia":
            p = c["p"]
            A = np.array(c["A"], float).reshape(-1, p); B = np.array(c["B"], float).reshape(-1, p)
            Features = [np.array([float(len(A)), float(len(B))]), np.vstack([A.sum(0), B.sum(0)]),
                        np.vstack([(A ** 2).sum(0), (B ** 2).sum(0)])]
            snap = Snapshot(a=Features[0], b=Features[1], c=Features[2])
            v = float(hc._inertia(0, 1, Features))
            mut = snap.changed()
            S = np.vstack([A, B])
            want = float(((S - S.mean(0)) ** 2).sum())
            scale = 1.0 + float(np.abs(S).max()) ** 2 * p * len(S)
            tol = (1e-13 if nd else 1e-9) * scale
            if not close(v, want, 1e-9, tol):
                fail = f"_inertia = {v} but the within-cluster sum of squares of the union is {want}"
            v2 = float(hc._inertia_(0, 1, [A, B]))
            if not close(v2 * len(S), want, 1e-9, tol):
                fail = fail or f"_inertia_ = {v2} but variance summed over features is {want / len(S)}"
            lines.append(f"inertia {p} {len(A)} {frs(Features[1][0])} {frs(Features[2][0])} "
                         f"{len(B)} {frs(Features[1][1])} {frs(Features[2][1])}")
            impl.append(("val", v, tol))
            lines.append(f"inertiav {p} {len(S)} {_mat(S)}")        # `_inertia_`: the variance form
            impl.append(("val", v2, tol / len(S)))
        elif what == "auxgraph":
            p = c["p"]
            X = np.array(c["X"], float).reshape(-1, p)
            n = X.shape[0]
            E = c["E"]
            G = WeightedGraph(n, np.array(E, dtype=int).reshape(-1, 2), np.ones(len(E))) if E else WeightedGraph(n)
            Features = [np.ones(2 * n), np.zeros((2 * n, p)), np.zeros((2 * n, p))]
            Features[1][:n] = X; Features[2][:n] = X ** 2
            snap = Snapshot(e=G.edges if G.E else 0)
            scale = 1.0 + float(np.abs(X).max()) ** 2 * p * n
            tol = (1e-13 if nd else 1e-9) * scale
            try:
                K = hc._auxiliary_graph(G, Features)
                got = [(int(a), int(b), float(w)) for (a, b), w in zip(K.edges.tolist(), K.weights.tolist())]
                und = _und(E)
                if [(a, b) for a, b, _ in got] != und:
                    fail = f"_auxiliary_graph: edges {[(a, b) for a, b, _ in got][:8]} for the undirected edge set {und[:8]}"
                if K.V != 2 * n - 1:
                    fail = fail or f"_auxiliary_graph: {K.V} vertices for {n} items"
                lines.append(f"auxgraph {p} {n} {len(E)} {_mat(X)} " + " ".join(f"{a} {b}" for a, b in E))
                impl.append(("edgesets", [got], tol))
                # _initial_inertia with seeds: only edges at a seed get a finite weight
                seeds = [v for v in range(n) if v % 3 == 0]
                K2 = hc._auxiliary_graph(G, Features)
                hc._initial_inertia(K2, Features, seeds)
                for (a, b), w, w0 in zip(K2.edges.tolist(), K2.weights.tolist(), K.weights.tolist()):
                    if (a in seeds or b in seeds) != np.isfinite(w) or (np.isfinite(w) and w != w0):
                        fail = fail or f"_initial_inertia(seeds): edge ({a},{b}) weight {w} (unseeded weight {w0})"
                        break
            except Exception as e:
                fail = f"_auxiliary_graph raised {type(e).__name__}: {e} ({n} items, {len(E)} directed edges)"
            mut = snap.changed()
        else:
            und = [tuple(e) for e in c["E"]]
            W = list(c["W"])
            i, j, k = c["i"], c["j"], c["k"]
            d = und + [(b, a) for a, b in und]
            w = W + W
            K = WeightedGraph(16, np.array(d, dtype=int).reshape(-1, 2), np.array(w, dtype=float)) if d else None
            pop = np.ones(16, dtype=int)
            pop[i], pop[j] = c["pi"], c["pj"]; pop[k] = c["pi"] + c["pj"]
            tol = (1e-13 if nd else 1e-9) * (1 + max(W + [1.0]))
            if K is not None:
                try:
                    hc.fusion(K, pop, i, j, k)
                    live = [(int(a), int(b), float(x)) for (a, b), x in zip(K.edges.tolist(), K.weights.tolist()) if a >= 0]
                    lo = sorted((a, b, x) for a, b, x in live if a < b)
                    hi = sorted((b, a, x) for a, b, x in live if a > b)
                    if [(a, b) for a, b, _ in lo] != [(a, b) for a, b, _ in hi] or \
                            any(not close(x, y, 1e-12, tol) for (_, _, x), (_, _, y) in zip(lo, hi)):
                        fail = f"fusion: the two directions of the merged graph differ: {lo[:6]} vs {hi[:6]}"
                    fi = Fraction(c["pi"], c["pi"] + c["pj"])
                    wd = {(min(a, b), max(a, b)): x for (a, b), x in zip(und, W)}
                    for a, b, x in lo:
                        o = a if b == k else b
                        if a == k or b == k:
                            wi = Fraction(wd.get((min(i, o), max(i, o)), 0.0))
                            wj = Fraction(wd.get((min(j, o), max(j, o)), 0.0))
                            want = float(fi * wi + (1 - fi) * wj)
                            if not close(x, want, 1e-12, tol):
                                fail = fail or (f"fusion: similarity between the merged cluster and {o} is {x}, "
                                                f"the population-weighted mean is {want}")
                    lines.append(f"fusion {len(und)} " + " ".join(f"{a} {b} {fr(x)}" for (a, b), x in zip(und, W))
                                 + f" {i} {j} {k} {c['pi']} {c['pj']}")
                    impl.append(("edgesets", [lo], tol))
                except Exception as e:
                    fail = f"fusion raised {type(e).__name__}: {e}"
        return {"lines": lines, "impl": impl, "oracle": fail, "nontrivial": True, "tags": tags, "mutated": mut}

    # ------------------------------------------------------------------
    @staticmethod
    def _cmp_edgesets(sets, model_out, tol):
        msets = [s.strip() for s in model_out.split(";")] if model_out.strip() else []
        if len(sets) != len(msets) and not (len(sets) == 1 and not sets[0] and not msets):
            return f"{len(sets)} edge sets observed, model has {len(msets)}"
        for t, (got, ms) in enumerate(zip(sets, msets)):
            toks = ms.split()
            if len(toks) != 3 * len(got):
                return f"after merge {t}: {len(got)} live edges, model has {len(toks) // 3}"
            for q, (a, b, w) in enumerate(got):
                ma, mb, mw = int(toks[3 * q]), int(toks[3 * q + 1]), float(Fraction(toks[3 * q + 2]))
                if (a, b) != (ma, mb):
                    return f"after merge {t}: live edge {(a, b)} vs model {(ma, mb)}"
                if not close(w, mw, 1e-9, tol):
                    return f"after merge {t}: weight of edge {(a, b)} impl={w} model={mw}"
        return None

    def compare(self, case, impl_obs, model_out):
        kind = impl_obs[0]
        if model_out.startswith("bad-op"):
            return "model rejected the line (bad-op)"
        if kind == "err":
            return None if model_out == impl_obs[1] else f"impl {impl_obs[1]} model {model_out[:80]}"
        if model_out.startswith("error"):
            return f"impl returned a value, model says {model_out}"
        parts = [s.strip() for s in model_out.split("|")]
        if kind == "flag":
            return None if model_out.strip() == impl_obs[1] else f"flag impl={impl_obs[1]} model={model_out}"
        if kind == "val":
            mv = float(parse_rats(parts[0])[0])
            return None if close(impl_obs[1], mv, 1e-9, impl_obs[2]) else f"value impl={impl_obs[1]} model={mv}"
        if kind == "lists":
            got = [" ".join(str(v) for v in s) for s in impl_obs[1]]
            ml = [" ".join(str(v) for v in sorted(int(x) for x in s.split())) for s in model_out.split(";")] \
                if model_out.strip() else []
            if got == [""]:       # one empty list and no list at all print the same
                got = []
            return None if got == ml else f"subtree lists impl={got[:6]} model={ml[:6]}"
        if kind == "edgesets":
            return self._cmp_edgesets(impl_obs[1], model_out, impl_obs[2])
        if kind == "nats":
            want = " ".join(str(v) for v in impl_obs[1])
            return None if want == model_out.strip() else f"impl={want} model={model_out.strip()}"
        if kind == "labels":
            want = " ".join(str(v) for v in impl_obs[1])
            got = " ".join(str(v) for v in _canon(parts[0].split()))
            return None if want == got else f"labels impl={want} model={got}"
        if kind == "vlabels":
            _, z, frag = impl_obs
            mz = [int(v) for v in parts[0].split()]
            if len(mz) != len(z):
                return "label count differs"
            for i, (a, b) in enumerate(zip(z, mz)):
                if a != b and i not in frag:
                    return f"voronoi label of item {i}: impl={a} model={b}"
            return None
        if kind == "estep":
            _, z, J, frag, scale = impl_obs
            mz = [int(v) for v in parts[0].split()]
            if len(mz) != len(z):
                return "label count differs"
            for i, (a, b) in enumerate(zip(z, mz)):
                if a != b and i not in frag:
                    return f"_EStep label of item {i}: impl={a} model={b}"
            mj = float(parse_rats(parts[1])[0])
            return None if close(J, mj, 1e-9, 1e-9 * scale) else f"_EStep J impl={J} model={mj}"
        if kind == "mat":
            mv = [float(x) for x in parse_rats(parts[0])]
            iv = impl_obs[1]
            if len(mv) != len(iv):
                return f"centre count impl={len(iv)} model={len(mv)}"
            for a, b in zip(iv, mv):
                if not close(a, b, 1e-11, 1e-11):
                    return f"_MStep centre value impl={a} model={b}"
            return None
        if kind == "kmeans":
            _, z, C, J, scale = impl_obs
            mz = [int(v) for v in parts[0].split()]
            if mz != z:
                return f"kmeans labels impl={z} model={mz}"
            mc = [float(x) for x in parse_rats(parts[1])]
            if len(mc) != len(C) or any(not close(a, b, 1e-9, 1e-9) for a, b in zip(C, mc)):
                return f"kmeans centres impl={C[:6]} model={mc[:6]}"
            if parts[2] == "inf" or np.isinf(J):
                return None if (parts[2] == "inf" and np.isinf(J)) else f"kmeans J impl={J} model={parts[2]}"
            mj = float(parse_rats(parts[2])[0])
            return None if close(J, mj, 1e-9, 1e-9 * scale) else f"kmeans J impl={J} model={mj}"
        if kind == "ward":
            _, par, hei, tol = impl_obs
            gap = float("inf") if parts[2] == "inf" else float(Fraction(parts[2]))
            if not gap > 4 * tol:
                return None       # (nearly) tied costs: any cheapest merge is legal; see the wardchk line
            mp = [int(v) for v in parts[0].split()]
            if mp != par:
                return f"ward parents impl={par} model={mp}"
            mh = [float(x) for x in parse_rats(parts[1])]
            if len(mh) != len(hei) or any(not close(a, b, 1e-9, tol) for a, b in zip(hei, mh)):
                return f"ward heights impl={hei} model={mh}"
            return None
        if kind in ("wardchk", "avgchk"):
            _, par, hei, tol = impl_obs
            mp = [int(v) for v in parts[0].split()]
            if mp != par:
                return f"replayed parents impl={par} model={mp}"
            toks = parts[1].split()
            nm = len(toks) // 3
            if len(toks) != 3 * nm or len(par) - nm < 0:
                return "replay length differs"
            n = len(par) - nm
            for t in range(nm):
                adm, cst, opt = toks[3 * t], float(Fraction(toks[3 * t + 1])), float(Fraction(toks[3 * t + 2]))
                if adm != "1":
                    return f"merge {t}: clusters not joined by a live edge in the model"
                if kind == "wardchk" and cst > opt + tol:
                    return f"merge {t}: cost {cst} but the model's cheapest admissible merge costs {opt}"
                if kind == "avgchk" and cst < opt - tol:
                    return f"merge {t}: similarity {cst} but the model's heaviest live edge weighs {opt}"
            if parts[2] != "0":
                return f"{parts[2]} live edges left after the last merge"
            mh = [float(x) for x in parse_rats(parts[3])]
            if len(mh) != len(hei) or any(not close(a, b, 1e-9, tol) for a, b in zip(hei, mh)):
                return f"heights impl={hei[n:n + 6]} model={mh[n:n + 6]} (first merges)"
            return None
        return "unknown observation kind"

    @staticmethod
    def _keep_vertices(case, m):
        """restriction of a hierarchical case to its first m vertices"""
        c = dict(case)
        keep = [i for i, e in enumerate(case["E"]) if e[0] < m and e[1] < m]
        c["E"] = [case["E"][i] for i in keep]
        if case["kind"] == "ward":
            c["X"] = case["X"][:m]
        else:
            c["n"] = m; c["W"] = [case["W"][i] for i in keep]
            c["loops"] = [l for l in case.get("loops") or [] if l[0] < m]
        c["ks"] = sorted({max(1, min(v, m)) for v in case["ks"]} | {m})
        return c

    def shrink(self, case):
        focus = case.get("focus")
        if focus is None:
            try:
                f = self.run_case(dict(case)).get("oracle")
            except Exception:
                f = None
            focus = _cls(f) if f else None
        for c in self._shrink(case):
            if focus:
                c["focus"] = focus
            yield c

    def _shrink(self, case):
        k = case["kind"]
        if k in ("kmeans", "voronoi") and len(case["X"]) > 1:
            n = len(case["X"])
            cuts = ([list(range(n // 2))] if n > 3 else []) + \
                   [[j for j in range(n) if j != i] for i in range(n - 1, max(-1, n - 13), -1)]
            for idx in cuts:
                c = dict(case); c["X"] = [case["X"][i] for i in idx]
                if k == "kmeans":
                    c["k"] = max(1, min(case["k"], len(idx)))
                    c["z0"] = [min(case["z0"][i], c["k"] - 1) for i in idx]
                yield c
            if k == "kmeans" and case["maxiter"] > 1:
                c = dict(case); c["maxiter"] = min(case["maxiter"] - 1, 8); yield c
            if k == "kmeans" and case.get("ninit", 1) > 1:
                c = dict(case); c["ninit"] = 1; yield c
        if k in ("ward", "avglink"):
            n = len(case["X"]) if k == "ward" else case["n"]
            if n > 5:
                yield self._keep_vertices(case, (n + 1) // 2)
            if n > 2:
                yield self._keep_vertices(case, n - 1)
            for i in range(min(len(case["E"]), 12)):
                c = dict(case); c["E"] = case["E"][:i] + case["E"][i + 1:]
                if k == "avglink":
                    c["W"] = case["W"][:i] + case["W"][i + 1:]
                yield c
            for i in range(len(case.get("loops") or [])):
                c = dict(case); c["loops"] = case["loops"][:i] + case["loops"][i + 1:]; yield c
            if k == "ward" and case["p"] > 1:
                c = dict(case); c["p"] = case["p"] - 1; c["X"] = [r[:-1] for r in case["X"]]; yield c
            if k == "ward" and case.get("extra") != "none":
                c = dict(case); c["extra"] = "none"; yield c
        if k == "fhist":
            for i in range(len(case["ops"])):
                c = dict(case); c["ops"] = case["ops"][:i] + case["ops"][i + 1:]; yield c
        if k == "forest":
            if len(case["ks"]) > 1:
                for v in case["ks"]:
                    c = dict(case); c["ks"] = [v]; yield c
            if len(case["ths"]) > 1:
                for v in case["ths"]:
                    c = dict(case); c["ths"] = [v]; yield c

    def classify(self, case, failure):
        return None


CHECK = C14()
