"""C14 — partitional and hierarchical clustering return valid, consistent clusterings.

Correspondence (Lean model `NipyVerif.Model.C14`):
  * every `_EStep` / `_MStep` call made by `kmeans` (traced), the whole `kmeans` run when no
    float near-tie can steer it, `voronoi`;
  * `ward` merge sequence (generative model when every argmin is unique; replay checker for
    `ward` and `ward_quick` always: admissible, cost = merged inertia, cheapest);
  * `WeightedForest.split` / `partition` label vectors.
Oracle: the clauses of C14 evaluated directly on the real code (k-means, voronoi, ward,
ward_quick, average_link_graph, the *_segment wrappers, Field.ward).
"""
from __future__ import annotations

import re
import warnings

import numpy as np

from harness.core import PropertyCheck
from harness.util import Snapshot, close, errname, fr, frs, parse_rats

MAXTRACE = 5


# ----------------------------------------------------------------------------------------
# generators
# ----------------------------------------------------------------------------------------
def _data(rng, n, p):
    kind = rng.choice(["ints", "ints", "halves", "two", "dups", "const", "lattice", "blobs"])
    if kind == "ints":
        X = [[float(rng.randrange(-4, 9)) for _ in range(p)] for _ in range(n)]
    elif kind == "halves":
        X = [[rng.randrange(-8, 17) / 4.0 for _ in range(p)] for _ in range(n)]
    elif kind == "two":
        a = [float(rng.randrange(0, 3)) for _ in range(p)]
        b = [float(rng.randrange(0, 5)) for _ in range(p)]
        X = [list(rng.choice([a, b])) for _ in range(n)]
    elif kind == "dups":
        base = [[float(rng.randrange(0, 6)) for _ in range(p)] for _ in range(max(1, n // 3))]
        X = [list(rng.choice(base)) for _ in range(n)]
    elif kind == "const":
        a = [float(rng.randrange(0, 3)) for _ in range(p)]
        X = [list(a) for _ in range(n)]
    elif kind == "lattice":   # equally spaced: many tied merge costs
        X = [[float(i)] + [0.0] * (p - 1) for i in range(n)]
        if rng.random() < 0.5:
            rng.shuffle(X)
    else:
        cs = [[float(rng.randrange(-20, 21)) for _ in range(p)] for _ in range(rng.choice([2, 3, 4]))]
        X = [[c + rng.randrange(-2, 3) / 2.0 for c in rng.choice(cs)] for _ in range(n)]
    return X


def _size(rng, lo=2):
    r = rng.random()
    if r < 0.55:
        return rng.randrange(lo, 9)
    if r < 0.9:
        return rng.randrange(9, 25)
    return rng.randrange(25, 61)


def _graph(rng, n):
    """undirected edge list (pairs a != b, may repeat) of a named shape"""
    kind = rng.choice(["complete", "chain", "ring", "grid", "sparse", "sparse", "comps", "tree", "empty", "star"])
    E = []
    if kind == "complete":
        E = [(a, b) for a in range(n) for b in range(a + 1, n)]
    elif kind == "chain":
        E = [(a, a + 1) for a in range(n - 1)]
    elif kind == "ring":
        E = [(a, (a + 1) % n) for a in range(n)] if n > 2 else [(0, 1)]
    elif kind == "grid":
        w = max(1, int(n ** 0.5))
        for a in range(n):
            if (a + 1) % w and a + 1 < n:
                E.append((a, a + 1))
            if a + w < n:
                E.append((a, a + w))
    elif kind == "sparse":
        m = rng.randrange(0, 2 * n)
        for _ in range(m):
            a, b = rng.randrange(n), rng.randrange(n)
            if a != b:
                E.append((a, b))
    elif kind == "comps":     # several complete / chain components and isolated vertices
        perm = list(range(n)); rng.shuffle(perm)
        i = 0
        while i < n:
            s = rng.choice([1, 1, 2, 3, 5, 8])
            part = perm[i:i + s]; i += s
            if rng.random() < 0.5:
                E += [(part[a], part[b]) for a in range(len(part)) for b in range(a + 1, len(part))]
            else:
                E += [(part[a], part[a + 1]) for a in range(len(part) - 1)]
    elif kind == "tree":
        E = [(rng.randrange(0, a), a) for a in range(1, n)]
    elif kind == "star":
        E = [(0, a) for a in range(1, n)]
    perm = list(range(n))
    if rng.random() < 0.5:
        rng.shuffle(perm)
    E = [(perm[a], perm[b]) for a, b in E]
    E = [(a, b) if rng.random() < 0.5 else (b, a) for a, b in E]
    rng.shuffle(E)
    return kind, [list(e) for e in E]


def _und(E):
    return sorted({(min(a, b), max(a, b)) for a, b in E if a != b})


def _components(n, und):
    lab = list(range(n))

    def find(a):
        while lab[a] != a:
            lab[a] = lab[lab[a]]
            a = lab[a]
        return a
    for a, b in und:
        ra, rb = find(a), find(b)
        if ra != rb:
            lab[max(ra, rb)] = min(ra, rb)
    return [find(a) for a in range(n)]


def _canon(labels):
    seen, out = {}, []
    for l in labels:
        l = int(l)
        if l not in seen:
            seen[l] = len(seen)
        out.append(seen[l])
    return out


def _connected(members, adj):
    members = set(members)
    if not members:
        return True
    start = next(iter(members))
    seen, todo = {start}, [start]
    while todo:
        a = todo.pop()
        for b in adj[a]:
            if b in members and b not in seen:
                seen.add(b); todo.append(b)
    return seen == members


def _cls(failure):
    """kind of an oracle failure: its text with the numbers blanked"""
    return re.sub(r"\d+(\.\d+)?", "#", failure)[:44]


def _mat(X):
    return " ".join(frs(r) for r in X)


class C14(PropertyCheck):
    id = "C14"
    title = "Partitional and hierarchical clustering return valid, consistent clusterings"
    lean_modules = ["NipyVerif.Props.C14"]
    driver = "Drivers/C14.lean"
    rule = ("cases are (data matrix, cluster count, initial labelling, iteration budget) for k-means/"
            "voronoi and (data matrix, constraint graph) for the hierarchical algorithms, from a seeded "
            "PRNG: 1..5 dyadic features with duplicates and tied distances/costs on purpose, 2..60 items, "
            "graph shapes complete/chain/ring/grid/sparse/several components/isolated/empty/tree/star; "
            "non-trivial = at least 3 items and (k >= 2 or at least one merge); distinct by full JSON")
    assumptions = [
        "float arithmetic of NumPy (sums, means, q - s**2/n) is compared with the exact rational model "
        "to 1e-9; where two exact costs/distances tie or nearly tie the implementation's choice is "
        "accepted if it is within 1e-9 of the minimum (first-minimum tie rule is compared exactly only "
        "when all numbers involved are small dyadics, so that binary64 is exact)",
        "the constraint graph is symmetric (an undirected topology given with both directions); "
        "Graph.cc() and WeightedGraph.symmeterize() (scipy.sparse) are outside the model: the model "
        "receives the undirected edge set and stops when no edge is left",
        "np.argsort is not stable on ties: ward_quick and the duplicate-edge removal of _remap are "
        "compared through the replay checker (any admissible cheapest merge is accepted)",
        "global dendrogram clauses (forest, one tree per component, cut into k connected clusters) and "
        "average_link_graph are checked by the oracle on the real code, not proved for the model",
        "cut heights are taken strictly positive (partition at a height <= 0 removes the leaves and "
        "raises ValueError; recorded as an observation)",
    ]
    level_note = ("k-means / voronoi clauses and the Ward cost algebra (height monotonicity, superadditivity, "
                  "cheapest admissible merge of the step) are proved for all inputs of the model; global forest "
                  "structure, split-into-k and average link are oracle-checked")
    finding_keys = {}

    # ------------------------------------------------------------------
    def generate(self, rng, tier):
        nk, nv, nw, na = (260, 100, 300, 90) if tier == "quick" else (1500, 500, 1800, 500)
        cases = []
        for _ in range(nk):
            n = _size(rng, 1 if rng.random() < 0.05 else 2)
            p = rng.choice([1, 1, 2, 2, 3, 4, 5])
            k = rng.choice([1, 2, 2, 3, 3, 4, 5, n, max(1, n - 1), rng.randrange(1, n + 1)])
            k = max(1, min(k, n))
            X = _data(rng, n, p)
            mode = rng.choice(["rand", "rand", "one", "skip", "kk"])
            if mode == "rand":
                z0 = [rng.randrange(k) for _ in range(n)]
            elif mode == "one":
                z0 = [0] * n
            elif mode == "skip":    # some clusters empty from the start
                z0 = [rng.choice([0, k - 1]) for _ in range(n)]
            else:                   # label == k is accepted by the wrapper
                z0 = [rng.randrange(k + 1) for _ in range(n)]
            big = n <= 12 and rng.random() < 0.15
            cases.append({"kind": "kmeans", "p": p, "k": k, "X": X, "z0": z0,
                          "maxiter": 300 if big else rng.choice([1, 1, 2, 3, 4, 6]),
                          "delta": rng.choice([0.0, 0.0, 1e-4, 0.25, 1.0]),
                          "seed": rng.randrange(1 << 30)})
        for _ in range(nv):
            n = _size(rng, 1)
            p = rng.choice([1, 1, 2, 3, 5])
            k = rng.choice([1, 2, 3, 4, 7, 12])
            X = _data(rng, n, p)
            r = rng.random()
            if r < 0.4:       # centres among the data, duplicated centres: exact ties
                C = [list(rng.choice(X)) for _ in range(k)]
            elif r < 0.7:     # symmetric pairs around data points: equidistant centres
                C = []
                for _ in range(k):
                    x = rng.choice(X); d = rng.choice([0.5, 1.0, 2.0]); s = rng.choice([-1, 1])
                    C.append([x[0] + s * d] + list(x[1:]))
            else:
                C = _data(rng, k, p)
            form = rng.choice(["2d", "2d", "2d", "1d" if p == 1 else "2d", "mismatch"])
            if form == "mismatch":
                C = [c + [0.0] for c in C]
            cases.append({"kind": "voronoi", "p": p, "X": X, "C": C, "form": form})
        for _ in range(nw):
            n = _size(rng)
            p = rng.choice([1, 1, 2, 3, 5])
            gk, E = _graph(rng, n)
            cases.append({"kind": "ward", "p": p, "X": _data(rng, n, p), "graph": gk, "E": E,
                          "extra": rng.choice(["none", "none", "loops", "parallel"]),
                          "ks": sorted({1, 2, n, n - 1, rng.randrange(1, n + 1), rng.randrange(1, n + 1)})})
        for _ in range(na):
            n = _size(rng)
            gk, E = _graph(rng, n)
            und = _und(E)
            W = [rng.choice([1.0, 1.0, 2.0, 0.5, 3.0, 4.0, 0.25, 8.0]) for _ in und]
            cases.append({"kind": "avglink", "graph": gk, "n": n, "E": [list(e) for e in und], "W": W,
                          "ks": sorted({1, 2, n, rng.randrange(1, n + 1)})})
        if tier == "thorough":   # exhaustive small domain: 1-D data on 0..2, all labellings, n <= 4
            for n in (2, 3, 4):
                for code in range(3 ** n):
                    X = [[float((code // 3 ** i) % 3)] for i in range(n)]
                    for k in range(1, n + 1):
                        for zc in range(k ** n):
                            if (code * 31 + zc * 7 + k) % 5:
                                continue
                            z0 = [(zc // k ** i) % k for i in range(n)]
                            cases.append({"kind": "kmeans", "p": 1, "k": k, "X": X, "z0": z0,
                                          "maxiter": 3, "delta": 0.0, "seed": 1})
        return cases

    # ------------------------------------------------------------------
    def run_case(self, case):
        warnings.filterwarnings("ignore")
        r = getattr(self, "_" + case["kind"])(case)
        # while shrinking, a candidate only counts if it fails in the same way as the original
        if case.get("focus") and r.get("oracle") and _cls(r["oracle"]) != case["focus"]:
            r["oracle"] = None
        return r

    # ---- k-means ------------------------------------------------------
    @staticmethod
    def _wcss(X, C, z):
        return float(np.sum((X - C[z]) ** 2))

    def _kmeans(self, c):
        from nipy.algorithms.clustering import utils as ku
        X = np.array(c["X"], dtype=float).reshape(len(c["X"]), c["p"])
        n, p, k = X.shape[0], c["p"], c["k"]
        z0 = np.array(c["z0"], dtype=int)
        calls = []
        oE, oM = ku._EStep, ku._MStep

        def E(x, cen):
            r = oE(x, cen)
            calls.append(("E", np.array(x, float), np.array(cen, float), np.array(r[0]), float(r[1])))
            return r

        def M(x, z, kk):
            r = oM(x, z, kk)
            calls.append(("M", np.array(x, float), np.array(z), int(kk), np.array(r, float)))
            return r
        snap = Snapshot(X=X, z0=z0)
        ku._EStep, ku._MStep = E, M
        try:
            try:
                Cn, zn, J = ku.kmeans(X, k, Labels=z0, maxiter=c["maxiter"], delta=c["delta"])
            except Exception as e:
                return {"oracle": f"kmeans raised {type(e).__name__}: {e} (n={n}, p={p}, k={k}, "
                                  f"maxiter={c['maxiter']})", "tags": ["kmeans", "raised"]}
        finally:
            ku._EStep, ku._MStep = oE, oM
        mut = snap.changed()
        Cn = np.asarray(Cn, float); zn = np.asarray(zn)
        lines, impl, tags = [], [], ["kmeans"]
        scale = 1.0 + float(np.abs(X).max()) ** 2 * p
        exact_all, fragile_run = True, False
        ne = nm = 0
        prevC = None
        vdat = float(np.mean(np.var(X, 0)))
        for cl in calls:
            if cl[0] == "E":
                _, x, cen, z, Jv = cl
                D = ((x[:, None, :] - cen[None, :, :]) ** 2).sum(2)
                exact = bool(np.all(np.abs(cen) < 1024) and np.all(cen * 1024 == np.round(cen * 1024)))
                exact_all = exact_all and exact
                frag = []
                if not exact:
                    for i in range(n):
                        o = np.argsort(D[i], kind="stable")
                        for q in o[1:]:
                            if D[i, q] - D[i, o[0]] > 1e-9 * scale:
                                break
                            if not np.array_equal(cen[q], cen[o[0]]):
                                frag.append(i); break
                if frag:
                    fragile_run = True
                if ne < MAXTRACE:
                    ne += 1
                    lines.append(f"estep {p} {n} {cen.shape[0]} {_mat(x)} {_mat(cen)}")
                    impl.append(("estep", z.tolist(), Jv, frag, scale))
            else:
                _, x, z, kk, cen = cl
                if prevC is not None and c["delta"] > 0 and prevC.shape == cen.shape:
                    val, thr = float(np.sum((prevC - cen) ** 2)), c["delta"] * vdat
                    if thr > 0 and abs(val - thr) <= 1e-9 * (1 + thr):
                        fragile_run = True
                prevC = cen
                if nm < MAXTRACE and np.all(z >= 0):
                    nm += 1
                    lines.append(f"mstep {p} {n} {kk} {_mat(x)} {' '.join(str(int(v)) for v in z)}")
                    impl.append(("mat", cen.ravel().tolist(), scale))
        if not fragile_run:
            lines.append(f"kmeans {p} {n} {k} {c['maxiter']} {fr(c['delta'])} {_mat(X)} "
                         f"{' '.join(str(int(v)) for v in z0)}")
            impl.append(("kmeans", zn.tolist(), Cn.ravel().tolist(), float(J), scale))
            tags.append("kmeans-full-run")
        else:
            tags.append("kmeans-near-tie")
        tags.append("exact-arith" if exact_all else "rounded-arith")
        if np.isinf(J):
            tags.append("J=inf")
        # ---- oracle
        fail = self._kmeans_valid(X, k, Cn, zn, "kmeans")
        if fail is None:
            # from the fixed initial labelling, more iterations never increase the WCSS of the solution
            top = c["maxiter"] if c["maxiter"] <= 8 else 8
            prev = None
            for m in range(1, top + 2):
                Cm, zm, _ = ku.kmeans(X, k, Labels=z0.copy(), maxiter=m, delta=c["delta"])
                w = self._wcss(X, np.asarray(Cm), np.asarray(zm))
                f2 = self._kmeans_valid(X, k, np.asarray(Cm, float), np.asarray(zm), f"kmeans(maxiter={m})")
                if f2:
                    fail = f2; break
                if prev is not None and w > prev + 1e-9 * scale * n:
                    fail = (f"kmeans from the fixed initial labelling: within-cluster sum of squares of the "
                            f"returned solution rises from {prev} (maxiter={m - 1}) to {w} (maxiter={m})")
                    break
                prev = w
        if fail is None:
            st = np.random.get_state()
            np.random.seed(c["seed"] % (2 ** 31))
            try:
                Cr, zr, _ = ku.kmeans(X, k, Labels=None, maxiter=max(1, min(c["maxiter"], 10)), delta=c["delta"])
                fail = self._kmeans_valid(X, k, np.asarray(Cr, float), np.asarray(zr), "kmeans(random init)")
            except Exception as e:
                fail = f"kmeans with random initialisation raised {type(e).__name__}: {e}"
            finally:
                np.random.set_state(st)
        if len(set(zn.tolist())) < k:
            tags.append("empty-cluster")
        return {"lines": lines, "impl": impl, "oracle": fail, "nontrivial": n >= 3 and k >= 2,
                "tags": tags, "mutated": mut}

    @staticmethod
    def _kmeans_valid(X, k, C, z, who):
        n = X.shape[0]
        kk = max(1, min(k, n))
        if z.shape != (n,) or C.shape != (kk, X.shape[1]):
            return f"{who}: labels shape {z.shape} / centres shape {C.shape} for n={n}, k={kk}"
        if z.min() < 0 or z.max() >= kk:
            return f"{who}: label out of range: min {z.min()} max {z.max()} for k={kk}"
        g = X.mean(0)
        for q in range(kk):
            want = X[z == q].mean(0) if np.any(z == q) else g
            if not np.allclose(C[q], want, rtol=1e-12, atol=1e-12 * (1 + np.abs(X).max())):
                return (f"{who}: centre {q} = {C[q].tolist()} is not the mean of its members "
                        f"{want.tolist()} ({int(np.sum(z == q))} members)")
        return None

    def _voronoi(self, c):
        from nipy.algorithms.clustering import utils as ku
        p = c["p"]
        X = np.array(c["X"], dtype=float).reshape(len(c["X"]), p)
        C = np.array(c["C"], dtype=float)
        pc = C.shape[1]
        xa, ca = (X[:, 0].copy(), C[:, 0].copy()) if c["form"] == "1d" else (X, C)
        snap = Snapshot(X=xa, C=ca)
        line = f"voronoi {p} {X.shape[0]} {pc} {C.shape[0]} {_mat(X)} {_mat(C)}"
        fail = None
        try:
            z = np.asarray(ku.voronoi(xa, ca))
            obs = ("labels", z.tolist())
            D = ((X[:, None, :] - C[None, :, :]) ** 2).sum(2)   # exact: small dyadics
            if z.shape != (X.shape[0],) or z.min() < 0 or z.max() >= C.shape[0]:
                fail = f"voronoi: labels {z.tolist()} not in range for {C.shape[0]} centres"
            else:
                bad = np.nonzero(D[np.arange(len(z)), z] > D.min(1))[0]
                if bad.size:
                    i = int(bad[0])
                    fail = (f"voronoi: item {i} labelled {int(z[i])} at squared distance {D[i, z[i]]} "
                            f"but centre {int(D[i].argmin())} is at {D[i].min()}")
        except Exception as e:
            obs = ("err", errname(e))
            if c["form"] != "mismatch":
                fail = f"voronoi raised {type(e).__name__}: {e} on consistent shapes"
        return {"lines": [line], "impl": [obs], "oracle": fail,
                "nontrivial": X.shape[0] >= 3 and C.shape[0] >= 2,
                "tags": ["voronoi", "voronoi-" + c["form"]], "mutated": snap.changed()}

    # ---- hierarchical -------------------------------------------------
    @staticmethod
    def _mkgraph(n, E, extra, W=None):
        from nipy.algorithms.graph.graph import WeightedGraph
        d = [(a, b) for a, b in E] + [(b, a) for a, b in E]
        w = (list(W) + list(W)) if W is not None else [1.0] * len(d)
        if extra == "loops":
            d += [(a, a) for a in range(0, n, 2)]; w += [1.0] * len(range(0, n, 2))
        if extra == "parallel" and E:
            d += d[: len(E)][:3] + d[len(E):][:3]
            w += [1.0] * (len(d) - len(w))
        if not d:
            return WeightedGraph(n)
        return WeightedGraph(n, np.array(d, dtype=int), np.array(w, dtype=float))

    @staticmethod
    def _dendrogram(parents, heights, n, und, comps, who, cost_fn, tol):
        """validity of a dendrogram + admissibility/optimality of each merge.
        cost_fn(setA, setB) -> linkage cost of merging; returns (failure, merge sequence)"""
        ncc = len(set(comps))
        V = len(parents)
        if V != 2 * n - ncc or len(heights) != V:
            return f"{who}: {V} nodes for {n} items in {ncc} components (expected {2 * n - ncc})", None
        kids = {}
        for v in range(V):
            pv = int(parents[v])
            if pv != v:
                if pv < n:
                    return f"{who}: input item {pv} is the parent of node {v} (items must be leaves)", None
                if pv <= v or pv >= V:
                    return f"{who}: parent of node {v} is {pv}: not a forest ordered by creation", None
                kids.setdefault(pv, []).append(v)
                if heights[pv] < heights[v] - tol:
                    return (f"{who}: height decreases from child {v} ({heights[v]}) to parent {pv} "
                            f"({heights[pv]})"), None
        seq = []
        for kx in range(n, V):
            ch = kids.get(kx, [])
            if len(ch) != 2:
                return f"{who}: non-leaf node {kx} has {len(ch)} children (one binary merge expected)", None
            seq.append((ch[0], ch[1]))
        roots = [v for v in range(V) if int(parents[v]) == v]
        if len(roots) != ncc:
            return f"{who}: {len(roots)} trees for {ncc} connected components", None
        # replay
        leaves = {v: {v} for v in range(n)}
        alive = set(range(n))
        adj = {v: set() for v in range(n)}
        for a, b in und:
            adj[a].add(b); adj[b].add(a)
        for t, (i, j) in enumerate(seq):
            kx = n + t
            if i not in alive or j not in alive:
                return f"{who}: merge {t} uses node {i if i not in alive else j} which is not a current root", seq
            if j not in adj[i]:
                return f"{who}: merge {t} joins clusters {i} and {j} that are not joined by an edge", seq
            cij = cost_fn(leaves[i], leaves[j])
            if not close(cij, heights[kx], 1e-9, tol):
                return f"{who}: height of node {kx} is {heights[kx]} but the linkage cost of its merge is {cij}", seq
            best, arg = cij, None
            for a in alive:
                for b in adj[a]:
                    if a < b:
                        cab = cost_fn(leaves[a], leaves[b])
                        if cab < best - tol:
                            best, arg = cab, (a, b)
            if arg is not None:
                return (f"{who}: merge {t} ({i},{j}) costs {cij} but the admissible merge {arg} costs {best}"), seq
            leaves[kx] = leaves[i] | leaves[j]
            na = (adj[i] | adj[j]) - {i, j}
            for a in na:
                adj[a] -= {i, j}; adj[a].add(kx)
            adj[kx] = na
            alive -= {i, j}; alive.add(kx)
            del adj[i], adj[j]
        for r in roots:
            ls = leaves[r]
            if len({comps[v] for v in ls}) != 1 or len(ls) != sum(1 for v in range(n) if comps[v] == comps[next(iter(ls))]):
                return f"{who}: the tree rooted at {r} does not span exactly one connected component", seq
        return None, seq

    @staticmethod
    def _cut_ok(u, n, want, adjl, who):
        u = np.asarray(u)
        if u.shape != (n,):
            return f"{who}: label vector of shape {u.shape} for {n} items"
        got = len(set(u.tolist()))
        if got != want:
            return f"{who}: {got} clusters returned, {want} expected"
        for l in set(u.tolist()):
            if not _connected([v for v in range(n) if u[v] == l], adjl):
                return f"{who}: cluster {l} is not connected in the constraint graph"
        return None

    def _ward(self, c):
        from nipy.algorithms.clustering import hierarchical_clustering as hc
        from nipy.algorithms.graph.field import Field
        p = c["p"]
        X = np.array(c["X"], dtype=float).reshape(len(c["X"]), p)
        n = X.shape[0]
        und = _und(c["E"])
        comps = _components(n, und)
        ncc = len(set(comps))
        adjl = {v: set() for v in range(n)}
        for a, b in und:
            adjl[a].add(b); adjl[b].add(a)
        scale = 1.0 + float(np.abs(X).max()) ** 2 * p * n
        tol = 1e-9 * scale

        def wcost(A, B):
            S = X[sorted(A | B)]
            return float(((S - S.mean(0)) ** 2).sum())
        lines, impl, tags, fail, mut = [], [], ["ward", "graph=" + c["graph"]], None, None
        edges_txt = " ".join(f"{a} {b}" for a, b in und)
        trees = {}
        for name in ("ward", "ward_quick"):
            G = self._mkgraph(n, c["E"], c["extra"])
            snap = Snapshot(X=X, e=G.edges if G.E else 0)
            try:
                t = getattr(hc, name)(G, X)
            except Exception as e:
                fail = fail or f"{name} raised {type(e).__name__}: {e} (n={n}, graph={c['graph']}, {ncc} components)"
                continue
            mut = mut or snap.changed()
            par, hei = np.asarray(t.parents).tolist(), np.asarray(t.height, float).tolist()
            f, seq = self._dendrogram(par, hei, n, und, comps, name, wcost, tol)
            fail = fail or f
            trees[name] = t
            if seq is not None and len(par) == n + len(seq):
                if name == "ward":
                    lines.append(f"ward {p} {n} {len(und)} {_mat(X)} {edges_txt}")
                    impl.append(("ward", par, hei, scale))
                lines.append(f"wardchk {p} {n} {len(und)} {len(seq)} {_mat(X)} {edges_txt} "
                             + " ".join(f"{a} {b}" for a, b in seq))
                impl.append(("wardchk", par, hei[n:], scale))
        t = trees.get("ward")
        if t is not None and fail is None:
            par, hei = np.asarray(t.parents).tolist(), np.asarray(t.height, float).tolist()
            V = len(par)
            ptxt = " ".join(str(int(v)) for v in par)
            for k in (range(1, n + 1) if n <= 8 else c["ks"]):
                want = max(k, ncc)
                try:
                    u = t.split(k)
                    f = self._cut_ok(u, n, want, adjl, f"ward(...).split({k})")
                    obs = ("labels", _canon(u))
                except Exception as e:
                    f = f"ward(...).split({k}) raised {type(e).__name__}: {e} ({n} items, {ncc} components)"
                    obs = ("err", errname(e))
                fail = fail or f
                lines.append(f"split {V} {k} {ptxt} {frs(hei)}")
                impl.append(obs)
            ths = sorted({h for h in hei if h > 0})
            cuts = ths[:2] + ths[-1:] + [(a + b) / 2 for a, b in zip(ths[:3], ths[1:4])] + ([ths[-1] + 1] if ths else [1.0])
            for th in cuts[:5]:
                want = ncc + sum(1 for v in range(n, V) if not (hei[v] < th))
                try:
                    u = t.partition(th)
                    f = self._cut_ok(u, n, want, adjl, f"ward(...).partition({th})")
                    obs = ("labels", _canon(u))
                except Exception as e:
                    f = f"ward(...).partition({th}) raised {type(e).__name__}: {e}"
                    obs = ("err", errname(e))
                fail = fail or f
                lines.append(f"partition {V} {fr(th)} {ptxt} {frs(hei)}")
                impl.append(obs)
        if fail is None:
            for k in c["ks"]:
                want = max(k, ncc)
                for name in ("ward_segment", "ward_quick_segment", "ward_field_segment", "Field.ward"):
                    G = self._mkgraph(n, c["E"], c["extra"])
                    try:
                        if name == "ward_segment":
                            u, cost = hc.ward_segment(G, X, stop=-1, qmax=k)
                        elif name == "ward_quick_segment":
                            u, cost = hc.ward_quick_segment(G, X, stop=-1, qmax=k)
                        else:
                            F = Field(n, G.edges if G.E else None, G.weights if G.E else None, X.copy())
                            if name == "ward_field_segment":
                                u, cost = hc.ward_field_segment(F, stop=-1, qmax=k)
                            else:
                                u, _ = F.ward(k); cost = None
                        f = self._cut_ok(u, n, want, adjl, f"{name}(qmax={k})")
                        if f is None and cost is not None and len(cost) != n - ncc:
                            f = f"{name}: {len(cost)} merge costs for {n - ncc} merges"
                    except Exception as e:
                        f = f"{name}(qmax={k}) raised {type(e).__name__}: {e} ({n} items, {ncc} components)"
                    fail = fail or f
                    if fail:
                        break
                if fail:
                    break
        tags.append("components=%s" % ("1" if ncc == 1 else "many" if ncc < n else "n"))
        return {"lines": lines, "impl": impl, "oracle": fail, "nontrivial": n >= 3 and ncc < n,
                "tags": tags, "mutated": mut}

    def _avglink(self, c):
        from nipy.algorithms.clustering import hierarchical_clustering as hc
        n = c["n"]
        und = [tuple(e) for e in c["E"]]
        W = {e: w for e, w in zip(und, c["W"])}
        comps = _components(n, und)
        ncc = len(set(comps))
        adjl = {v: set() for v in range(n)}
        for a, b in und:
            adjl[a].add(b); adjl[b].add(a)

        def sim(A, B):
            s = sum(W.get((min(a, b), max(a, b)), 0.0) for a in A for b in B)
            return -max(s / (len(A) * len(B)), 0.0)
        tags, fail = ["avglink", "graph=" + c["graph"]], None
        try:
            G = self._mkgraph(n, und, "none", c["W"])
            t = hc.average_link_graph(G)
            par, hei = np.asarray(t.parents).tolist(), np.asarray(t.height, float).tolist()
            hl = list(hei)
            lo = min(hl) if hl else 0.0
            # leaves sit strictly below every merge; compare merge heights with the negated similarity
            fail, _ = self._dendrogram(par, hl, n, und, comps, "average_link_graph", sim, 1e-9 * (1 + max(c["W"] + [1.0])))
            if fail is None and any(hl[v] > lo for v in range(n)):
                fail = "average_link_graph: a leaf is higher than the lowest node"
            if fail is None:
                for k in c["ks"]:
                    G = self._mkgraph(n, und, "none", c["W"])
                    u, cost = hc.average_link_graph_segment(G, stop=-1, qmax=k)
                    fail = fail or self._cut_ok(u, n, max(k, ncc), adjl, f"average_link_graph_segment(qmax={k})")
        except Exception as e:
            fail = (f"average_link_graph raised {type(e).__name__}: {e} ({n} items, {len(und)} edges, "
                    f"{ncc} components)")
        return {"lines": [], "impl": [], "oracle": fail, "nontrivial": n >= 3 and ncc < n, "tags": tags,
                "mutated": None}

    # ------------------------------------------------------------------
    def compare(self, case, impl_obs, model_out):
        kind = impl_obs[0]
        if model_out.startswith("bad-op"):
            return "model rejected the line (bad-op)"
        if kind == "err":
            return None if model_out == impl_obs[1] else f"impl {impl_obs[1]} model {model_out[:80]}"
        if model_out.startswith("error"):
            return f"impl returned a value, model says {model_out}"
        parts = [s.strip() for s in model_out.split("|")]
        if kind == "labels":
            want = " ".join(str(v) for v in impl_obs[1])
            got = " ".join(str(v) for v in _canon(parts[0].split())) if case["kind"] == "ward" else parts[0]
            return None if want == got else f"labels impl={want} model={got}"
        if kind == "estep":
            _, z, J, frag, scale = impl_obs
            mz = [int(v) for v in parts[0].split()]
            if len(mz) != len(z):
                return "label count differs"
            for i, (a, b) in enumerate(zip(z, mz)):
                if a != b and i not in frag:
                    return f"_EStep label of item {i}: impl={a} model={b}"
            mj = float(parse_rats(parts[1])[0])
            return None if close(J, mj, 1e-9, 1e-9 * scale) else f"_EStep J impl={J} model={mj}"
        if kind == "mat":
            mv = [float(x) for x in parse_rats(parts[0])]
            iv = impl_obs[1]
            if len(mv) != len(iv):
                return f"centre count impl={len(iv)} model={len(mv)}"
            for a, b in zip(iv, mv):
                if not close(a, b, 1e-11, 1e-11):
                    return f"_MStep centre value impl={a} model={b}"
            return None
        if kind == "kmeans":
            _, z, C, J, scale = impl_obs
            mz = [int(v) for v in parts[0].split()]
            if mz != z:
                return f"kmeans labels impl={z} model={mz}"
            mc = [float(x) for x in parse_rats(parts[1])]
            if len(mc) != len(C) or any(not close(a, b, 1e-9, 1e-9) for a, b in zip(C, mc)):
                return f"kmeans centres impl={C[:6]} model={mc[:6]}"
            if parts[2] == "inf" or np.isinf(J):
                return None if (parts[2] == "inf" and np.isinf(J)) else f"kmeans J impl={J} model={parts[2]}"
            mj = float(parse_rats(parts[2])[0])
            return None if close(J, mj, 1e-9, 1e-9 * scale) else f"kmeans J impl={J} model={mj}"
        if kind == "ward":
            _, par, hei, scale = impl_obs
            if parts[2] != "1":
                return None       # tied costs: any cheapest merge is legal; see the wardchk line
            mp = [int(v) for v in parts[0].split()]
            if mp != par:
                return f"ward parents impl={par} model={mp}"
            mh = [float(x) for x in parse_rats(parts[1])]
            if len(mh) != len(hei) or any(not close(a, b, 1e-9, 1e-9 * scale) for a, b in zip(hei, mh)):
                return f"ward heights impl={hei} model={mh}"
            return None
        if kind == "wardchk":
            _, par, costs, scale = impl_obs
            mp = [int(v) for v in parts[0].split()]
            if mp != par:
                return f"replayed parents impl={par} model={mp}"
            toks = parts[1].split()
            if len(toks) != 3 * len(costs):
                return "replay length differs"
            for t in range(len(costs)):
                adm, cst, mn = toks[3 * t], float(parse_rats(toks[3 * t + 1])[0]), float(parse_rats(toks[3 * t + 2])[0])
                if adm != "1":
                    return f"merge {t}: clusters not joined by a live edge in the model"
                if not close(cst, costs[t], 1e-9, 1e-9 * scale):
                    return f"merge {t}: height impl={costs[t]} model inertia={cst}"
                if cst > mn + 1e-9 * scale:
                    return f"merge {t}: cost {cst} but the model's cheapest admissible merge costs {mn}"
            if parts[2] != "0":
                return f"{parts[2]} live edges left after the last merge"
            return None
        return "unknown observation kind"

    @staticmethod
    def _keep_vertices(case, m):
        """restriction of a hierarchical case to its first m vertices"""
        c = dict(case)
        keep = [i for i, e in enumerate(case["E"]) if e[0] < m and e[1] < m]
        c["E"] = [case["E"][i] for i in keep]
        if case["kind"] == "ward":
            c["X"] = case["X"][:m]
        else:
            c["n"] = m; c["W"] = [case["W"][i] for i in keep]
        c["ks"] = sorted({max(1, min(v, m)) for v in case["ks"]} | {m})
        return c

    def shrink(self, case):
        focus = case.get("focus")
        if focus is None:
            try:
                f = self.run_case(dict(case)).get("oracle")
            except Exception:
                f = None
            focus = _cls(f) if f else None
        for c in self._shrink(case):
            if focus:
                c["focus"] = focus
            yield c

    def _shrink(self, case):
        k = case["kind"]
        if k in ("kmeans", "voronoi") and len(case["X"]) > 1:
            n = len(case["X"])
            cuts = ([list(range(n // 2))] if n > 3 else []) + \
                   [[j for j in range(n) if j != i] for i in range(n - 1, max(-1, n - 13), -1)]
            for idx in cuts:
                c = dict(case); c["X"] = [case["X"][i] for i in idx]
                if k == "kmeans":
                    c["k"] = max(1, min(case["k"], len(idx)))
                    c["z0"] = [min(case["z0"][i], c["k"] - 1) for i in idx]
                yield c
            if k == "kmeans" and case["maxiter"] > 1:
                c = dict(case); c["maxiter"] = min(case["maxiter"] - 1, 8); yield c
        if k in ("ward", "avglink"):
            n = len(case["X"]) if k == "ward" else case["n"]
            if n > 5:
                yield self._keep_vertices(case, (n + 1) // 2)
            if n > 2:
                yield self._keep_vertices(case, n - 1)
            for i in range(min(len(case["E"]), 12)):
                c = dict(case); c["E"] = case["E"][:i] + case["E"][i + 1:]
                if k == "avglink":
                    c["W"] = case["W"][:i] + case["W"][i + 1:]
                yield c
            if k == "ward" and case["p"] > 1:
                c = dict(case); c["p"] = case["p"] - 1; c["X"] = [r[:-1] for r in case["X"]]; yield c
            if k == "ward" and case.get("extra") != "none":
                c = dict(case); c["extra"] = "none"; yield c

    def classify(self, case, failure):
        return None


CHECK = C14()
