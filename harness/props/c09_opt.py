"""C09 extension — the optimisation clause ("optimisation returns a transform whose similarity is
not lower than that of the starting transform").

* `translate(REPO, TieBroken)`: regenerates `lean/NipyVerif/Gen/C09Consts.lean` from the *text* of
  nipy/algorithms/optimize.py (shape of `fmin_steepest`'s loop and of `_linesearch_brent`, the literals of
  the stopping rule and the defaults), nipy/algorithms/registration/optimizer.py (`configure_optimizer`
  dispatch table, `use_derivatives`) and histogram_registration.py (module defaults, `kwargs.setdefault`
  keys and the wrapper shape of `optimize`).  A shape that is not the modelled one raises TieBroken.
* generators / runners for the case kinds
    `steep`  real `fmin_steepest` on exact rational objectives (sums of squares of linear forms,
             piecewise-linear plateaus) with the gradient direction and the line-search results recorded
             (trace) — the Lean model replays the loop as written on that trace and checks the
             certificate of `steepest_not_worse` on every step;
    `cfg`    `configure_optimizer` / `use_derivatives` against the generated table;
    `opt`    real `HistogramRegistration.optimize` for optimizer x measure x start x interpolation,
             with the cost evaluations recorded; for `steepest` also replayed by the model.
"""
from __future__ import annotations

import ast
import contextlib
import io
import math
import os
from fractions import Fraction

import numpy as np

from harness.util import errname, fr, frs

OPTIMIZERS = ["powell", "steepest", "cg", "bfgs", "simplex", "ncg"]
OPT_MEASURES = ["cc", "cr", "crl1", "mi", "nmi", "slr", "pmi", "dpmi"]
START_KINDS = ["optimum", "converged", "near", "far"]

# ----------------------------------------------------------------------
# translator
# ----------------------------------------------------------------------
STEEP_LOOP_SHAPE = (
    "while it < maxiter:\n"
    "    it = it + C0\n"
    "    x0 = x\n"
    "    fval0 = fval\n"
    "    direc = myfprime(x)\n"
    "    norm = np.sqrt(np.sum(direc ** C1))\n"
    "    if norm == C2:\n"
    "        break\n"
    "    direc = direc / norm\n"
    "    fval, x = _linesearch_brent(f, x, direc, tol=xtol)\n"
    "    if callback is not None:\n"
    "        callback(x)\n"
    "    if C3 * (fval0 - fval) <= ftol * (abs(fval0) + abs(fval)) + C4:\n"
    "        break"
)
STEEP_HEAD_SHAPE = (
    "x = np.asarray(x0).flatten()\n"
    "fval = np.squeeze(f(x))\n"
    "it = C0\n"
    "if maxiter is None:\n"
    "    maxiter = x.size * C1\n"
    "if fprime is None:\n"
    "    grad_calls, myfprime = _wrap(approx_fprime, (f, epsilon))\n"
    "else:\n"
    "    grad_calls, myfprime = _wrap(fprime, args)"
)
LINESEARCH_SHAPE = (
    "def myfunc(alpha):\n"
    "    return func(p + alpha * xi)\n"
    "alpha_min, fret, iter, num = brent(myfunc, full_output=1, tol=tol)\n"
    "xi = alpha_min * xi\n"
    "return (np.squeeze(fret), p + xi)"
)
LINESEARCH_SHAPE_FALLBACK = (
    "def myfunc(alpha):\n"
    "    return func(p + alpha * xi)\n"
    "try:\n"
    "    alpha_min, fret, iter, num = brent(myfunc, full_output=1, tol=tol)\n"
    "except RuntimeError:\n"
    "    return (np.squeeze(func(p)), p)\n"
    "xi = alpha_min * xi\n"
    "return (np.squeeze(fret), p + xi)"
)
OPTIMIZE_SHAPE = (
    # the wrapper with its guard against non-finite parameter vectors (Model/C09Opt.optimizeWrapperG)
    "def cost(tc):\n"
    "    if not np.all(np.isfinite(tc)):\n"
    "        return np.inf\n"
    "    Tv.param = tc\n"
    "    return -self._eval(Tv)",
    "fmin, args, kwargs = configure_optimizer(optimizer, fprime=None, fhess=None, **kwargs)",
    "kwargs['callback'] = callback",
    "tc = fmin(cost, tc0, *args, **kwargs)\n"
    "if not np.all(np.isfinite(tc)):\n"
    "    tc = tc0\n"
    "Tv.param = tc",
    "return Tv.optimizable",
    "Tv = ChainTransform(T, pre=self._from_affine, post=self._to_inv_affine)",
    "tc0 = Tv.param",
)


class _Consts(ast.NodeTransformer):
    """replace numeric literals by C0, C1, … and collect them"""

    def __init__(self):
        self.vals = []

    def visit_Constant(self, node):
        if isinstance(node.value, (int, float)) and not isinstance(node.value, bool):
            self.vals.append(node.value)
            return ast.copy_location(ast.Name(id=f"C{len(self.vals) - 1}", ctx=ast.Load()), node)
        return node


def _is_print(st):
    return isinstance(st, ast.Expr) and isinstance(st.value, ast.Call) and getattr(st.value.func, "id", None) == "print"


def _strip(stmts):
    """drop docstrings, `print(...)` statements and `if disp:`/`if VERBOSE:` blocks that only print"""
    out = []
    for st in stmts:
        if isinstance(st, ast.Expr) and isinstance(st.value, ast.Constant) and isinstance(st.value.value, str):
            continue
        if _is_print(st):
            continue
        if isinstance(st, ast.If) and not st.orelse and all(_is_print(s) for s in st.body):
            continue
        for fld in ("body", "orelse"):
            if hasattr(st, fld) and isinstance(getattr(st, fld), list):
                setattr(st, fld, _strip(getattr(st, fld)))
        out.append(st)
    return out


def _func(tree, name):
    for n in ast.walk(tree):
        if isinstance(n, ast.FunctionDef) and n.name == name:
            return n
    return None


def _read(repo, rel, TieBroken):
    p = os.path.join(repo, rel)
    try:
        return open(p).read()
    except OSError as e:
        raise TieBroken(f"cannot read {p}: {e}")


def _rat(v):
    f = Fraction(v)
    return f"mkRat {f.numerator} {f.denominator}"


def _lstr(l):
    return "[" + ", ".join('"%s"' % s for s in l) + "]"


def translate(repo, TieBroken):
    # ---- nipy/algorithms/optimize.py -----------------------------------
    rel = "nipy/algorithms/optimize.py"
    tree = ast.parse(_read(repo, rel, TieBroken))
    fs = _func(tree, "fmin_steepest")
    ls = _func(tree, "_linesearch_brent")
    if fs is None or ls is None:
        raise TieBroken(f"{rel}: fmin_steepest / _linesearch_brent not found")
    imported = {}
    for n in tree.body:
        if isinstance(n, ast.ImportFrom):
            for a in n.names:
                imported[a.asname or a.name] = f"{n.module}.{a.name}"
    if imported.get("brent") != "scipy.optimize.brent" or imported.get("approx_fprime") != "scipy.optimize.approx_fprime":
        raise TieBroken(f"{rel}: `brent` / `approx_fprime` are not the scipy.optimize routines the assumptions name "
                        f"(imports: {sorted(imported.items())})")
    body = _strip(fs.body)
    loops = [s for s in body if isinstance(s, ast.While)]
    if len(loops) != 1 or not isinstance(body[-1], ast.Return) or ast.unparse(body[-1]) != "return x":
        raise TieBroken(f"{rel}: fmin_steepest is not `<head>; while …; return x`")
    cl = _Consts()
    loop_txt = ast.unparse(cl.visit(loops[0]))
    if loop_txt != STEEP_LOOP_SHAPE:
        raise TieBroken(f"{rel}: the loop of fmin_steepest differs from the modelled one:\n{loop_txt}")
    one, sq, zero, two, eps = cl.vals
    if (one, sq, zero) != (1, 2, 0):
        raise TieBroken(f"{rel}: fmin_steepest loop literals changed: {cl.vals}")
    ch = _Consts()
    head_txt = "\n".join(ast.unparse(ch.visit(s)) for s in body[:body.index(loops[0])])
    if head_txt != STEEP_HEAD_SHAPE or ch.vals[0] != 0:
        raise TieBroken(f"{rel}: the preamble of fmin_steepest differs from the modelled one:\n{head_txt}")
    per_dim = ch.vals[1]
    argn = [a.arg for a in fs.args.args]
    if argn != ["f", "x0", "fprime", "xtol", "ftol", "maxiter", "epsilon", "callback", "disp"]:
        raise TieBroken(f"{rel}: fmin_steepest signature changed: {argn}")
    dfl = dict(zip(argn[-len(fs.args.defaults):], [ast.literal_eval(d) for d in fs.args.defaults]))
    ls_txt = "\n".join(ast.unparse(s) for s in _strip(ls.body))
    if ls_txt not in (LINESEARCH_SHAPE, LINESEARCH_SHAPE_FALLBACK) or \
            [a.arg for a in ls.args.args] != ["func", "p", "xi", "tol"]:
        raise TieBroken(f"{rel}: _linesearch_brent is not the modelled wrapper of unbounded scipy.optimize.brent "
                        f"(bracket from alpha = 0; returns fret, p + alpha_min*xi):\n{ls_txt}")

    # ---- registration/optimizer.py -------------------------------------
    rel2 = "nipy/algorithms/registration/optimizer.py"
    tree2 = ast.parse(_read(repo, rel2, TieBroken))
    alias = {}
    for n in tree2.body:
        if isinstance(n, ast.ImportFrom):
            for a in n.names:
                alias[a.asname or a.name] = a.name
    co = _func(tree2, "configure_optimizer")
    ud = _func(tree2, "use_derivatives")
    if co is None or ud is None:
        raise TieBroken(f"{rel2}: configure_optimizer / use_derivatives not found")
    cbody = _strip(co.body)
    preset, chain = [], None
    for st in cbody:
        if isinstance(st, ast.Assign) and isinstance(st.targets[0], ast.Subscript) \
                and ast.unparse(st.targets[0].value) == "kwargs":
            preset.append((ast.literal_eval(st.targets[0].slice), ast.unparse(st.value)))
        elif isinstance(st, ast.If):
            chain = st
    if ast.unparse(cbody[0]) != "args = []" or chain is None or \
            ast.unparse(cbody[-1]) != "return (fmin, args, subdict(kwargs, keys))":
        raise TieBroken(f"{rel2}: configure_optimizer shape not recognised")
    if preset != [("fprime", "fprime"), ("fhess", "fhess"), ("avextol", "kwargs['xtol']")]:
        raise TieBroken(f"{rel2}: configure_optimizer presets changed: {preset}")
    table = []
    node = chain
    while True:
        t = node.test
        if not (isinstance(t, ast.Compare) and ast.unparse(t.left) == "optimizer" and isinstance(t.ops[0], ast.Eq)):
            raise TieBroken(f"{rel2}: dispatch test not `optimizer == '<name>'`: {ast.unparse(t)}")
        name = ast.literal_eval(t.comparators[0])
        keys, fmin, nargs = None, None, 0
        for st in node.body:
            tgt = ast.unparse(st.targets[0]) if isinstance(st, ast.Assign) else None
            if tgt == "keys":
                keys = list(ast.literal_eval(st.value))
            elif tgt == "fmin":
                fmin = ast.unparse(st.value)
            elif tgt == "args" and ast.unparse(st.value) == "[fprime]":
                nargs = 1
            else:
                raise TieBroken(f"{rel2}: unexpected statement in branch {name!r}: {ast.unparse(st)}")
        if keys is None or fmin is None:
            raise TieBroken(f"{rel2}: branch {name!r} does not set keys and fmin")
        table.append((name, alias.get(fmin, fmin), nargs, keys))
        if len(node.orelse) == 1 and isinstance(node.orelse[0], ast.If):
            node = node.orelse[0]
            continue
        if not (len(node.orelse) == 1 and isinstance(node.orelse[0], ast.Raise)
                and ast.unparse(node.orelse[0]).startswith("raise ValueError(")):
            raise TieBroken(f"{rel2}: the dispatch chain does not end in `raise ValueError`")
        break
    ub = _strip(ud.body)
    if len(ub) != 1 or not ast.unparse(ub[0]).startswith("return optimizer not in "):
        raise TieBroken(f"{rel2}: use_derivatives shape not recognised")
    deriv_free = list(ast.literal_eval(ub[0].value.comparators[0]))

    # ---- registration/histogram_registration.py ------------------------
    rel3 = "nipy/algorithms/registration/histogram_registration.py"
    tree3 = ast.parse(_read(repo, rel3, TieBroken))
    glob = {}
    for n in tree3.body:
        if isinstance(n, ast.Assign) and isinstance(n.targets[0], ast.Name):
            try:
                glob[n.targets[0].id] = ast.literal_eval(n.value)
            except Exception:
                pass
    om = _func(tree3, "optimize")
    if om is None:
        raise TieBroken(f"{rel3}: HistogramRegistration.optimize not found")
    otxt = "\n".join(ast.unparse(s) for s in _strip(om.body))
    for needle in OPTIMIZE_SHAPE:
        if needle not in otxt:
            raise TieBroken(f"{rel3}: optimize() is not the modelled wrapper: {needle!r} missing")
    setd = []
    for n in ast.walk(om):
        if isinstance(n, ast.Call) and ast.unparse(n.func) == "kwargs.setdefault":
            setd.append((ast.literal_eval(n.args[0]), ast.unparse(n.args[1])))
    for k, v in setd:
        if v not in glob:
            raise TieBroken(f"{rel3}: default of {k!r} is not a module constant: {v}")
    if [a.arg for a in om.args.args] != ["self", "T", "optimizer"] or ast.unparse(om.args.defaults[0]) != "OPTIMIZER":
        raise TieBroken(f"{rel3}: optimize() signature changed")

    im = glob.get("interp_methods")
    if not (isinstance(im, dict) and all(isinstance(k, str) and isinstance(v, int) for k, v in im.items())):
        raise TieBroken(f"{rel3}: interp_methods is not a literal {{name: int}} table")
    gi, si = _func(tree3, "_get_interp"), _func(tree3, "_set_interp")
    if gi is None or si is None or \
            ast.unparse(_strip(si.body)[0]) != "self._interp = interp_methods[interp]" or \
            ast.unparse(_strip(gi.body)[0]) != \
            "return list(interp_methods.keys())[list(interp_methods.values()).index(self._interp)]":
        raise TieBroken(f"{rel3}: _get_interp / _set_interp are not the modelled table lookups")
    rel4 = "nipy/algorithms/registration/similarity_measures.py"
    tree4 = ast.parse(_read(repo, rel4, TieBroken))
    measures = None
    for n in tree4.body:
        if isinstance(n, ast.Assign) and ast.unparse(n.targets[0]) == "similarity_measures" and isinstance(n.value, ast.Dict):
            measures = [(ast.literal_eval(k), ast.unparse(v)) for k, v in zip(n.value.keys, n.value.values)]
    if not measures:
        raise TieBroken(f"{rel4}: similarity_measures table not found")

    def num(v):
        return "none" if v is None else f"some ({_rat(v)})"

    L = ["/- GENERATED by harness/props/c09_opt.py from the text of /repo:",
         "   nipy/algorithms/optimize.py (fmin_steepest: literals of the stopping rule, defaults),",
         "   nipy/algorithms/registration/optimizer.py (configure_optimizer table, use_derivatives),",
         "   nipy/algorithms/registration/histogram_registration.py (defaults of optimize()).",
         "   binary64 literals as exact rationals.  Do not edit. -/",
         "namespace NipyVerif.C09.Src", "",
         "/-- `2.0` in `2.0*(fval0-fval) <= …` -/", f"def steepFactor : Rat := {_rat(two)}",
         "/-- `1e-20` in `… <= ftol*(abs(fval0)+abs(fval))+1e-20` -/", f"def steepSlack : Rat := {_rat(eps)}",
         "/-- `maxiter = x.size*1000` when `maxiter is None` -/", f"def steepIterPerDim : Nat := {int(per_dim)}",
         f"def steepXtolDefault : Rat := {_rat(dfl['xtol'])}", f"def steepFtolDefault : Rat := {_rat(dfl['ftol'])}",
         f"def steepEpsilonDefault : Rat := {_rat(dfl['epsilon'])}",
         "/-- `_linesearch_brent` has an `except RuntimeError: return func(p), p` branch -/",
         f"def lineSearchFallback : Bool := {'true' if ls_txt == LINESEARCH_SHAPE_FALLBACK else 'false'}", "",
         "/-- `configure_optimizer`: (name, scipy/nipy routine, number of positional `args`, keyword keys) -/",
         "def optimizerTable : List (String × String × Nat × List String) := ["]
    L += ["  " + ",\n  ".join(f'("{n}", "{f}", {a}, {_lstr(k)})' for n, f, a, k in table) + "]"]
    L += ["/-- keys `configure_optimizer` itself adds to `kwargs` before `subdict` -/",
          f"def presetKeys : List String := {_lstr([k for k, _ in preset])}",
          "/-- `use_derivatives(optimizer) = optimizer not in …` -/",
          f"def derivFree : List String := {_lstr(deriv_free)}",
          "/-- `kwargs.setdefault` keys of `HistogramRegistration.optimize` -/",
          f"def optimizeDefaultKeys : List String := {_lstr([k for k, _ in setd])}",
          f'def defaultOptimizer : String := "{glob.get("OPTIMIZER")}"']
    for k, v in setd:
        val = glob[v]
        L.append(f"def hr{v} : Option Rat := {num(val)}")
    L += ["/-- `interp_methods` of histogram_registration.py -/",
          "def interpMethods : List (String × Int) := [" +
          ", ".join(f'("{k}", {v})' if v >= 0 else f'("{k}", ({v}))' for k, v in im.items()) + "]",
          "/-- keys of `similarity_measures` (similarity_measures.py) with their classes -/",
          "def measureTable : List (String × String) := [" +
          ", ".join(f'("{k}", "{v}")' for k, v in measures) + "]",
          "def measureNames : List String := measureTable.map (·.1)"]
    L += ["", "end NipyVerif.C09.Src", ""]
    return [("NipyVerif/Gen/C09Consts.lean", "\n".join(L))], {"table": table, "deriv_free": deriv_free,
                                                                "setdefault": setd, "glob": glob, "measures": measures}


# ----------------------------------------------------------------------
# recording the real run of fmin_steepest
# ----------------------------------------------------------------------
class SteepRecorder:
    """wraps `approx_fprime` and `_linesearch_brent` *as looked up by* nipy.algorithms.optimize while
    `fmin_steepest` runs: the real routines are still the ones that compute; what they received and
    returned is recorded (one step per pass of the loop)."""

    def __init__(self):
        from nipy.algorithms import optimize as opt
        self.opt = opt
        self.steps = []

    def __enter__(self):
        opt = self.opt
        self.o_af, self.o_ls = opt.approx_fprime, opt._linesearch_brent

        def af(x, f, eps, *a, **kw):
            g = self.o_af(x, f, eps, *a, **kw)
            self.steps.append({"hasDir": bool(np.any(np.asarray(g) != 0)), "x": np.array(x, float).ravel().copy(),
                               "ls": False})
            return g

        def ls(func, p, xi, *a, **kw):
            probes = []

            def g(x):
                v = func(x)
                probes.append((np.array(x, float).ravel().copy(), float(np.squeeze(v))))
                return v
            fret, xnew = self.o_ls(g, p, xi, *a, **kw)
            if self.steps:
                self.steps[-1].update(ls=True, fret=float(fret), xnew=np.array(xnew, float).ravel().copy(),
                                      probes=probes)
            return fret, xnew
        opt.approx_fprime, opt._linesearch_brent = af, ls
        return self

    def __exit__(self, *exc):
        self.opt.approx_fprime, self.opt._linesearch_brent = self.o_af, self.o_ls
        return False

    def finite(self):
        for st in self.steps:
            if st["ls"]:
                vals = [st["fret"]] + list(st["xnew"]) + [v for _, v in st["probes"]] + \
                       [t for x, _ in st["probes"] for t in x]
                if not all(math.isfinite(float(v)) for v in vals):
                    return False
        return True

    def text(self, n):
        """`<nsteps> {step}` of the model line.  A pass whose gradient is not identically zero but that
        made no line search (or the converse) is passed as observed through `hasDir`; the model then
        disagrees on the exit, which is the point."""
        out = [str(len(self.steps))]
        for st in self.steps:
            if not st["ls"]:
                # gradient non-zero but no line search was made: tell the model the gradient was non-zero
                # with an empty probe record (it will then disagree), zero gradient: `0`
                out.append("0" if not st["hasDir"] else "1 0 " + frs([0] * n) + " 0")
                continue
            if not st["hasDir"]:
                out.append("0")     # the code searched along a zero gradient: the model says it stops here
                continue
            pr = " ".join(frs(x) + " " + fr(v) for x, v in st["probes"])
            out.append(f"1 {fr(st['fret'])} {frs(st['xnew'])} {len(st['probes'])} {pr}".rstrip())
        return " ".join(out)


def obj_text(o):
    if o["type"] == "squares":
        return ("squares " + frs(o["c"]) + " " + fr(o["c0"]) + f" {len(o['terms'])} " +
                " ".join(fr(d) + " " + frs(l) for d, l in o["terms"])).rstrip()
    if o["type"] == "plateau":
        return "plateau " + " ".join(frs(o[k]) for k in ("w", "c", "lo", "hi"))
    return "opaque"


def make_obj(o):
    if o["type"] == "squares":
        c = np.array(o["c"], float)
        D = np.array([d for d, _ in o["terms"]], float)
        Lm = np.array([l for _, l in o["terms"]], float).reshape(len(D), len(c))
        c0 = float(o["c0"])
        return lambda x: c0 + float(np.sum(D * (Lm @ (np.asarray(x, float).ravel() - c)) ** 2))
    w, c, lo, hi = (np.array(o[k], float) for k in ("w", "c", "lo", "hi"))
    return lambda x: float(np.sum(w * np.clip(np.abs(np.asarray(x, float).ravel() - c), lo, hi)))


def gen_steep(rng):
    n = rng.choice([1, 1, 2, 2, 3, 4])
    dy = lambda: rng.randrange(-16, 17) / rng.choice([1, 2, 4, 8])
    if rng.random() < 0.5:
        c = [dy() for _ in range(n)]
        nt = rng.choice([1, n, n, n + 1])
        terms = []
        for k in range(nt):
            l = [0] * n
            if rng.random() < 0.6:
                l[k % n] = 1
            else:
                l = [rng.choice([0, 1, 1, -1, 2]) for _ in range(n)]
            terms.append([rng.choice([0, 0.25, 0.5, 1, 1, 2, 8, 64]), l])
        obj = {"type": "squares", "c": c, "c0": rng.choice([0, 0, 1, -3, 0.5, 1024]), "terms": terms}
    else:
        c = [dy() for _ in range(n)]
        lo = [rng.choice([0, 0, 0, 0.5, 1]) for _ in range(n)]
        obj = {"type": "plateau", "w": [rng.choice([0, 1, 1, 2, 0.5, 4]) for _ in range(n)], "c": c,
               "lo": lo, "hi": [l + rng.choice([0.5, 2, 8, 1000]) for l in lo]}
    c = obj["c"]
    sk = rng.choice(["optimum", "optimum", "near", "near", "far", "plateau"])
    if sk == "optimum":
        x0 = list(c)
    elif sk == "near":
        x0 = [v + rng.choice([0, 0.125, -0.25, 0.5, 2 ** -20, -2 ** -30]) for v in c]
    elif sk == "far":
        x0 = [v + rng.choice([-40, 3, 7.5, 100, -1.5]) for v in c]
    else:
        x0 = [v + rng.choice([0.25, -0.75, 1.5, 3000]) for v in c]
    return {"kind": "steep", "n": n, "obj": obj, "x0": x0, "skind": sk,
            "maxiter": rng.choice([None, None, 0, 1, 2, 3, 7, 50]),
            "ftol": rng.choice([1e-4, 1e-4, 1e-2, 0.0, 0.5, 1e-12]),
            "xtol": rng.choice([1e-4, 1e-4, 1e-2, 1e-8]),
            "fprime": rng.random() < 0.04, "col": rng.random() < 0.2, "cb": rng.random() < 0.7}


def run_steep(c):
    from nipy.algorithms import optimize as opt
    n = c["n"]
    f = make_obj(c["obj"])
    evals = []

    def fobj(x):
        v = f(x)
        evals.append(v)
        return v
    x0 = np.array(c["x0"], float)
    x0a = x0.reshape(n, 1) if c["col"] else x0
    calls = []
    cb = (lambda x: calls.append(np.array(x, float).ravel().copy())) if c["cb"] else None
    kw = dict(xtol=c["xtol"], ftol=c["ftol"], maxiter=c["maxiter"], callback=cb, disp=False)
    if c["fprime"]:
        kw["fprime"] = lambda x: np.zeros(n)
    tags = ["steep", "obj=" + c["obj"]["type"], "start=" + c["skind"]]
    rec = SteepRecorder()
    try:
        with rec:
            xr = np.array(opt.fmin_steepest(fobj, x0a, **kw), float).ravel()
        obs = ("steep", len(rec.steps), len(calls) if c["cb"] else None, xr.tolist(),
               [v.tolist() for v in calls] if c["cb"] else None, f(x0), f(xr))
    except Exception as e:
        xr = None
        obs = ("err", errname(e))
        if type(e).__name__ == "BracketError" and not c["fprime"]:
            # scipy.optimize.brent found no bracket from alpha = 0 (objective flat at its first probes):
            # fmin_steepest lets it propagate.  On a real registration this is reported (run_opt); on the
            # synthetic objectives it is recorded only (the property speaks about registrations)
            return {"lines": [], "impl": [], "oracle": None, "nontrivial": True,
                    "tags": tags + ["scipy-bracket-error-propagated"], "mutated": None}
    f0 = evals[0] if evals else f(x0)
    line = (f"steep {int(c['fprime'])} {n} {obj_text(c['obj'])} {fr(f0)} {frs(x0)} "
            f"{-1 if c['maxiter'] is None else c['maxiter']} {fr(c['ftol'])} {rec.text(n)}")
    fail = None
    if xr is None:
        tags.append("refused=" + obs[1])
    if xr is None and not c["fprime"]:
        fail = f"fmin_steepest raised {obs[1]} on a bounded-below objective"
    elif xr is not None:
        tags.append(f"passes={min(len(rec.steps), 4)}{'+' if len(rec.steps) > 4 else ''}")
        if any(not st["hasDir"] for st in rec.steps):
            tags.append("exit=zero-gradient")
        f1 = f(xr)
        if not (f1 <= f0 + 1e-12 * max(1.0, abs(f0))):
            fail = (f"fmin_steepest returned a point where the objective is {f1!r}, above its value {f0!r} at "
                    f"the starting point {c['x0']} (objective {c['obj']})")
    return {"lines": [line], "impl": [obs], "oracle": fail, "nontrivial": bool(rec.steps), "tags": tags,
            "mutated": None}


def compare_steep(obs, model_out):
    if obs[0] == "err":
        return None if model_out == obs[1] else f"impl {obs[1]} model {model_out[:80]}"
    if model_out.startswith("error"):
        return f"impl returned a point, model says {model_out}"
    parts = model_out.split(" | ")
    if len(parts) != 6:
        return f"malformed model answer {model_out[:80]!r}"
    it, ncb = (int(t) for t in parts[0].split())
    _, nit, ncalls, xr, calls, fx0, fxr = obs
    if it != nit:
        return f"passes of the loop: impl made {nit}, the loop as modelled makes {it} on the recorded trace"
    mx = [Fraction(t) for t in parts[1].split()]
    if mx != [Fraction(v) for v in xr]:
        return f"returned point: impl {xr} model {[float(v) for v in mx]}"
    if ncalls is not None:
        if ncb != ncalls:
            return f"callback calls: impl {ncalls} model {ncb}"
        mc = [[Fraction(t) for t in s.split()] for s in parts[5].split(" ; ")] if parts[5].strip() else []
        if mc != [[Fraction(v) for v in cc] for cc in calls]:
            return "callback arguments differ from the accepted iterates of the model"
    cm, cp = parts[3].split()
    if cm != "1":
        return ("hypothesis of steepest_not_worse not met on this run: a line search returned a value above "
                "the tracked one (certMono = 0)")
    if cp != "1":
        return ("probe certificate not met on this run: the line search did not start from alpha = 0 with the "
                "tracked value, or returned a pair that is not one of its probes / is above the value at alpha = 0 "
                "(certProbes = 0)")
    e0, e1 = parts[4].split()
    for name, e, v in (("f(x0)", e0, fx0), ("f(result)", e1, fxr)):
        if e != "-" and v is not None:
            ev = float(Fraction(e))
            if abs(ev - v) > 1e-9 * max(1.0, abs(ev)):
                return f"{name}: impl {v!r} model (exact) {ev!r}"
    return None


# ----------------------------------------------------------------------
# configure_optimizer
# ----------------------------------------------------------------------
ALLKEYS = ["xtol", "ftol", "gtol", "maxiter", "maxfun"]


def gen_cfg(rng):
    name = rng.choice(OPTIMIZERS + OPTIMIZERS + ["newton", "Powell", "lbfgs"])
    r = rng.random()
    keys = list(ALLKEYS) if r < 0.6 else [k for k in ALLKEYS if rng.random() < 0.7]
    if rng.random() < 0.15:
        keys.append(rng.choice(["epsilon", "disp", "retall"]))
    return {"kind": "cfg", "name": name, "keys": keys}


def run_cfg(c):
    from nipy.algorithms.registration import optimizer as om
    kw = {k: 1.0 for k in c["keys"]}
    try:
        fmin, args, kwargs = om.configure_optimizer(c["name"], fprime=None, fhess=None, **kw)
        obs = ("cfg", f"{fmin.__name__} {len(args)} {' '.join(kwargs.keys())}".rstrip())
    except Exception as e:
        obs = ("cfg", errname(e))
    try:
        ud = bool(om.use_derivatives(c["name"]))
    except Exception as e:
        ud = errname(e)
    name = c["name"] if c["name"] else '""'
    line = f"cfg {name} {len(c['keys'])} {' '.join(c['keys'])}".rstrip()
    if not c["name"]:
        line = None
    return {"lines": [line] if line else [], "impl": [(obs[0], obs[1] + " | " + ("1" if ud is True else "0" if ud is False else ud))] if line else [],
            "oracle": None, "nontrivial": True, "tags": ["cfg", "cfg=" + (obs[1].split()[0])], "mutated": None}


# ----------------------------------------------------------------------
# real registrations: optimize() never lowers the similarity
# ----------------------------------------------------------------------
class FixedRng:
    """deterministic stand-in for numpy's Generator in `_eval` (rand interpolation): the objective the
    optimiser sees is then a function of the parameters"""

    def __init__(self, v):
        self.v = int(v)
        self.last = None

    def integers(self, low, high=None):
        lo, hi = (0, int(low)) if high is None else (int(low), int(high))
        self.last = lo + (self.v - lo) % (hi - lo)
        return self.last


def gen_opt(rng, optimizer=None, sim=None, skind=None):
    shape = [rng.choice([5, 6, 7, 8, 9]) for _ in range(3)]
    skind = skind or rng.choice(START_KINDS)
    pair = "self" if skind == "optimum" else rng.choice(["self", "self", "shifted", "other"])
    near = lambda: [rng.choice([0.0, 0.5, -0.5, 1.0, 0.25]) for _ in range(3)] + \
                   [rng.choice([0.0, 0.0, 0.02, -0.03]) for _ in range(3)]
    if skind == "optimum":
        start = [0.0] * 6
    elif skind in ("near", "converged"):
        start = near()
    else:
        start = [rng.choice([3.0, -2.0, 5.0, -7.5, 12.0, 40.0]) for _ in range(3)] + \
                [rng.choice([0.0, 0.1, -0.3, 0.8]) for _ in range(3)]
    kw = {}
    if rng.random() < 0.3:
        kw["xtol"] = rng.choice([1e-1, 1e-3, 1e-4])
    if rng.random() < 0.3:
        kw["ftol"] = rng.choice([1e-1, 1e-4, 1e-6, 0.0])
    if rng.random() < 0.2:
        kw["gtol"] = rng.choice([1e-1, 1e-5])
    r = rng.random()
    if r < 0.3:
        kw["maxiter"] = rng.choice([1, 2, 3, 4, 8])
    elif r < 0.35:
        kw["maxiter"] = 0
    if rng.random() < 0.1:
        kw["maxfun"] = rng.choice([5, 30, 200])
    return {"kind": "opt", "dseed": rng.randrange(10 ** 6), "shape": shape,
            "img": rng.choice(["smooth", "smooth", "blob", "noise"]),
            "vox": rng.choice([[1.0, 1.0, 1.0], [2.0, 2.0, 2.0], [2.0, 1.0, 4.0]]),
            "sim": sim or rng.choice(OPT_MEASURES), "interp": rng.choice(["pv", "pv", "tri", "rand"]),
            "optimizer": optimizer or rng.choice(OPTIMIZERS), "skind": skind, "start": start,
            "ttype": rng.choice(["rigid", "rigid", "affine", "similarity", "rigid2d", "affine2d"]),
            "pair": pair, "bins": rng.choice([4, 8, 8, 16, 32]), "kw": kw,
            "renorm": rng.random() < 0.15, "cb": rng.random() < 0.5,
            "premask": rng.random() < 0.15}


def _volume(c, rs):
    import scipy.ndimage as nd
    shape = c["shape"]
    if c["img"] == "smooth":
        return nd.gaussian_filter(rs.standard_normal(shape), 1.5)
    if c["img"] == "blob":
        g = np.indices(shape).astype(float)
        cen = [rs.uniform(1.5, s - 2.5) for s in shape]
        return np.round(30 * np.exp(-sum((g[a] - cen[a]) ** 2 for a in range(3)) / 6.0)
                        + rs.randint(0, 3, size=shape))
    return rs.randint(0, 40, size=shape).astype(float)


def run_opt(c, patch):
    import scipy.ndimage as nd
    hr, sm = patch()
    from nipy.algorithms.registration import affine as af
    from nipy.core.image.image_spaces import make_xyz_image
    rs = np.random.RandomState(c["dseed"])
    d1 = _volume(c, rs)
    if c["pair"] == "self":
        d2 = d1.copy()
    elif c["pair"] == "shifted":
        d2 = np.roll(d1, 1, axis=rs.randint(3))
    else:
        d2 = nd.gaussian_filter(d1, 0.7) * 0.5 + 0.1 * rs.standard_normal(d1.shape)
    aff = np.diag(c["vox"] + [1.0])
    im1, im2 = make_xyz_image(d1, aff, "scanner"), make_xyz_image(d2, aff, "scanner")
    sim, optimizer = c["sim"], c["optimizer"]
    tags = ["opt", "opt=" + optimizer, "interp=" + c["interp"], "osim=" + sim, "start=" + c["skind"]]
    mask = None
    if c["premask"]:
        mask = rs.rand(*d1.shape) < 0.8
        mask.flat[0] = mask.flat[-1] = True
    try:
        dist = None
        if sim == "slr":
            R0 = hr.HistogramRegistration(im1, im2, from_bins=c["bins"], similarity="cc", interp="pv", from_mask=mask)
            R0.eval(af.Affine())
            dist = (R0._joint_hist + 0.5) / (R0._joint_hist + 0.5).sum()
        R = hr.HistogramRegistration(im1, im2, from_bins=c["bins"], similarity=sim, interp=c["interp"],
                                     renormalize=c["renorm"], dist=dist, rng=FixedRng(4242 + c["dseed"] % 1000),
                                     from_mask=mask)
        cls = {"rigid": af.Rigid, "affine": af.Affine, "similarity": af.Similarity,
               "rigid2d": af.Rigid2D, "affine2d": af.Affine2D}[c["ttype"]]
        T0 = cls()
        p = T0.param.copy()
        k = min(len(p), 6)
        # `param` is the preconditioned vector: set the physical offsets through the named properties
        T0.translation = np.array(c["start"][:3]) * (1 if c["ttype"][-2:] != "2d" else np.array([1, 1, 0]))
        T0.rotation = np.array(c["start"][3:6]) * (1 if c["ttype"][-2:] != "2d" else np.array([0, 0, 1]))
        p = T0.param.copy()
        if c["skind"] == "converged":
            Tc = cls(); Tc.param = p.copy()
            with contextlib.redirect_stdout(io.StringIO()):
                Tc = R.optimize(Tc, optimizer="powell")
            p = Tc.param.copy()
            T0 = cls(); T0.param = p.copy()
        s0 = float(R.eval(T0))
    except Exception as e:
        return {"lines": [], "impl": [], "nontrivial": True, "tags": tags + ["raised"],
                "oracle": f"HistogramRegistration/eval raised {type(e).__name__}: {e} (case {c})"}
    T = cls(); T.param = p.copy()
    calls = []
    kw = dict(c["kw"])
    if c["cb"]:
        kw["callback"] = lambda tc: calls.append(np.array(tc, float).ravel().copy())
    log = {"costs": [], "res": None, "cost": None, "tc0": None}
    o_conf = hr.configure_optimizer

    def conf(*a, **k2):
        fmin, args, kwargs = o_conf(*a, **k2)

        def fmin2(cost, tc0, *aa, **kk):
            def cost2(tc):
                v = cost(tc)
                log["costs"].append(float(v))
                return v
            log["cost"], log["tc0"] = cost, np.array(tc0, float).ravel().copy()
            res = fmin(cost2, tc0, *aa, **kk)
            log["res"] = np.array(res, float).ravel().copy()
            return res
        return fmin2, args, kwargs
    rec = SteepRecorder()
    hr.configure_optimizer = conf
    try:
        with rec, contextlib.redirect_stdout(io.StringIO()):
            Topt = R.optimize(T, optimizer=optimizer, **kw)
        s1 = float(R.eval(Topt))
        cres = float(log["cost"](log["res"])) if log["res"] is not None else None
    except Exception as e:
        if optimizer == "ncg" and isinstance(e, ValueError) and "Jacobian is required" in str(e):
            # optimize() hands SciPy's Newton-CG no gradient: SciPy refuses (not a documented optimizer name)
            return {"lines": [], "impl": [], "nontrivial": False, "tags": tags + ["ncg-refused-by-scipy"],
                    "oracle": None, "mutated": None}
        return {"lines": [], "impl": [], "nontrivial": True, "tags": tags + ["raised"],
                "oracle": f"optimize({optimizer!r}) raised {type(e).__name__} instead of returning a transform: {e} "
                          f"(start kind {c['skind']}, start similarity {s0!r}, sim={sim}, interp={c['interp']}, "
                          f"transform={c['ttype']}, kwargs={c['kw']})"}
    finally:
        hr.configure_optimizer = o_conf
    fail = None
    tol = 1e-9 * max(1.0, abs(s0))
    if not math.isfinite(s0):
        tags.append("start-nonfinite")
    elif not (s1 >= s0 - tol):
        fail = (f"optimize(optimizer={optimizer!r}, {c['ttype']}, similarity={sim!r}, interp={c['interp']!r}, "
                f"kwargs={c['kw']}) started (start kind: {c['skind']}) at a transform with similarity {s0!r} and "
                f"returned a transform with lower similarity {s1!r}")
    elif Topt is not T:
        fail = "optimize() did not return the transform object it was given (docstring: T is updated and returned)"
    lines, impl = [], []
    if cres is not None and math.isfinite(cres) and math.isfinite(s1):
        lines.append(f"costsign {fr(cres)}")
        impl.append(("sign", s1))
    if optimizer == "steepest" and log["costs"] and rec.finite() and math.isfinite(log["costs"][0]):
        n = len(log["tc0"])
        mi = kw.get("maxiter", 25)
        ftol = kw.get("ftol", 1e-2)
        lines.append(f"steep 0 {n} opaque {fr(log['costs'][0])} {frs(log['tc0'])} {mi} {fr(ftol)} {rec.text(n)}")
        impl.append(("steep", len(rec.steps), len(calls) if c["cb"] else None, log["res"].tolist(),
                     [v.tolist() for v in calls] if c["cb"] else None, None, None))
        tags.append(f"steepest-passes={min(len(rec.steps), 3)}{'+' if len(rec.steps) > 3 else ''}")
    if s1 > s0 + tol:
        tags.append("improved")
    return {"lines": lines, "impl": impl, "oracle": fail, "nontrivial": True, "tags": tags, "mutated": None}


def shrink_opt(case):
    """smaller / simpler registrations that keep optimizer, measure and start kind"""
    for key, simple in (("kw", {}), ("premask", False), ("renorm", False), ("cb", False), ("img", "smooth"),
                        ("vox", [1.0, 1.0, 1.0]), ("ttype", "rigid"), ("interp", "pv"), ("bins", 8),
                        ("pair", "self")):
        if case[key] != simple and not (key == "pair" and case["skind"] == "optimum"):
            c = dict(case); c[key] = simple
            yield c
    if any(s > 5 for s in case["shape"]):
        c = dict(case); c["shape"] = [max(5, s - 1) for s in case["shape"]]
        yield c
    if case["skind"] in ("near", "far") and any(case["start"]):
        for i in range(6):
            if case["start"][i]:
                c = dict(case); c["start"] = list(case["start"]); c["start"][i] = 0.0
                yield c


def shrink_steep(case):
    for key, simple in (("col", False), ("cb", False), ("xtol", 1e-4), ("ftol", 1e-4), ("maxiter", None)):
        if case[key] != simple:
            c = dict(case); c[key] = simple
            yield c
    n = case["n"]
    if n > 1:
        for i in range(n):
            c = dict(case); c["n"] = n - 1
            c["x0"] = case["x0"][:i] + case["x0"][i + 1:]
            o = dict(case["obj"])
            for k in ("c", "w", "lo", "hi"):
                if k in o:
                    o[k] = o[k][:i] + o[k][i + 1:]
            if "terms" in o:
                o["terms"] = [[d, l[:i] + l[i + 1:]] for d, l in o["terms"]]
            c["obj"] = o
            yield c
    o = case["obj"]
    if o["type"] == "squares" and len(o["terms"]) > 1:
        for i in range(len(o["terms"])):
            c = dict(case); c["obj"] = dict(o); c["obj"]["terms"] = o["terms"][:i] + o["terms"][i + 1:]
            yield c
