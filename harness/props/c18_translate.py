"""C18 translator: regenerates lean/NipyVerif/Gen/C18Source.lean from the *text* of
nipy/algorithms/kernel_smooth.py and nipy/algorithms/fwhm.py.

Formula-like source is turned into Lean terms (not strings) by a small expression translator over the
Python AST, so that `Props/C18D.lean` can prove — for all arguments — that the regenerated expression is
what the model implements:

* `_setup_kernel`: the padded FFT shape `self.shape = (np.ceil((bshape + kernel.shape) / 2) * 2 + 2)`,
  the centre voxel `np.floor((bshape - 1) / 2.0)`, the centre index `int(c) - int(m)`, the norms table;
* `__call__`: halving, cut-off and clamp constants, the comparison;
* `smooth`: division by the norm, the `scale` / `location` statements in their order, the output window;
* `_crop`: default tolerance, the corner of the empty case, the box length;
* `fwhm2sigma` / `sigma2fwhm`, `Resels.fwhm2resel` / `resel2fwhm`: the formula with `sqrt(a * log(b))`
  recognised as a named constant with its two integers; `_calc_detlam`: the polynomial;
* constructor defaults and the default normalisation key.

Anything the translator does not recognise raises TieBroken (a broken obligation), as does a proof in
Props/C18D.lean that no longer goes through for the regenerated term.
"""
from __future__ import annotations

import ast
import os
from fractions import Fraction


class _Tr:
    """expression translator: Python AST -> Lean term of type Rat"""

    def __init__(self, env, TieBroken, where):
        self.env, self.TieBroken, self.where = env, TieBroken, where
        self.consts = []          # (a, b) of every sqrt(a * log(b)) met

    def fail(self, node, why="unsupported"):
        raise self.TieBroken(f"{self.where}: {why}: {ast.unparse(node)}")

    def num(self, v, node):
        if isinstance(v, bool) or not isinstance(v, (int, float)):
            self.fail(node, "non-numeric constant")
        f = Fraction(str(v)) if isinstance(v, float) else Fraction(v)
        if f.denominator == 1:
            return f"({f.numerator} : Rat)" if f >= 0 else f"(-{-f.numerator} : Rat)"
        return f"(({f.numerator} : Rat) / {f.denominator})"

    def sqrtlog(self, node):
        """np.sqrt(a * np.log(b)) -> the named constant `c`, remembering (a, b)"""
        if not (isinstance(node, ast.Call) and ast.unparse(node.func) == "np.sqrt" and len(node.args) == 1):
            return None
        a = node.args[0]
        if not (isinstance(a, ast.BinOp) and isinstance(a.op, ast.Mult) and isinstance(a.left, ast.Constant)
                and isinstance(a.right, ast.Call) and ast.unparse(a.right.func) == "np.log"
                and len(a.right.args) == 1 and isinstance(a.right.args[0], ast.Constant)):
            return None
        x, y = a.left.value, a.right.args[0].value
        if float(x) != int(x) or float(y) != int(y):
            return None
        self.consts.append((int(x), int(y)))
        return "c"

    def tr(self, n):
        key = ast.unparse(n)
        if key in self.env:
            return self.env[key]
        if isinstance(n, ast.Constant):
            return self.num(n.value, n)
        if isinstance(n, ast.UnaryOp) and isinstance(n.op, ast.USub):
            return f"(-{self.tr(n.operand)})"
        if isinstance(n, ast.BinOp):
            if isinstance(n.op, ast.Pow):
                if isinstance(n.right, ast.Constant) and n.right.value == 2:
                    a = self.tr(n.left)
                    return f"({a} * {a})"
                self.fail(n, "power")
            op = {ast.Add: "+", ast.Sub: "-", ast.Mult: "*", ast.Div: "/"}.get(type(n.op))
            if op is None:
                self.fail(n, "operator")
            return f"({self.tr(n.left)} {op} {self.tr(n.right)})"
        if isinstance(n, ast.Call):
            c = self.sqrtlog(n)
            if c:
                return c
            f = ast.unparse(n.func)
            if f in ("np.asarray", "np.array") and len(n.args) == 1:
                return self.tr(n.args[0])
            if f == "np.ceil" and len(n.args) == 1:
                return f"((Rat.ceil {self.tr(n.args[0])} : Int) : Rat)"
            if f == "np.floor" and len(n.args) == 1:
                return f"((Rat.floor {self.tr(n.args[0])} : Int) : Rat)"
            if f == "int" and len(n.args) == 1:
                return self.tr(n.args[0])
            if f == "pos_recipr" and len(n.args) == 1:
                return f"(posRecipr {self.tr(n.args[0])})"
            if f == "np.power" and len(n.args) == 2:
                e = ast.unparse(n.args[1])
                if e == "self.D":
                    return f"(ratPow {self.tr(n.args[0])} D)"
                if e in ("1.0 / self.D", "1 / self.D", "1. / self.D"):
                    return "root"          # the D-th root is external
                self.fail(n, "power")
            if isinstance(n.func, ast.Attribute) and n.func.attr == "astype" and ast.unparse(n.args[0]) in ("np.intp", "int"):
                return f"((truncInt {self.tr(n.func.value)} : Int) : Rat)"
        self.fail(n)


def _func(tree, name, TieBroken, cls=None):
    for n in ast.walk(tree):
        if cls and isinstance(n, ast.ClassDef) and n.name == cls:
            for m in n.body:
                if isinstance(m, ast.FunctionDef) and m.name == name:
                    return m
        if not cls and isinstance(n, ast.FunctionDef) and n.name == name:
            return n
    raise TieBroken(f"function {cls + '.' if cls else ''}{name} not found")


def _assign(fn, target, TieBroken):
    hits = [n.value for n in ast.walk(fn) if isinstance(n, ast.Assign) and any(ast.unparse(t) == target for t in n.targets)]
    if len(hits) != 1:
        raise TieBroken(f"{fn.name}: expected one assignment to {target}, found {len(hits)}")
    return hits[0]


def _ret(fn, TieBroken):
    r = [n for n in ast.walk(fn) if isinstance(n, ast.Return)]
    if len(r) != 1 or r[0].value is None:
        raise TieBroken(f"{fn.name}: expected exactly one return with a value")
    return r[0].value


def _lean_str(s):
    return '"' + s.replace("\\", "\\\\").replace('"', '\\"') + '"'


def translate(repo, TieBroken):
    def parse(rel):
        try:
            return ast.parse(open(os.path.join(repo, rel)).read())
        except Exception as e:  # pragma: no cover
            raise TieBroken(f"{rel} does not parse: {e}")

    ks = parse("nipy/algorithms/kernel_smooth.py")
    fw = parse("nipy/algorithms/fwhm.py")
    out = []
    w = out.append

    # ---------------- _setup_kernel -------------------------------------------------------------
    sk = _func(ks, "_setup_kernel", TieBroken, "LinearFilter")
    t = _Tr({"self.bshape": "(n : Rat)", "kernel.shape": "(k : Rat)"}, TieBroken, "_setup_kernel self.shape")
    pad = t.tr(_assign(sk, "self.shape", TieBroken))
    t = _Tr({"self.bshape": "(n : Rat)"}, TieBroken, "_setup_kernel vox_center")
    cen = t.tr(_assign(sk, "vox_center", TieBroken))
    kc = _assign(sk, "self._kcenter", TieBroken)
    # tuple(<elt> for c, m in zip(vox_center, corner))
    if not (isinstance(kc, ast.Call) and ast.unparse(kc.func) == "tuple" and len(kc.args) == 1
            and isinstance(kc.args[0], ast.GeneratorExp) and len(kc.args[0].generators) == 1
            and ast.unparse(kc.args[0].generators[0].target) == "(c, m)"
            and ast.unparse(kc.args[0].generators[0].iter) == "zip(vox_center, corner)"):
        raise TieBroken("_setup_kernel: self._kcenter is not tuple(f(c, m) for c, m in zip(vox_center, corner)): "
                        + ast.unparse(kc))
    t = _Tr({"c": "(c : Rat)", "m": "(m : Rat)"}, TieBroken, "_setup_kernel self._kcenter")
    kcen = t.tr(kc.args[0].elt)
    crop_call = _assign(sk, "(kernel, corner)", TieBroken)
    if ast.unparse(crop_call) != "_crop(kernel, return_corner=True)":
        raise TieBroken("_setup_kernel: kernel is not cropped by _crop(kernel, return_corner=True): " + ast.unparse(crop_call))
    if ast.unparse(_assign(sk, "kernel", TieBroken)) != "self(X, axis=0)":
        raise TieBroken("_setup_kernel: kernel is not self(X, axis=0)")
    norms = _assign(sk, "self.norms", TieBroken)
    if not isinstance(norms, ast.Dict):
        raise TieBroken("_setup_kernel: self.norms is not a dict display")
    kinds = {"np.sqrt((kernel ** 2).sum())": "sqrtSumSq", "np.fabs(kernel).sum()": "sumAbs", "kernel.sum()": "sum"}
    ntab = []
    for k_, v_ in zip(norms.keys, norms.values):
        if not (isinstance(k_, ast.Constant) and isinstance(k_.value, str)) or ast.unparse(v_) not in kinds:
            raise TieBroken("_setup_kernel: unrecognised norms entry " + ast.unparse(k_) + ": " + ast.unparse(v_))
        ntab.append((k_.value, kinds[ast.unparse(v_)]))

    # ---------------- __call__ ------------------------------------------------------------------
    cl = _func(ks, "__call__", TieBroken, "LinearFilter")
    ns = _assign(cl, "_normsq", TieBroken)
    if not (isinstance(ns, ast.BinOp) and isinstance(ns.op, ast.Div) and ast.unparse(ns.left) == "self._normsq(X, axis)"
            and isinstance(ns.right, ast.Constant)):
        raise TieBroken("__call__: _normsq is not self._normsq(X, axis) / const: " + ast.unparse(ns))
    halving = _Tr({}, TieBroken, "__call__").num(ns.right.value, ns.right)
    tt = _assign(cl, "t", TieBroken)
    if not (isinstance(tt, ast.Call) and ast.unparse(tt.func) == "np.less_equal" and len(tt.args) == 2
            and ast.unparse(tt.args[0]) == "_normsq" and isinstance(tt.args[1], ast.Constant)):
        raise TieBroken("__call__: t is not np.less_equal(_normsq, const): " + ast.unparse(tt))
    cutoff = _Tr({}, TieBroken, "__call__").num(tt.args[1].value, tt.args[1])
    rv = _ret(cl, TieBroken)
    # np.exp(-np.minimum(_normsq, C)) * t
    ok = (isinstance(rv, ast.BinOp) and isinstance(rv.op, ast.Mult) and ast.unparse(rv.right) == "t"
          and isinstance(rv.left, ast.Call) and ast.unparse(rv.left.func) == "np.exp" and len(rv.left.args) == 1
          and isinstance(rv.left.args[0], ast.UnaryOp) and isinstance(rv.left.args[0].op, ast.USub)
          and isinstance(rv.left.args[0].operand, ast.Call)
          and ast.unparse(rv.left.args[0].operand.func) == "np.minimum"
          and ast.unparse(rv.left.args[0].operand.args[0]) == "_normsq"
          and isinstance(rv.left.args[0].operand.args[1], ast.Constant))
    if not ok:
        raise TieBroken("__call__: return is not np.exp(-np.minimum(_normsq, const)) * t: " + ast.unparse(rv))
    clamp = _Tr({}, TieBroken, "__call__").num(rv.left.args[0].operand.args[1].value, rv)

    # ---------------- smooth --------------------------------------------------------------------
    sm = _func(ks, "smooth", TieBroken, "LinearFilter")
    loop = [n for n in ast.walk(sm) if isinstance(n, ast.For) and ast.unparse(n.target) == "_slice"]
    if len(loop) != 1:
        raise TieBroken("smooth: the per-slice loop was not found")
    steps, started = [], False
    for st in loop[0].body:
        src = ast.unparse(st)
        if isinstance(st, ast.Assign) and ast.unparse(st.targets[0]) == "data" and "irfftn" in src:
            if src != "data = fft.irfftn(data) / self.norms[self.normalization]":
                raise TieBroken("smooth: unexpected inverse-transform statement: " + src)
            started = True
            steps.append("let data := conv / norm")
            continue
        if not started:
            continue
        if isinstance(st, ast.Expr) and src == "gc.collect()":
            continue
        if isinstance(st, ast.If) and len(st.body) == 1 and not st.orelse:
            test, body = ast.unparse(st.test), ast.unparse(st.body[0])
            tests = {"self.scale != 1": "scale ≠ 1", "self.location != 0.0": "loc ≠ 0", "self.location != 0": "loc ≠ 0"}
            bodies = {"data = self.scale * data": "scale * data", "data = data * self.scale": "data * scale",
                      "data += self.location": "data + loc", "data = data + self.location": "data + loc"}
            if test in tests and body in bodies:
                steps.append(f"let data := if {tests[test]} then {bodies[body]} else data")
                continue
            raise TieBroken("smooth: unrecognised conditional statement: " + src)
        if isinstance(st, ast.If) and ast.unparse(st.test) == "in_data.ndim == 4":
            break                      # `# Write out data`
        raise TieBroken("smooth: unrecognised statement after the inverse transform: " + src)
    if not started:
        raise TieBroken("smooth: inverse-transform statement not found")
    sl = _assign(sm, "slicer", TieBroken)
    if not (isinstance(sl, ast.Call) and ast.unparse(sl.func) == "tuple" and isinstance(sl.args[0], ast.GeneratorExp)
            and isinstance(sl.args[0].elt, ast.Call) and ast.unparse(sl.args[0].elt.func) == "slice"
            and len(sl.args[0].elt.args) == 2
            and ast.unparse(sl.args[0].generators[0].iter) == "range(len(self.bshape))"):
        raise TieBroken("smooth: slicer is not tuple(slice(a, b) for i in range(len(self.bshape))): " + ast.unparse(sl))
    t = _Tr({"self._kcenter[i]": "(kc : Rat)", "self.bshape[i]": "(n : Rat)"}, TieBroken, "smooth slicer")
    w_start, w_stop = t.tr(sl.args[0].elt.args[0]), t.tr(sl.args[0].elt.args[1])
    ps = _func(ks, "_presmooth", TieBroken, "LinearFilter")
    if ast.unparse(_assign(ps, "slices", TieBroken)) != "[slice(0, self.bshape[i], 1) for i in range(len(self.shape))]" \
            or ast.unparse(_assign(ps, "_buffer", TieBroken)) != "np.zeros(self.shape)" \
            or ast.unparse(_ret(ps, TieBroken)) != "fft.rfftn(_buffer)":
        raise TieBroken("_presmooth: not the zero buffer of self.shape with the data in its corner")

    # ---------------- _crop ---------------------------------------------------------------------
    cr = _func(ks, "_crop", TieBroken)
    d = dict(zip([a.arg for a in cr.args.args][-len(cr.args.defaults):], cr.args.defaults))
    if "tol" not in d or not isinstance(d["tol"], ast.Constant):
        raise TieBroken("_crop: no constant default for tol")
    tol = _Tr({}, TieBroken, "_crop").num(d["tol"].value, d["tol"])
    if ast.unparse(_assign(cr, "I", TieBroken)) != "np.indices(X.shape)[:, np.greater(aX, tol)]" \
            or ast.unparse(_assign(cr, "aX", TieBroken)) != "np.fabs(X)":
        raise TieBroken("_crop: the support is not np.greater(np.fabs(X), tol)")
    mm = [n.value for n in ast.walk(cr) if isinstance(n, ast.Assign) and ast.unparse(n.targets[0]) == "m"]
    if len(mm) != 2 or ast.unparse(mm[0]) != "[I[i].min() for i in range(n)]" \
            or ast.unparse(_assign(cr, "M", TieBroken)) != "[I[i].max() for i in range(n)]":
        raise TieBroken("_crop: m / M are not the per-axis minima / maxima of the support indices")
    if not (isinstance(mm[1], ast.ListComp) and ast.unparse(mm[1].generators[0].iter) == "X.shape"
            and isinstance(mm[1].elt, ast.BinOp) and isinstance(mm[1].elt.op, ast.FloorDiv)
            and isinstance(mm[1].elt.right, ast.Constant) and mm[1].elt.right.value == 2):
        raise TieBroken("_crop: empty-case corner is not [e // 2 for s in X.shape]: " + ast.unparse(mm[1]))
    t = _Tr({"s": "((s : Int) : Rat)"}, TieBroken, "_crop empty corner")
    empty_corner = t.tr(mm[1].elt.left)
    bs = _assign(cr, "slices", TieBroken)
    if not (isinstance(bs, ast.ListComp) and isinstance(bs.elt, ast.Call) and ast.unparse(bs.elt.func) == "slice"
            and len(bs.elt.args) == 3 and ast.unparse(bs.elt.args[2]) == "1"):
        raise TieBroken("_crop: box is not [slice(a, b, 1) for i in range(n)]")
    t = _Tr({"m[i]": "(m : Rat)", "M[i]": "(M : Rat)"}, TieBroken, "_crop box")
    b_start, b_stop = t.tr(bs.elt.args[0]), t.tr(bs.elt.args[1])

    # ---------------- widths --------------------------------------------------------------------
    def width(fn_name, var):
        fn = _func(ks, fn_name, TieBroken)
        t_ = _Tr({var: "x"}, TieBroken, fn_name)
        e = t_.tr(_ret(fn, TieBroken))
        if len(t_.consts) != 1:
            raise TieBroken(f"{fn_name}: expected one sqrt(a * log(b)) constant")
        return e, t_.consts[0]
    f2s, c1 = width("fwhm2sigma", "fwhm")
    s2f, c2 = width("sigma2fwhm", "sigma")

    # ---------------- defaults ------------------------------------------------------------------
    init = _func(ks, "__init__", TieBroken, "LinearFilter")
    names = [a.arg for a in init.args.args]
    dd = dict(zip(names[-len(init.args.defaults):], init.args.defaults))
    for key in ("fwhm", "scale", "location", "cov"):
        if key not in dd or not isinstance(dd[key], ast.Constant):
            raise TieBroken(f"LinearFilter.__init__: no constant default for {key}")
    if dd["cov"].value is not None:
        raise TieBroken("LinearFilter.__init__: cov does not default to None")
    if ast.unparse(init.body[-1]) != "self._setup_kernel()":
        raise TieBroken("LinearFilter.__init__ does not end with self._setup_kernel()")
    stored = [ast.unparse(s) for s in init.body if isinstance(s, ast.Assign)]
    for want in ("self.coordmap = coordmap", "self.bshape = shape", "self.fwhm = fwhm", "self.scale = scale",
                 "self.location = location", "self.cov = cov"):
        if want not in stored:
            raise TieBroken("LinearFilter.__init__: missing " + want)
    cls = next(n for n in ast.walk(ks) if isinstance(n, ast.ClassDef) and n.name == "LinearFilter")
    dn = [s.value.value for s in cls.body if isinstance(s, ast.Assign) and ast.unparse(s.targets[0]) == "normalization"
          and isinstance(s.value, ast.Constant)]
    if len(dn) != 1:
        raise TieBroken("LinearFilter.normalization: no constant class attribute")
    nr = [ast.unparse(n.test) for n in ast.walk(sm) if isinstance(n, (ast.If,))]
    if "inimage.ndim == 4" not in nr or "inimage.ndim == 3" not in nr:
        raise TieBroken("smooth: the ndim dispatch changed")
    first = next(n for n in sm.body if isinstance(n, ast.If))
    four_d_refused = isinstance(first.body[0], ast.Raise) and "NotImplementedError" in ast.unparse(first.body[0])

    # ---------------- fwhm.py -------------------------------------------------------------------
    def resel(fn_name, var):
        fn = _func(fw, fn_name, TieBroken, "Resels")
        t_ = _Tr({var: "x", "self.wedge": "w"}, TieBroken, "Resels." + fn_name)
        e = t_.tr(_ret(fn, TieBroken))
        if len(t_.consts) != 1:
            raise TieBroken(f"Resels.{fn_name}: expected one sqrt(a * log(b)) constant")
        return e, t_.consts[0]
    r2f, c3 = resel("resel2fwhm", "resels")
    f2r, c4 = resel("fwhm2resel", "fwhm")
    dl = _func(fw, "_calc_detlam", TieBroken)
    t = _Tr({v: v for v in ("xx", "yy", "zz", "yx", "zx", "zy")}, TieBroken, "_calc_detlam")
    detlam = t.tr(_ret(dl, TieBroken))
    wedge = _assign(_func(fw, "__init__", TieBroken, "Resels"), "self.wedge", TieBroken)
    if ast.unparse(wedge) != "np.power(np.fabs(det(_transform)), 1.0 / self.D)":
        raise TieBroken("Resels.__init__: wedge is not |det(affine)| ** (1/D): " + ast.unparse(wedge))

    # ---------------- emit ----------------------------------------------------------------------
    w("/- GENERATED by harness/props/c18_translate.py from nipy/algorithms/kernel_smooth.py and")
    w("   nipy/algorithms/fwhm.py — do not edit.  Props/C18D.lean proves that these are what the model implements. -/")
    w("import NipyVerif.Model.C18C")
    w("namespace NipyVerif.C18.Gen")
    w("")
    w("/-- `self.shape = …` of `_setup_kernel`, per axis (`n` = grid length, `k` = cropped kernel length) -/")
    w(f"def padLenSrc (n k : Nat) : Rat := {pad}")
    w("/-- `vox_center = …` of `_setup_kernel`, per axis -/")
    w(f"def centreSrc (n : Nat) : Rat := {cen}")
    w("/-- an entry of `self._kcenter` (`c` = centre voxel, `m` = corner of the crop box) -/")
    w(f"def kcenterSrc (c m : Int) : Rat := {kcen}")
    w("/-- `self.norms`: key and reduction, in source order -/")
    w("def normsTable : List (String × String) := [" + ", ".join(f"({_lean_str(a)}, {_lean_str(b)})" for a, b in ntab) + "]")
    w("/-- `__call__`: `_normsq(X) / halving`, `less_equal(·, cutoff)`, `exp(-minimum(·, clamp)) * t` with `E q = exp (-q)` -/")
    w(f"def halving : Rat := {halving}")
    w(f"def cutoff : Rat := {cutoff}")
    w(f"def clamp : Rat := {clamp}")
    w("def callSrc (E : Rat → Rat) (d2 : Rat) : Rat :=")
    w("  let q := d2 / halving")
    w("  let t : Rat := if q ≤ cutoff then 1 else 0")
    w("  E (min q clamp) * t")
    w("/-- `smooth`: the statements after the inverse transform (`conv` = its output), in source order -/")
    w("def outSrc (scale loc norm conv : Rat) : Rat :=")
    for s_ in steps:
        w("  " + s_)
    w("  data")
    w("/-- `smooth`: the output window on one axis (`kc` = centre index, `n` = grid length): start, stop -/")
    w(f"def windowSrc (kc n : Nat) : Rat × Rat := ({w_start}, {w_stop})")
    w("/-- `_crop`: default tolerance; corner of the empty case; start and stop of the box on one axis -/")
    w(f"def cropTol : Rat := {tol}")
    w(f"def cropEmptyCornerSrc (s : Nat) : Int := Rat.floor ({empty_corner} / 2)")
    w(f"def cropBoxSrc (m M : Nat) : Rat × Rat := ({b_start}, {b_stop})")
    w("/-- width conversions; `c` stands for `sqrt(a * log(b))` with `(a, b)` = `widthConst` -/")
    w(f"def fwhm2sigmaSrc (c x : Rat) : Rat := {f2s}")
    w(f"def sigma2fwhmSrc (c x : Rat) : Rat := {s2f}")
    w(f"def widthConst : List (Nat × Nat) := [({c1[0]}, {c1[1]}), ({c2[0]}, {c2[1]})]")
    w("/-- `Resels` conversions; `c` = `sqrt(a * log(b))` with `(a, b)` = `reselConst`, `w` = wedge, `root` = D-th root -/")
    w(f"def resel2fwhmSrc (c w root : Rat) : Rat := {r2f}")
    w(f"def fwhm2reselSrc (c w : Rat) (D : Nat) (x : Rat) : Rat := {f2r}")
    w(f"def reselConst : List (Nat × Nat) := [({c3[0]}, {c3[1]}), ({c4[0]}, {c4[1]})]")
    w(f"def calcDetlamSrc (xx yy zz yx zx zy : Rat) : Rat := {detlam}")
    w("/-- constructor defaults (`fwhm`, `scale`, `location`), default normalisation key, 4-D input refused -/")
    tn = _Tr({}, TieBroken, "defaults")
    w(f"def defaults : List Rat := [{tn.num(dd['fwhm'].value, dd['fwhm'])}, {tn.num(dd['scale'].value, dd['scale'])}, "
      f"{tn.num(dd['location'].value, dd['location'])}]")
    w(f"def defaultNormalization : String := {_lean_str(dn[0])}")
    w(f"def fourDRefused : Bool := {'true' if four_d_refused else 'false'}")
    w("")
    w("end NipyVerif.C18.Gen")
    return [("NipyVerif/Gen/C18Source.lean", "\n".join(out) + "\n")]
