"""C14 translator: regenerates lean/NipyVerif/Gen/C14Source.lean from the *text* of
nipy/algorithms/clustering/utils.py and hierarchical_clustering.py.

Formula-like source is turned into Lean terms (not strings) by a small expression translator over the Python
AST, so that `Props/C14Source.lean` proves - for all arguments - that the regenerated expression is what the
model implements:

* `_EStep`: the per-feature term of `dist = np.sum((x - centers[q]) ** 2, 1)`, the update test `dist < mindist`;
* `_kmeans`: the stopping test `np.sum((centers_old - centers) ** 2) < delta * vdata` (term and test), what the
  `else` of the outer loop returns;
* `kmeans`: the acceptance test of a labelling, the substituted `delta` (binary64 value of the literal) and
  `maxiter`, the order of the two tests;
* `_inertia`: the accumulators and the per-feature term of `np.sum(q - (s ** 2 / n))`;
* `ward` / `ward_quick`: the stored height `max(cost, height[i], height[j])`; `average_link_graph`: the stored
  similarity, the weights `fi`, `fj` of `fusion`, `pop[k]`;
* `*_segment`: the `qmax == -1` replacement, the `stop == -1` replacement, the guards and the argument of
  `partition`, as functions of (kind, n, qmax, stop);
* `WeightedForest.partition` / `split` / `check_compatible_height`: the comparison operators and the statements
  of `split` as text.

Anything the translator does not recognise raises TieBroken (a broken obligation), as does a proof in
Props/C14Source.lean that no longer goes through for the regenerated term.
"""
from __future__ import annotations

import ast
import os
from fractions import Fraction


def _lean_str(s: str) -> str:
    return '"' + s.replace("\\", "\\\\").replace('"', '\\"').replace("\n", "\\n") + '"'


class _Tr:
    """expression translator: Python AST -> Lean term (Rat / Int arithmetic, Bool tests)"""

    def __init__(self, env, TieBroken, where, ty="Rat"):
        self.env, self.TieBroken, self.where, self.ty = env, TieBroken, where, ty

    def fail(self, node, why="unsupported"):
        raise self.TieBroken(f"{self.where}: {why}: {ast.unparse(node)}")

    def num(self, v, node):
        if isinstance(v, bool) or not isinstance(v, (int, float)):
            self.fail(node, "non-numeric constant")
        if isinstance(v, float):
            f = Fraction(v)          # the binary64 value of the literal
            if self.ty != "Rat":
                self.fail(node, "float in an integer expression")
        else:
            f = Fraction(v)
        if f.denominator == 1:
            return f"({f.numerator} : {self.ty})"
        return f"(({f.numerator} : Rat) / {f.denominator})"

    def tr(self, n):
        src = ast.unparse(n)
        if src in self.env:
            return self.env[src]
        if isinstance(n, ast.Constant):
            return self.num(n.value, n)
        if isinstance(n, ast.UnaryOp) and isinstance(n.op, ast.USub):
            if isinstance(n.operand, ast.Constant):
                return self.num(-n.operand.value, n)
            return f"(-{self.tr(n.operand)})"
        if isinstance(n, ast.BinOp):
            if isinstance(n.op, ast.Pow):
                if not (isinstance(n.right, ast.Constant) and isinstance(n.right.value, int) and n.right.value >= 0):
                    self.fail(n, "power with a non-literal exponent")
                return f"({self.tr(n.left)} ^ {n.right.value})"
            op = {ast.Add: "+", ast.Sub: "-", ast.Mult: "*", ast.Div: "/"}.get(type(n.op))
            if op is None or (op == "/" and self.ty != "Rat"):
                self.fail(n)
            return f"({self.tr(n.left)} {op} {self.tr(n.right)})"
        if isinstance(n, ast.Call):
            f = ast.unparse(n.func)
            if f in ("max", "min") and len(n.args) >= 2 and not n.keywords:
                out = self.tr(n.args[-1])
                for a in reversed(n.args[:-1]):
                    out = f"({f} {self.tr(a)} {out})"
                return out
            if f == "float" and len(n.args) == 1:
                return self.tr(n.args[0])
        self.fail(n)

    def test(self, n):
        """a comparison / conjunction -> Lean Bool"""
        if isinstance(n, ast.BinOp) and isinstance(n.op, ast.BitAnd):
            return f"({self.test(n.left)} && {self.test(n.right)})"
        if isinstance(n, ast.BoolOp) and isinstance(n.op, ast.And):
            return "(" + " && ".join(self.test(v) for v in n.values) + ")"
        if isinstance(n, ast.Compare) and len(n.ops) == 1:
            op = {ast.Lt: "<", ast.LtE: "≤", ast.Gt: ">", ast.GtE: "≥", ast.Eq: "="}.get(type(n.ops[0]))
            if op is None:
                self.fail(n)
            return f"decide ({self.tr(n.left)} {op} {self.tr(n.comparators[0])})"
        self.fail(n, "not a test")


def _func(tree, name, TieBroken, cls=None):
    scope = tree
    if cls:
        scope = next((n for n in ast.walk(tree) if isinstance(n, ast.ClassDef) and n.name == cls), None)
        if scope is None:
            raise TieBroken(f"class {cls} not found")
    for n in ast.walk(scope):
        if isinstance(n, ast.FunctionDef) and n.name == name:
            return n
    raise TieBroken(f"function {name} not found")


def _assigns(fn, target):
    return [n.value for n in ast.walk(fn)
            if isinstance(n, ast.Assign) and any(ast.unparse(t) == target for t in n.targets)]


def _one(vals, what, TieBroken):
    if len(vals) != 1:
        raise TieBroken(f"{what}: {len(vals)} assignments (one expected)")
    return vals[0]


def _sum_arg(node, TieBroken, where, axis=None):
    """np.sum(<term>[, axis]) -> <term>"""
    if not (isinstance(node, ast.Call) and ast.unparse(node.func) == "np.sum" and not node.keywords):
        raise TieBroken(f"{where}: not an np.sum(...): {ast.unparse(node)}")
    want = 1 if axis is None else 2
    if len(node.args) != want or (axis is not None and ast.unparse(node.args[1]) != str(axis)):
        raise TieBroken(f"{where}: unexpected arguments of np.sum: {ast.unparse(node)}")
    return node.args[0]


def translate(repo, TieBroken):
    def parse(rel):
        try:
            return ast.parse(open(os.path.join(repo, rel)).read())
        except Exception as e:  # pragma: no cover
            raise TieBroken(f"{rel} does not parse: {e}")

    ut = parse("nipy/algorithms/clustering/utils.py")
    hc = parse("nipy/algorithms/clustering/hierarchical_clustering.py")
    out = []
    w = out.append
    w("/- GENERATED by harness/props/c14_translate.py from nipy/algorithms/clustering/utils.py and\n"
      "   hierarchical_clustering.py — do not edit.  Props/C14Source.lean proves that these are what the model\n"
      "   implements. -/\n"
      "namespace NipyVerif.C14.Gen\n")

    # ---- _EStep ------------------------------------------------------------------------
    fn = _func(ut, "_EStep", TieBroken)
    dist = _one(_assigns(fn, "dist"), "_EStep: dist", TieBroken)
    term = _sum_arg(dist, TieBroken, "_EStep: dist", axis=1)
    t = _Tr({"x": "x", "centers[q]": "c"}, TieBroken, "_EStep")
    w("/-- `_EStep`: per-feature term of `dist = np.sum(…, 1)` (`c` = `centers[q]`) -/\n"
      f"def estepTermSrc (x c : Rat) : Rat := {t.tr(term)}\n")
    upd = [n for n in ast.walk(fn) if isinstance(n, ast.Assign) and ast.unparse(n.value) == "q"
           and isinstance(n.targets[0], ast.Subscript) and ast.unparse(n.targets[0].value) == "z"]
    if len(upd) != 1:
        raise TieBroken("_EStep: no single `z[...] = q`")
    t = _Tr({"dist": "dist", "mindist": "mindist"}, TieBroken, "_EStep")
    w("/-- `_EStep`: the items whose label becomes `q` -/\n"
      f"def estepUpdateSrc (dist mindist : Rat) : Bool := {t.test(upd[0].targets[0].slice)}\n")
    md = [ast.unparse(v) for v in _assigns(fn, "mindist")]
    w(f"def estepMindistSrc : List String := [{', '.join(_lean_str(v) for v in md)}]\n")

    # ---- _kmeans -----------------------------------------------------------------------
    fn = _func(ut, "_kmeans", TieBroken)
    brk = [n for n in ast.walk(fn) if isinstance(n, ast.If) and any(isinstance(b, ast.Break) for b in n.body)]
    if len(brk) != 1 or not (isinstance(brk[0].test, ast.Compare) and len(brk[0].test.ops) == 1):
        raise TieBroken("_kmeans: no single `if <test>: break`")
    tst = brk[0].test
    term = _sum_arg(tst.left, TieBroken, "_kmeans: stop test")
    t = _Tr({"centers_old": "a", "centers": "b"}, TieBroken, "_kmeans")
    w("/-- `_kmeans`: per-entry term of the movement `np.sum(…)` of the stop test -/\n"
      f"def movedTermSrc (a b : Rat) : Rat := {t.tr(term)}\n")
    t = _Tr({ast.unparse(tst.left): "moved", "delta": "delta", "vdata": "vdata"}, TieBroken, "_kmeans")
    w("/-- `_kmeans`: the stop test (`moved` = the movement) -/\n"
      f"def stopSrc (moved delta vdata : Rat) : Bool := {t.test(tst)}\n")
    w(f"def vdataSrc : String := {_lean_str(ast.unparse(_one(_assigns(fn, 'vdata'), '_kmeans: vdata', TieBroken)))}\n")
    outer = next((n for n in fn.body if isinstance(n, ast.For)), None)
    if outer is None or not outer.orelse:
        raise TieBroken("_kmeans: the outer loop has no else clause")
    w("/-- `_kmeans`: the `else` of the outer loop (what is returned), and the return statement -/\n"
      f"def kmeansElseSrc : List String := [{', '.join(_lean_str(ast.unparse(s)) for s in outer.orelse)}]\n"
      f"def kmeansReturnSrc : String := {_lean_str(ast.unparse(fn.body[-1]))}\n"
      f"def kmeansLoopsSrc : List String := [{_lean_str(ast.unparse(outer.iter))}, "
      f"{_lean_str(next(ast.unparse(n.iter) for n in ast.walk(outer) if isinstance(n, ast.For) and n is not outer))}]\n")

    # ---- kmeans (wrapper) --------------------------------------------------------------
    fn = _func(ut, "kmeans", TieBroken)
    ok = _one(_assigns(fn, "OK"), "kmeans: OK", TieBroken)
    t = _Tr({"Labels.min()": "mn", "Labels.max()": "mx", "nbclusters": "k"}, TieBroken, "kmeans", ty="Int")
    w("/-- `kmeans`: the acceptance test of a labelling (`mn`, `mx` its extreme entries) -/\n"
      f"def labelsOKSrc (mn mx k : Int) : Bool := {t.test(ok)}\n")
    sub_delta = [v for v in _assigns(fn, "delta") if isinstance(v, ast.Constant)]
    sub_iter = [v for v in _assigns(fn, "maxiter") if isinstance(v, ast.Constant)]
    d = _one(sub_delta, "kmeans: substituted delta", TieBroken)
    m = _one(sub_iter, "kmeans: substituted maxiter", TieBroken)
    w("/-- `kmeans`: what replaces a negative `delta` (binary64 value of the literal) and a non-positive `maxiter` -/\n"
      f"def deltaDefaultSrc : Rat := {_Tr({}, TieBroken, 'kmeans').num(d.value, d)}\n"
      f"def maxiterDefaultSrc : Int := {_Tr({}, TieBroken, 'kmeans', ty='Int').num(m.value, m)}\n")
    # the nest of tests, in order
    tests = []
    node = next((n for n in fn.body if isinstance(n, ast.If) and ast.unparse(n.test) == "Labels is not None"), None)
    while node is not None:
        tests.append(ast.unparse(node.test))
        node = next((n for n in node.body if isinstance(n, ast.If)), None)
    w(f"def wrapperTestsSrc : List String := [{', '.join(_lean_str(v) for v in tests)}]\n")
    clamps = [ast.unparse(n.test) + " ↦ " + ast.unparse(n.body[-1]) for n in fn.body
              if isinstance(n, ast.If) and ast.unparse(n.test).startswith("nbclusters")]
    w(f"def clampsSrc : List String := [{', '.join(_lean_str(v) for v in clamps)}]\n")

    # ---- _inertia ----------------------------------------------------------------------
    fn = _func(hc, "_inertia", TieBroken)
    acc = [(nm, ast.unparse(_one(_assigns(fn, nm), f"_inertia: {nm}", TieBroken))) for nm in ("n", "s", "q")]
    ret = next((s for s in fn.body if isinstance(s, ast.Return)), None)
    if ret is None:
        raise TieBroken("_inertia: no return")
    term = _sum_arg(ret.value, TieBroken, "_inertia")
    t = _Tr({"n": "n", "s": "s", "q": "q"}, TieBroken, "_inertia")
    w("/-- `_inertia`: the accumulators and the per-feature term of the returned `np.sum(…)` -/\n"
      f"def inertiaAccSrc : List (String × String) := [{', '.join('(' + _lean_str(a) + ', ' + _lean_str(b) + ')' for a, b in acc)}]\n"
      f"def inertiaTermSrc (n s q : Rat) : Rat := {t.tr(term)}\n")

    # ---- heights -----------------------------------------------------------------------
    for name in ("ward", "ward_quick", "average_link_graph"):
        fn = _func(hc, name, TieBroken)
        h = _one(_assigns(fn, "height[k]"), f"{name}: height[k]", TieBroken)
        t = _Tr({"cost": "cost", "height[i]": "hi", "height[j]": "hj"}, TieBroken, name)
        lean = {"ward": "wardHeightSrc", "ward_quick": "wardQuickHeightSrc", "average_link_graph": "avgHeightSrc"}[name]
        w(f"/-- `{name}`: what is stored for the new node -/\n"
          f"def {lean} (cost hi hj : Rat) : Rat := {t.tr(h)}\n")
        pick = [ast.unparse(v) for v in _assigns(fn, "m") if "arg" in ast.unparse(v)] if name != "ward_quick" else []
        if name != "ward_quick":
            w(f"def {lean[:-9]}PickSrc : List String := [{', '.join(_lean_str(v) for v in pick)}]\n")
    fn = _func(hc, "average_link_graph", TieBroken)
    w(f"def avgPopSrc : String := {_lean_str(ast.unparse(_one(_assigns(fn, 'pop[k]'), 'pop[k]', TieBroken)))}\n")
    post = [ast.unparse(n) for n in fn.body if isinstance(n, ast.Assign) and ast.unparse(n.targets[0]).startswith("height[")]
    w(f"def avgPostSrc : List String := [{', '.join(_lean_str(v) for v in post)}]\n")

    # ---- fusion ------------------------------------------------------------------------
    fn = _func(hc, "fusion", TieBroken)
    t = _Tr({"pop[i]": "pi", "pop[k]": "pk"}, TieBroken, "fusion")
    w("/-- `fusion`: the weights of the two merged nodes -/\n"
      f"def fusionFiSrc (pi pk : Rat) : Rat := {t.tr(_one(_assigns(fn, 'fi'), 'fusion: fi', TieBroken))}\n")
    t = _Tr({"fi": "fi"}, TieBroken, "fusion")
    w(f"def fusionFjSrc (fi : Rat) : Rat := {t.tr(_one(_assigns(fn, 'fj'), 'fusion: fj', TieBroken))}\n")

    # ---- *_segment ---------------------------------------------------------------------
    kinds = [("ward_segment", 0), ("ward_quick_segment", 1), ("average_link_graph_segment", 2)]
    qrows, srows, prows = [], [], []
    for name, kind in kinds:
        fn = _func(hc, name, TieBroken)
        qdef, sdef = None, None
        for n in fn.body:
            if isinstance(n, ast.If) and ast.unparse(n.test).replace(" ", "") in ("qmax==-1",):
                t = _Tr({"n": "n"}, TieBroken, name, ty="Int")
                qdef = t.tr(n.body[0].value)
            if isinstance(n, ast.If) and ast.unparse(n.test).replace(" ", "") in ("stop==-1",):
                if ast.unparse(n.body[0].value) != "np.inf":
                    raise TieBroken(f"{name}: stop == -1 replaced by {ast.unparse(n.body[0].value)}")
                sdef = True
        clampq = ast.unparse(_one([v for v in _assigns(fn, "qmax") if "minimum" in ast.unparse(v)],
                                  f"{name}: qmax clamp", TieBroken))
        if clampq != "int(np.minimum(qmax, n))":
            raise TieBroken(f"{name}: qmax clamp is {clampq}")
        part = None
        for n in fn.body:
            if isinstance(n, ast.If) and any("partition" in ast.unparse(b) for b in n.body):
                if ast.unparse(n.test) != "stop >= 0":
                    raise TieBroken(f"{name}: partition guarded by {ast.unparse(n.test)}")
                call = n.body[0].value
                part = ast.unparse(call.args[0]).replace(" ", "")
            if isinstance(n, ast.If) and any("split" in ast.unparse(b) for b in n.body):
                if ast.unparse(n.test) != "qmax > 0" or ast.unparse(n.body[0].value) != "t.split(qmax)":
                    raise TieBroken(f"{name}: split guarded by {ast.unparse(n.test)}")
        if part not in ("stop", "-stop"):
            raise TieBroken(f"{name}: partition argument {part}")
        choose = next((ast.unparse(n.test) for n in fn.body if isinstance(n, ast.If) and "u1.max()" in ast.unparse(n.test)), None)
        if choose != "u1.max() < u2.max()":
            raise TieBroken(f"{name}: the larger labelling is chosen by {choose}")
        qrows.append((kind, qdef))
        srows.append((kind, bool(sdef)))
        prows.append((kind, part == "-stop"))
    w("/-- `*_segment` (`kind` 0 = `ward_segment`, 1 = `ward_quick_segment` / `ward_field_segment`, 2 =\n"
      "    `average_link_graph_segment`): `qmax` after the `qmax == -1` replacement (before the clamp to `n`) -/\n"
      "def segQmaxSrc (kind : Nat) (n qmax : Int) : Int :=\n" +
      "".join(f"  if kind = {k} then {('(if qmax = -1 then ' + q + ' else qmax)') if q else 'qmax'} else\n" for k, q in qrows) +
      "  qmax\n")
    w("/-- `*_segment`: is `stop == -1` replaced by `np.inf`; is `partition` called with `-stop` -/\n"
      f"def segStopInfSrc : List (Nat × Bool) := [{', '.join(f'({k}, {str(b).lower()})' for k, b in srows)}]\n"
      f"def segNegStopSrc : List (Nat × Bool) := [{', '.join(f'({k}, {str(b).lower()})' for k, b in prows)}]\n")
    fn = _func(hc, "ward_field_segment", TieBroken)
    w(f"def fieldSegmentSrc : String := {_lean_str(ast.unparse(fn.body[-2]))}\n")

    # ---- WeightedForest ----------------------------------------------------------------
    fn = _func(hc, "partition", TieBroken, cls="WeightedForest")
    w(f"def partitionSrc : List String := [{', '.join(_lean_str(ast.unparse(s)) for s in fn.body[1:])}]\n")
    fn = _func(hc, "split", TieBroken, cls="WeightedForest")
    w(f"def splitSrc : List String := [{', '.join(_lean_str(ast.unparse(s)) for s in fn.body[1:])}]\n")
    fn = _func(hc, "check_compatible_height", TieBroken, cls="WeightedForest")
    tst = next((n.test for n in ast.walk(fn) if isinstance(n, ast.If)), None)
    t = _Tr({"self.height[self.parents[i]]": "hp", "self.height[i]": "hv"}, TieBroken, "check_compatible_height")
    w("/-- `check_compatible_height`: the test that makes the answer `False` -/\n"
      f"def chkHeightBadSrc (hp hv : Rat) : Bool := {t.test(tst)}\n")
    w("\nend NipyVerif.C14.Gen\n")
    return [("NipyVerif/Gen/C14Source.lean", "\n".join(out))]
