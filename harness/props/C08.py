"""C08 — spatial transforms compose, invert and parametrise consistently.

Correspondence: `rotation_vec2mat`, `as_affine` (= `to_matrix44` + reflection flag),
`param` get/set, `from_matrix44` sign conventions, `compose` class dispatch + product,
`inv`, compose/inv programs (affine family and generic `Transform`), `ChainTransform.apply`
and `PolyAffine.apply` against the Lean model (exact rationals, tolerant compare).
Second part (harness/props/c08_ext.py, Model/C08B.lean): `rotation_mat2vec` and `from_matrix44`
in full with certified leaves, `to_matrix44` for every size / dtype, `slices2aff`,
`subgrid_affine`, `inverse_affine`, constructors + operation histories on one object,
`ChainTransform` construction rules and `param` histories, `PolyAffine` in full.
Translator (harness/props/c08_tables.py): the literal tables and constants of affine.py /
polyaffine.{py,c} are regenerated into Gen/C08Tables.lean, which the model is defined from.
Expression translator (harness/props/c08_source.py): the bodies of rotation_vec2mat, to_matrix44,
threshold, preconditioner, _get_param / _set_param, as_affine, compose / inv, the three from_matrix44,
Transform.compose,
ChainTransform.apply, PolyAffine.apply / compose / left_compose and the static helpers of
polyaffine.c are regenerated as Lean terms into Gen/C08Source.lean; Props/C08Source.lean proves
they are what the model implements.  Wave 4 (harness/props/c08_w4.py): `apply` on every dtype /
layout / batch shape of a point set, pickled / copied transforms; `inv()` and pickling inside
operation histories.
Oracle: the property's clauses evaluated on the real code.
"""
from __future__ import annotations

import math
import warnings
from fractions import Fraction

import numpy as np

from harness.core import PropertyCheck
from harness.props import c08_ext, c08_source, c08_tables, c08_w4
from harness.props.c08_ext import ExtMixin, f44_leaves
from harness.util import Snapshot, errname, fr, frs, parse_rats

CLASSES = ["Affine", "Affine2D", "Rigid", "Rigid2D", "Similarity", "Similarity2D"]
INDS = {"Affine": list(range(12)), "Affine2D": [0, 1, 5, 6, 7, 11], "Rigid": list(range(6)),
        "Rigid2D": [0, 1, 5], "Similarity": list(range(7)), "Similarity2D": [0, 1, 5, 6]}
NPAR = {k: len(v) for k, v in INDS.items()}
# constants of affine.py as this check understands them (not read from /repo on purpose)
MAX_DIST = 1e10
LOG_MAX_DIST = float(np.log(1e10))
PI = math.pi

ANGLES = [0.0, 1e-3, 0.25, 0.5, 1.0, PI / 2, 2.0, 3.0, PI - 1e-3, PI, 3.5, 5.0, 2 * PI, 7.0]
EDGE_ANGLES = [1e-300, 1e-40, 1e-31, 1e-30, 2e-30, 1e-20, 1e-12, 1e-9, 1e-8, 2e-8, 5e-8, 1e-7, 1e-6,
               PI - 1e-6, PI - 1e-9, PI - 1e-12, PI + 1e-12, PI + 1e-9, 2 * PI - 1e-9, 2 * PI - 1e-6,
               50.0, 1e5, 6.2e10, 7e10, 1e12]
AXES = [(1, 0, 0), (0, 1, 0), (0, 0, 1), (-1, 0, 0), (0, 0, -1), (1, 1, 0), (1, 1, 1), (1, -2, 2),
        (3, 4, 0), (2, 3, 6), (-1, 4, 8), (0, -3, 4)]
TRANS = [0.0, 0.0, 1.0, -2.5, 10.0, -37.25, 64.0, 0.125, -0.5, 3.0]
LOGS = [0.0, 0.0, 0.25, -0.25, 0.5, -0.5, 1.0, -1.0, 0.6931471805599453, -1.3862943611198906, 0.125]
RADII = [100, 100, 100, 1, 10, 64, 0.5]
COORDS = [0.0, 1.0, -1.0, 2.0, 0.5, -3.25, 7.0, 16.0, -40.0, 100.0, 0.125, -0.75, 25.5]


def _axis(rng):
    a = rng.choice(AXES)
    n = math.sqrt(sum(x * x for x in a))
    return [x / n for x in a]


def _nat(rng, cls, edge=False, big=False):
    """12 natural parameters of a transform of class `cls` (zero outside its param_inds;
    similarity classes carry the replicated log-scale)."""
    inds = INDS[cls]
    v = [0.0] * 12
    for i in (0, 1, 2):
        if i in inds:
            v[i] = rng.choice(TRANS)
            if big and rng.random() < 0.3:
                v[i] = rng.choice([1e10, -3e10, 2.5e11, 9.99e9])
    for base in (3, 9):
        allowed = [i for i in range(base, base + 3) if i in inds]
        if not allowed:
            continue
        ang = rng.choice(EDGE_ANGLES) if (edge and rng.random() < 0.7) else rng.choice(ANGLES)
        if len(allowed) == 1:
            v[allowed[0]] = ang * rng.choice([1, -1])
        else:
            ax = _axis(rng)
            for k in range(3):
                v[base + k] = ang * ax[k]
    if cls in ("Similarity", "Similarity2D"):
        v[6] = v[7] = v[8] = rng.choice(LOGS)
    else:
        for i in (6, 7, 8):
            if i in inds:
                v[i] = rng.choice(LOGS)
                if big and rng.random() < 0.3:
                    v[i] = rng.choice([23.0, 23.5, 40.0, -23.5, -60.0])
    return v


def _spec(rng, cls=None, edge=False, big=False, allow_raw=True):
    cls = cls or rng.choice(CLASSES)
    via = rng.choice(["param", "param", "vec12", "m44", "m44neg"])
    s = {"cls": cls, "nat": _nat(rng, cls, edge, big), "radius": rng.choice(RADII), "via": via}
    if cls == "Affine" and allow_raw and rng.random() < 0.25:
        s["via"] = "raw44"
        s["raw"] = _raw34(rng)
    return s


def _raw34(rng):
    """dyadic 3x4 block with non-zero determinant of either sign, moderately conditioned"""
    while True:
        m = [[rng.choice([0, 0, 1, -1, 2, -2, 0.5, -0.5, 1.5, 3, 0.25]) for _ in range(3)] for _ in range(3)]
        F = [[Fraction(x) for x in r] for r in m]
        det = (F[0][0] * (F[1][1] * F[2][2] - F[1][2] * F[2][1]) - F[0][1] * (F[1][0] * F[2][2] - F[1][2] * F[2][0])
               + F[0][2] * (F[1][0] * F[2][1] - F[1][1] * F[2][0]))
        if abs(det) >= Fraction(1, 4):
            break
    t = [rng.choice(TRANS) for _ in range(3)]
    return [m[i] + [t[i]] for i in range(3)]


def _pts(rng, nmax=5):
    n = rng.choice([1, 1, 2, 3, nmax, 0]) if rng.random() < 0.9 else rng.choice([8, 13])
    return [[rng.choice(COORDS) for _ in range(3)] for _ in range(n)]


def _gen_spec(rng):
    return {"gen": rng.choice(["quad", "abs"])}


def _expr(rng, nleaves, depth, allow_inv=True):
    """prefix token list of a random compose/inv program"""
    if depth == 0 or rng.random() < 0.25:
        return ["L", rng.randrange(nleaves)]
    if allow_inv and rng.random() < 0.3:
        return ["I"] + _expr(rng, nleaves, depth - 1, allow_inv)
    return ["C"] + _expr(rng, nleaves, depth - 1, allow_inv) + _expr(rng, nleaves, depth - 1, allow_inv)


def _parse(tokens):
    """prefix tokens -> nested tuple, rest"""
    t = tokens[0]
    if t == "L":
        return ("L", tokens[1]), tokens[2:]
    if t == "I":
        a, r = _parse(tokens[1:])
        return ("I", a), r
    a, r = _parse(tokens[1:])
    b, r = _parse(r)
    return ("C", a, b), r


def _unparse(e):
    if e[0] == "L":
        return ["L", e[1]]
    if e[0] == "I":
        return ["I"] + _unparse(e[1])
    return ["C"] + _unparse(e[1]) + _unparse(e[2])


# ----------------------------------------------------------------------------
# helpers running in the worker
# ----------------------------------------------------------------------------
def _mods():
    from nipy.algorithms.registration import affine as A
    from nipy.algorithms.registration.transform import Transform
    return A, Transform


def _quad(pts):
    pts = np.asarray(pts, dtype=float)
    return np.stack([pts[:, 0] * pts[:, 1] + 1, pts[:, 1] - pts[:, 2], pts[:, 2] * pts[:, 0]], axis=1)


def _build(spec):
    A, Transform = _mods()
    if spec is None:
        return None
    if "gen" in spec:
        return Transform(_quad if spec["gen"] == "quad" else (lambda p: np.abs(np.asarray(p, dtype=float))))
    cls = getattr(A, spec["cls"])
    via = spec["via"]
    if via == "raw44":
        M = np.eye(4)
        M[:3, :] = np.array(spec["raw"], dtype=float)
        return cls(M, radius=spec["radius"])
    nat = np.array(spec["nat"], dtype=float)
    if via == "vec12":
        return cls(nat, radius=spec["radius"])
    t = cls(radius=spec["radius"])
    inds = INDS[spec["cls"]]
    pc = np.array([1, 1, 1] + [1.0 / spec["radius"]] * 9)
    t.param = nat[inds] / pc[inds]
    if via == "param":
        return t
    M = t.as_affine()
    if via == "m44neg":
        M[:3, :3] *= -1
    return cls(M, radius=spec["radius"])


def _a34(t):
    return np.asarray(t.as_affine(), dtype=float)[:3, :].ravel().tolist()


def _trig(r):
    r = np.asarray(r, dtype=float)
    theta = float(np.sqrt(np.sum(r ** 2)))
    return f"{fr(theta)} {fr(float(np.sin(theta)))} {fr(float(np.cos(theta)))}"


def _clip(x, th):
    return np.maximum(np.minimum(x, th), -th)


def _asaffine_line(t):
    v = np.asarray(t._vec12, dtype=float)
    sc = np.exp(_clip(v[6:9], LOG_MAX_DIST))
    return (f"asaffine {frs(v)} {1 if t._direct else 0} {_trig(v[3:6])} {frs(sc)} {_trig(v[9:12])}")


def _leaf_tok(spec, t):
    if spec is None:
        return "A Affine 1 0 0 0 0 1 0 0 0 0 1 0"
    if "gen" in spec:
        return "G " + spec["gen"]
    return f"A {spec['cls']} {frs(_a34(t))}"


def _ptok(pts):
    return f"{len(pts)} " + " ".join(frs(p) for p in pts) if len(pts) else "0"


def _mag(*arrs):
    m = 0.0
    for a in arrs:
        a = np.asarray(a, dtype=float)
        if a.size:
            m = max(m, float(np.max(np.abs(a))))
    return m


def _far(x, y, atol):
    x = np.asarray(x, dtype=float); y = np.asarray(y, dtype=float)
    if x.shape != y.shape:
        return f"shape {x.shape} vs {y.shape}"
    if x.size == 0:
        return None
    if not (np.all(np.isfinite(x)) and np.all(np.isfinite(y))):
        return "non-finite values"
    d = float(np.max(np.abs(x - y)))
    return None if d <= atol else f"max abs difference {d:.3g} (tolerance {atol:.3g})"


RT_DIRECT = 1e-10     # plain float evaluation of an exact rational formula
RT_ROUND = 5e-7       # values that went through from_matrix44 (SVD, quaternion, acos, log/exp)


class C08(c08_w4.W4Mixin, ExtMixin, PropertyCheck):
    id = "C08"
    title = "Spatial transforms compose, invert and parametrise consistently"
    lean_modules = ["NipyVerif.Props.C08", "NipyVerif.Props.C08B", "NipyVerif.Props.C08Source"]
    _build_spec = staticmethod(lambda spec: _build(spec))
    _quad = staticmethod(lambda pts: _quad(pts))
    _leaf_tok = staticmethod(lambda spec, t: _leaf_tok(spec, t))

    def translators(self):
        return [("NipyVerif/Gen/C08Tables.lean", c08_tables.lean_text()),
                ("NipyVerif/Gen/C08Source.lean", c08_source.lean_text())]
    driver = "Drivers/C08.lean"
    rule = ("cases are seeded: ordered class pairs (all 36, several parameter vectors each, built by "
            "param / 12-vector / 4x4 / negated 4x4 / raw dyadic 4x4), rotation vectors (angles incl. "
            "1e-300..1e-6, pi±1e-12..1e-3, >2pi, >MAX_ANGLE), 4x4 matrices of either determinant sign per "
            "class, well- and ill-formed parameter vectors, random compose/inv programs over affine and "
            "generic leaves, pre/opt/post chains, polyaffine compositions; rotation matrices for mat2vec "
            "(the 24 cube-group matrices, rotation vectors with angles 0..1e-5 around the identity threshold, "
            "pi±1e-15..1e-3 with mixed-sign axes, products of two rotations); to_matrix44 on every size 0..14 "
            "with double / int / float32 dtype and values beyond the thresholds; slices (None / int / "
            "non-integer start, step; 0..4 slices; mismatched shapes); constructor arguments (None, 12 "
            "numbers in 8 shapes as float / int array / list of ints, 4x4 of either determinant sign, refused "
            "shapes, non-arrays; radius incl. 0) followed by histories of 0..8 operations (param / "
            "translation / rotation / scaling / pre_rotation assignments well- and ill-formed, from_matrix44, "
            "copy); ChainTransform with every kind of pre / post / optimizable argument and 0..5 param "
            "assignments; PolyAffine with 1..6 centres, affines as transforms or arrays, scalar / vector / "
            "zero sigma, global affine as transform / array / None, apply / compose / left_compose, far "
            "points (weight underflow); wave 4: one transform (affine family / ChainTransform / PolyAffine "
            "with the global affine as transform, float64 / float32 / integer / Fortran array or list) applied "
            "to the same numbers as int8..int64 / uint8..uint32 / float32 / float64 arrays in C / Fortran / "
            "strided / negative-stride / last-axis-strided / read-only layout, nested lists and tuples, batch "
            "shapes (N,3) incl. N = 0, (3,), (A,B,3), (A,0,3), directly or after pickle / copy.copy / "
            "copy.deepcopy / copy() with the copy edited afterwards; histories also contain t = t.inv() and a "
            "pickle round trip; non-trivial = not the identity transform on an empty point set; "
            "distinct by full JSON of the case")
    assumptions = [
        "norm, sin, cos, exp of the parameter vector are parameters of the model: the harness passes "
        "np.sqrt(np.sum(r**2)), np.sin, np.cos, np.exp values as exact dyadic rationals",
        "scipy.linalg.svd factors, scipy.linalg.det, the cube root and log are *certified parameters* of the "
        "from_matrix44 model (U diag(s) Vt = A and cbrt^3 = |det| are evaluated exactly by the model and the "
        "residuals compared with 0 to 1e-13); exp(log s) = s is a hypothesis of the round-trip theorems",
        "rotation_mat2vec = transforms3d quat2axangle(mat2quat(R)): numpy.linalg.eigh's eigen-pair, the two "
        "rounded sums, math.sqrt (twice) and math.acos are certified parameters (K q = lam q, s^2 = Nq, "
        "cos/sin of the returned half angle on the unit circle with cos = clamped w: residuals evaluated "
        "exactly by the model, compared with 0 to 2e-14); the harness recomputes these leaves with the same "
        "NumPy / math calls on the same matrix and the model's vector is compared with nipy's to 1e-13; that "
        "cos/sin are the functions whose values certify acos, and the double-angle laws linking the half "
        "angle to rotation_vec2mat's sin / cos, are hypotheses of vec2mat_mat2vec",
        "transforms3d.quat2axangle uses 2*acos(w): rotations of angle <= ~2e-8 rad come back as the zero "
        "vector in floating point (w rounds to 1), so matrix -> vector -> matrix reproduces the matrix to "
        "2.2e-8 absolute only; tolerance 5e-7 relative on every value that went through from_matrix44, "
        "1e-10 on direct evaluations",
        "an integer-dtype _vec12 (Affine(list of 12 ints)) is modelled as it behaves (later assignments "
        "truncate towards zero); histories that leave the class of the object (e.g. scaling assigned to a "
        "Rigid) are tied to the model but not judged by the oracle (outside the property's quantifier)",
        "to_matrix44(dtype=int): an entry within 1e-9 of an integer may truncate either way (tolerance 1); "
        "float32 results are compared to 2e-7 relative",
        "Gaussian weights of PolyAffine (exp) are parameters of the model; the polyaffine.c kernel is "
        "rebuilt from /repo with gcc and called through ctypes, the .pyx argument checks are not exercised",
        "IEEE-754 rounding of matrix products / inverses is within the stated tolerances (scales in [1/4, 4])",
        "Gen/C08Source.lean holds the source's expressions with the transcendental / LAPACK / NumPy calls as named "
        "leaves (np.sqrt(np.sum(r ** 2)), np.sin, np.cos, np.exp(threshold(...)), spl.svd, spl.det as the exact "
        "determinant, spl.inv as the exact inverse, rotation_mat2vec as a function parameter, the cube root, "
        "np.log); a leaf is recognised by its exact text, conversions np.array / np.asarray(..., dtype='double') "
        "are value-preserving; the C helpers _gaussian / _add_weighted_affine / _apply_affine are read with a "
        "small C statement reader (counted for-loops unrolled, double arithmetic as exact rationals), the "
        "iterator loop of apply_polyaffine is tied as an ordered list of statements only",
        "shape cases: the argument checks of _registration.pyx (_apply_polyaffine / check_array) are re-stated "
        "in the harness wrapper around the rebuilt polyaffine.c, since the .pyx cannot be rebuilt; batch shapes "
        "other than (N, 3) are tied to the model for the affine family (apply_affine documents (..., 3)) but a "
        "refusal there is not an oracle failure; an empty point set cannot be presented as a nested list",
        "t = t.inv() inside a history is sent to the model only from well-conditioned states (cond < 50, "
        "entries of the matrix and of its inverse < 1e3, i.e. away from the MAX_DIST / LOG_MAX_DIST clipping); the state after it is compared to 1e-9 relative (the model inverts exactly, "
        "scipy.linalg.inv in binary64); re-assigning param = param is compared with an extra 1e-15 * |rotation "
        "vector| (an ulp of an angle near MAX_ANGLE is a visible rotation)",
    ]
    level_note = ("matrix -> vector -> matrix and as_affine ∘ from_matrix44 = id are proved for every "
                  "assignment of the transcendental / LAPACK leaves that satisfies their exact certificates "
                  "(vec2mat_mat2vec, from_to_matrix44, rigid_/similarity_from_to_matrix44, hist_inv_affine); in "
                  "floating point the certificates hold to ~1e-15 only, and the zero-angle branch of quat2axangle "
                  "(rotations below 3 eps) carries an explicit bound instead of equality "
                  "(mat2vec_identity_branch): 2*acos(w) cannot resolve such angles, so equality is false there. "
                  "The source's expressions (both branches and thresholds of rotation_vec2mat, to_matrix44 for "
                  "sizes 6 / 7 / 12, threshold, preconditioner, param get / set of all six classes, as_affine, compose / inv matrices, the three "
                  "from_matrix44 statement by statement, Transform.compose, ChainTransform.apply, PolyAffine "
                  "apply / compose / left_compose, the C helpers of polyaffine.c) are regenerated from the text "
                  "and proved to be the model's (C08Source: *_as_modelled), and 'every rotation vector yields a "
                  "proper rotation', compose = nested application, inverse maps back, chain = product of its "
                  "parts, the polyaffine kernel = Poly.applyW are stated of the text as written (*_from_source). "
                  "Not theorems: that binary64 sin / cos / sqrt / exp / svd / eigh satisfy their certificates "
                  "(checked per case to 1e-13..2e-14), the double-angle link between acos and sin / cos "
                  "(hypothesis of vec2mat_mat2vec: no real-analysis model of math.acos here), dtype / layout / "
                  "batch-shape independence of apply and pickling (NumPy semantics: oracle + row-wise tie), the "
                  "PyArray iterator loop of apply_polyaffine (ordered statement list + correspondence through the "
                  "rebuilt C)")
    finding_keys = {}

    # ------------------------------------------------------------------ generation
    def generate(self, rng, tier):
        q = tier == "quick"
        K = 4          # size multiplier (quick ~15 s, thorough ~2 min on 6 workers)
        cases = []
        try:    # build /repo's C kernels once, in the parent (workers then only load the cached .so)
            from harness import cshim
            cshim.build("registration")
        except Exception:
            pass
        # every ordered pair of classes, several parameterisations
        reps = K * (6 if q else 120)
        for ca in CLASSES:
            for cb in CLASSES:
                for k in range(reps):
                    edge = (k % 4 == 3)
                    cases.append({"kind": "pair", "a": _spec(rng, ca, edge=edge), "b": _spec(rng, cb, edge=edge),
                                  "pts": _pts(rng), "edge": edge})
        if not q:   # exhaustive: every ordered class pair x every construction route of both operands
            for ca in CLASSES:
                for cb in CLASSES:
                    for va in ("param", "vec12", "m44", "m44neg"):
                        for vb in ("param", "vec12", "m44", "m44neg"):
                            cases.append({"kind": "pair", "a": _spec(rng, ca, allow_raw=False) | {"via": va},
                                          "b": _spec(rng, cb, allow_raw=False) | {"via": vb},
                                          "pts": _pts(rng), "edge": False})
        for _ in range(K * (30 if q else 600)):   # thresholds of to_matrix44 (asaffine line only matters)
            cases.append({"kind": "pair", "a": _spec(rng, rng.choice(["Affine", "Affine2D", "Rigid"]), big=True,
                                                     allow_raw=False) | {"via": "vec12"},
                          "b": _spec(rng), "pts": _pts(rng), "edge": True, "big": True})
        # rotation vectors
        for ang in ANGLES + EDGE_ANGLES:
            for _ in range(K * (4 if q else 60)):
                ax = _axis(rng)
                cases.append({"kind": "rot", "r": [ang * x for x in ax]})
        cases.append({"kind": "rot", "r": [0.0, 0.0, 0.0]})
        for _ in range(K * (30 if q else 2000)):
            cases.append({"kind": "rot", "r": [rng.choice([0.0, 1e-31, 1e-9, 0.5, -1.25, 3.0, PI]) for _ in range(3)]})
        # 4x4 -> class -> 4x4
        for cls in CLASSES:
            for _ in range(K * (25 if q else 800)):
                cases.append({"kind": "from44", "cls": cls,
                              "spec": _spec(rng, cls, edge=rng.random() < 0.3) | ({"via": "param"} if cls != "Affine" else {}),
                              "neg": rng.random() < 0.5, "d0": rng.random() < 0.8, "pts": _pts(rng)})
        # parameter get / set
        for cls in CLASSES:
            for _ in range(K * (20 if q else 500)):
                n = NPAR[cls]
                r = rng.random()
                if r < 0.75:
                    ln = n
                else:
                    ln = rng.choice([0, 1, n - 1, n + 1, n + 3, 12])
                p = [rng.choice([0.0, 1.0, -2.0, 0.5, 10.0, -37.5, 50.0, 314.0, 0.25]) for _ in range(ln)]
                cases.append({"kind": "param", "cls": cls, "spec": _spec(rng, cls), "p": p, "pts": _pts(rng)})
        # compose / inv programs
        for _ in range(K * (250 if q else 12000)):
            nl = rng.choice([1, 2, 3, 4])
            leaves = []
            for _k in range(nl):
                leaves.append(_gen_spec(rng) if rng.random() < 0.15 else _spec(rng))
            while True:   # at most two uses of the (magnitude-squaring) quadratic generic leaf
                ex = _expr(rng, nl, rng.choice([1, 2, 3, 4]))
                uses = sum(1 for i, t in enumerate(ex) if t == "L" and leaves[ex[i + 1]].get("gen") == "quad")
                if uses <= 2:
                    break
            cases.append({"kind": "prog", "leaves": leaves, "expr": ex, "pts": _pts(rng, 3)})
        # registration chains
        for _ in range(K * (120 if q else 5000)):
            def side():
                r = rng.random()
                if r < 0.2:
                    return None
                if r < 0.35:
                    return _gen_spec(rng)
                s = _spec(rng)
                if rng.random() < 0.2:
                    s["as_array"] = True
                return s
            cases.append({"kind": "chain", "pre": side(), "opt": _spec(rng), "post": side(), "pts": _pts(rng)})
        # polyaffine
        for _ in range(K * (60 if q else 2500)):
            k = rng.choice([1, 2, 3, 4])
            cases.append({"kind": "poly",
                          "centers": [[rng.choice([0.0, 1.0, -2.0, 4.0, 8.0, -5.0]) for _ in range(3)] for _ in range(k)],
                          "affs": [_spec(rng) for _ in range(k)],
                          "sigma": rng.choice([1.0, 2.0, 4.0, [1.0, 2.0, 4.0], [8.0, 0.5, 2.0]]),
                          "glob": _spec(rng) if rng.random() < 0.5 else None,
                          "other": _gen_spec(rng) if rng.random() < 0.2 else _spec(rng),
                          "pts": [[rng.choice([0.0, 1.0, -1.0, 2.0, 0.5, -3.25, 4.0, 6.0]) for _ in range(3)]
                                  for _ in range(rng.choice([1, 2, 4]))]})
        # ---- second part: certified mat2vec, helpers, histories, chains, polyaffine in full
        spec_fn = lambda r, cls: _spec(r, cls, allow_raw=False)      # noqa: E731
        cases += c08_ext.gen_rotmats(rng, K * (150 if q else 6000), AXES, ANGLES)
        cases += c08_ext.gen_tomat(rng, K * (60 if q else 1500))
        cases += c08_ext.gen_slices(rng, K * (40 if q else 1000))
        cases += c08_ext.gen_hist(rng, K * (150 if q else 6000), spec_fn, _raw34)
        cases += c08_ext.gen_chain2(rng, K * (80 if q else 3000), spec_fn)
        cases += c08_ext.gen_polyfull(rng, K * (60 if q else 2500), spec_fn)
        # ---- wave 4: every presentation of a point set (dtype / layout / batch shape), transforms as values
        cases += c08_w4.gen_shape(rng, K * (100 if q else 3000), spec_fn, _gen_spec)
        return cases

    # ------------------------------------------------------------------ per case
    def run_case(self, case):
        warnings.filterwarnings("ignore")
        np.seterr(all="ignore")
        return getattr(self, "_" + case["kind"])(case)

    # -- ordered pair of affine-family transforms ------------------------------
    def _pair(self, c):
        A, Transform = _mods()
        sa, sb = c["a"], c["b"]
        tags = ["pair", f"{sa['cls']}*{sb['cls']}", "via=" + sa["via"]]
        lines, impl = [], []
        fail = None
        try:
            a = _build(sa); b = _build(sb)
        except Exception as e:
            return {"lines": [], "impl": [], "nontrivial": True, "tags": tags + ["build-raised"],
                    "oracle": f"constructing {sa['cls']} / {sb['cls']} raised {type(e).__name__}: {e}"}
        pts = np.array(c["pts"], dtype=float).reshape(-1, 3)
        snap = Snapshot(pts=pts, va=a._vec12, vb=b._vec12)
        Ma, Mb = a.as_affine(), b.as_affine()
        na, nb = _mag(Ma[:3, :]), _mag(Mb[:3, :])
        S = (1 + _mag(pts)) * (1 + na) * (1 + nb)
        big = c.get("big", False)
        # as_affine from the 12 parameters
        lines.append(_asaffine_line(a)); impl.append(("vals", _a34(a), RT_DIRECT * (1 + na)))
        if not a._direct:
            tags.append("reflection")
        # apply
        ya = a.apply(pts)
        lines.append(f"apply {frs(_a34(a))} {_ptok(pts)}")
        impl.append(("vals", np.asarray(ya).ravel().tolist(), RT_DIRECT * S))
        # precond, param
        lines.append(f"precond {fr(sa['radius'])}"); impl.append(("vals", list(a.precond), 1e-15))
        lines.append(f"getparam {sa['cls']} {frs(a._vec12)} {frs(a._precond)}")
        impl.append(("vals", list(a.param), RT_DIRECT * (1 + _mag(a.param))))
        # compose
        lines.append(f"dispatch {sa['cls']} {sb['cls']}")
        comp = None
        try:
            comp = a.compose(b)
            impl.append(("name", type(comp).__name__))
        except Exception as e:
            impl.append(("name", errname(e)))
            fail = (f"{sa['cls']}.compose({sb['cls']}) raised {type(e).__name__}: {e} "
                    f"(composing must never fail for supported combinations)")
        if fail is None and not big:   # what the class promises about its own matrices
            fail = c08_ext.class_invariant(sa["cls"], Ma, 1e-9 if sa["via"] in ("param", "vec12") else RT_ROUND)
        if big:     # beyond the MAX_DIST / LOG_MAX_DIST thresholds only to_matrix44 itself is compared
            return {"lines": lines, "impl": impl, "oracle": fail, "nontrivial": True,
                    "tags": tags + ["thresholded"], "mutated": snap.changed()}
        if comp is not None:
            lines.append(f"mul {frs(_a34(a))} {frs(_a34(b))}")
            impl.append(("vals", _a34(comp), RT_ROUND * (1 + na) * (1 + nb)))
            if fail is None and not big:
                d = _far(comp.apply(pts), a.apply(b.apply(pts)), RT_ROUND * S)
                if d:
                    fail = (f"{sa['cls']}.compose({sb['cls']}).apply(pts) differs from "
                            f"a.apply(b.apply(pts)): {d}")
            if fail is None and not np.array_equal(comp.precond, a.precond):
                pass  # not a clause of the property
        # inverse
        try:
            ai = a.inv()
            Mi = np.asarray(ai.as_affine())
            ni = _mag(Mi[:3, :])
            if not big:
                lines.append(f"inv {frs(_a34(a))}")
                impl.append(("vals", _a34(ai), RT_ROUND * (1 + ni) * (1 + na)))
            if type(ai) is not type(a) and fail is None:
                fail = f"{sa['cls']}.inv() returned a {type(ai).__name__}"
            if fail is None and not big:
                d = _far(ai.apply(ya), pts, RT_ROUND * (1 + _mag(pts, ya)) * (1 + ni) * (1 + na))
                if d:
                    fail = f"{sa['cls']}.inv() does not map transformed points back: {d}"
        except Exception as e:
            if fail is None:
                fail = f"{sa['cls']}.inv() raised {type(e).__name__}: {e}"
        # 4x4 round trip within the class, parameter re-assignment
        if fail is None:
            try:
                cls = type(a)
                a2 = cls(Ma.copy(), radius=sa["radius"])
                d = _far(a2.apply(pts), ya, RT_ROUND * S)
                if d:
                    fail = f"{sa['cls']}(t.as_affine()) maps points differently from t: {d}"
                elif bool(a2.is_direct) != bool(np.linalg.det(Ma[:3, :3]) > 0):
                    fail = f"{sa['cls']}(M).is_direct={a2.is_direct} but det(M[:3,:3])={np.linalg.det(Ma[:3, :3]):.3g}"
                if fail is None:
                    a3 = a.copy()
                    a3.param = a3.param
                    # (x / precond) * precond may move x by an ulp: for rotation vectors far beyond 2 pi
                    # (up to MAX_ANGLE) an ulp of the angle is a visible rotation
                    ang = _mag(np.asarray(a._vec12, dtype=float)[3:6], np.asarray(a._vec12, dtype=float)[9:12])
                    d = _far(a3.apply(pts), ya, (1e-9 + 1e-15 * ang) * S)
                    if d:
                        fail = f"re-assigning {sa['cls']}.param changes the point mapping: {d}"
            except Exception as e:
                fail = f"4x4 / param round trip of {sa['cls']} raised {type(e).__name__}: {e}"
        triv = len(pts) == 0 or (np.allclose(Ma, np.eye(4)) and np.allclose(Mb, np.eye(4)))
        return {"lines": lines, "impl": impl, "oracle": fail, "nontrivial": not triv, "tags": tags,
                "mutated": snap.changed()}

    # -- rotation vectors -------------------------------------------------------
    def _rot(self, c):
        A, _ = _mods()
        r = np.array(c["r"], dtype=float)
        snap = Snapshot(r=r)
        R = A.rotation_vec2mat(r)
        fail = None
        theta = float(np.sqrt(np.sum(r ** 2)))
        e = float(np.max(np.abs(R.T @ R - np.eye(3))))
        if e > 1e-12:
            fail = f"rotation_vec2mat({c['r']}) is not orthogonal: max |R'R - I| = {e:.3g}"
        elif abs(np.linalg.det(R) - 1) > 1e-12:
            fail = f"rotation_vec2mat({c['r']}) has determinant {np.linalg.det(R)!r}"
        else:
            try:
                v = A.rotation_mat2vec(R)
                R2 = A.rotation_vec2mat(v)
                d = _far(R2, R, 1e-7)
                if d:
                    fail = f"rotation matrix -> vector -> matrix does not reproduce the matrix (r={c['r']}): {d}"
            except Exception as ex:
                fail = f"rotation_mat2vec raised {type(ex).__name__}: {ex}"
        tags = ["rot", "branch=" + ("identity" if theta > 1e10 * 2 * PI else "rodrigues" if theta > 1e-30 else "taylor")]
        if abs(theta - PI) < 1e-2:
            tags.append("near-pi")
        return {"lines": [f"vec2mat {frs(r)} {_trig(r)}"], "impl": [("vals", R.ravel().tolist(), 1e-12)],
                "oracle": fail, "nontrivial": theta > 0, "tags": tags, "mutated": snap.changed()}

    # -- from_matrix44 ------------------------------------------------------------
    def _from44(self, c):
        import scipy.linalg as spl
        A, _ = _mods()
        cls = getattr(A, c["cls"])
        src = _build(c["spec"])
        M = np.array(src.as_affine(), dtype=float)
        if c["neg"]:
            M[:3, :3] *= -1
        pts = np.array(c["pts"], dtype=float).reshape(-1, 3)
        snap = Snapshot(M=M, pts=pts)
        fail = None
        t = cls()
        if not c["d0"]:
            t._direct = False     # a stale flag: from_matrix44 only ever clears it (model does the same)
        try:
            t.from_matrix44(M)
        except Exception as e:
            return {"lines": [], "impl": [], "nontrivial": True, "tags": ["from44", "raised"],
                    "oracle": f"{c['cls']}.from_matrix44 raised {type(e).__name__}: {e}"}
        A33 = M[:3, :3]
        d0 = 1 if c["d0"] else 0
        R = A.rotation_vec2mat(t._vec12[3:6])
        if c["cls"] in ("Affine", "Affine2D"):
            U, s, Vt = spl.svd(A33)
            line = f"svdfix {d0} {frs(U.ravel())} {frs(Vt.ravel())}"
            Q = A.rotation_vec2mat(t._vec12[9:12])
            obs = ("flagvals", 1 if t._direct else 0, R.ravel().tolist() + Q.ravel().tolist(), 2e-7)
            sc = np.exp(t._vec12[6:9])
            if _far(sc, s, 1e-9 * (1 + _mag(s))):
                fail = f"{c['cls']}.from_matrix44: scaling {sc} differs from the singular values {s}"
        elif c["cls"] in ("Rigid", "Rigid2D"):
            line = f"rigidfix {d0} {frs(A33.ravel())}"
            obs = ("flagvals", 1 if t._direct else 0, R.ravel().tolist(), 2e-7)
        else:
            detA = spl.det(A33)
            s = float(np.maximum(np.abs(detA) ** (1 / 3.), float(np.finfo(np.double).tiny)))
            line = f"simfix {d0} {frs(A33.ravel())} {fr(s)}"
            obs = ("flagvals", 1 if t._direct else 0, R.ravel().tolist(), 2e-7)
        if fail is None and c["d0"]:
            t2 = cls(M.copy())
            S = (1 + _mag(pts)) * (1 + _mag(M[:3, :]))
            d = _far(t2.apply(pts), pts @ M[:3, :3].T + M[:3, 3], RT_ROUND * S)
            if d:
                fail = (f"{c['cls']}(M) for an in-class matrix M (det {np.linalg.det(A33):.3g}) does not map "
                        f"points as M: {d}")
            elif bool(t2.is_direct) != bool(np.linalg.det(A33) > 0):
                fail = f"{c['cls']}(M).is_direct = {t2.is_direct} with det {np.linalg.det(A33):.3g}"
            else:
                d = _far(t2.as_affine(), M, RT_ROUND * (1 + _mag(M[:3, :])))
                if d:
                    fail = f"{c['cls']}(M).as_affine() != M: {d}"
        lines, impl = [line], [obs]
        lv, nres = f44_leaves(c["cls"], M)       # from_matrix44 in full, with certified leaves
        lines.append(f"from44 {c['cls']} {d0} {frs(M[:3, :].ravel())} {lv}")
        v12 = np.asarray(t._vec12, dtype=float)
        impl.append(("tagvals", "1" if t._direct else "0", v12.tolist() + [0.0] * nres,
                     [1e-12 * (1 + _mag(v12))] * 12 + [1e-13 * (1 + _mag(M[:3, :3]))] * nres))
        return {"lines": lines, "impl": impl, "oracle": fail, "nontrivial": True,
                "tags": ["from44", "cls=" + c["cls"], "det<0" if np.linalg.det(A33) < 0 else "det>0",
                         "fresh" if c["d0"] else "stale-flag"], "mutated": snap.changed()}

    # -- param get / set ------------------------------------------------------------
    def _param(self, c):
        t = _build(c["spec"])
        cls = c["cls"]
        p = np.array(c["p"], dtype=float)
        pts = np.array(c["pts"], dtype=float).reshape(-1, 3)
        v0 = np.array(t._vec12, dtype=float).copy()
        pc = np.array(t._precond, dtype=float).copy()
        wellformed = len(p) == NPAR[cls]
        snap = Snapshot(p=p)
        line = f"setparam {cls} {frs(v0)} {frs(pc)} {len(p)} {frs(p)}".rstrip()
        fail = None
        try:
            t.param = p
            obs = ("vals", list(t._vec12), RT_DIRECT * (1 + _mag(t._vec12)))
            ok = True
        except Exception as e:
            obs = ("err", errname(e))
            ok = False
            if wellformed:
                fail = f"assigning a length-{len(p)} vector to {cls}.param raised {type(e).__name__}: {e}"
        lines, impl = [line], [obs]
        if ok:
            lines.append(f"getparam {cls} {frs(t._vec12)} {frs(t._precond)}")
            got = np.array(t.param, dtype=float)
            impl.append(("vals", got.tolist(), RT_DIRECT * (1 + _mag(got))))
            if wellformed:
                d = _far(got, p, 1e-9 * (1 + _mag(p)))
                if d:
                    fail = f"{cls}.param read back differs from the assigned vector: {d}"
                else:
                    y = t.apply(pts)
                    t.param = t.param
                    d = _far(t.apply(pts), y, 1e-9 * (1 + _mag(y)))
                    if d:
                        fail = f"reading and re-assigning {cls}.param changes the point mapping: {d}"
        return {"lines": lines, "impl": impl, "oracle": fail, "nontrivial": True,
                "tags": ["param", "cls=" + cls, "wellformed" if wellformed else "malformed",
                         "accepted" if ok else "refused"], "mutated": snap.changed()}

    # -- compose / inv programs --------------------------------------------------------
    def _prog(self, c):
        specs = c["leaves"]
        leaves = [_build(s) for s in specs]
        expr, rest = _parse(c["expr"])
        pts = np.array(c["pts"], dtype=float).reshape(-1, 3)
        snap = Snapshot(pts=pts)
        isgen = ["gen" in s for s in specs]

        def has_gen(e):
            return isgen[e[1]] if e[0] == "L" else any(has_gen(x) for x in e[1:])

        def supported(e):
            if e[0] == "L":
                return True
            if e[0] == "I":
                return supported(e[1]) and not has_gen(e[1])
            return supported(e[1]) and supported(e[2])

        made = []        # every intermediate object with the values it gave when it was made

        def ev(e):
            if e[0] == "L":
                return leaves[e[1]]
            o = ev(e[1]).inv() if e[0] == "I" else ev(e[1]).compose(ev(e[2]))
            try:
                made.append((e, o, np.array(o.apply(pts), dtype=float, copy=True)))
            except Exception:      # noqa: BLE001  (reported through the final evaluation)
                pass
            return o

        mags = [1.0 + _mag(pts)]

        def mat(e):      # reference 4x4 of a generic-free subtree (numpy only)
            if e[0] == "L":
                return np.asarray(leaves[e[1]].as_affine(), dtype=float)
            if e[0] == "I":
                return np.linalg.inv(mat(e[1]))
            return mat(e[1]) @ mat(e[2])

        def ref(e, x):   # nested application of the leaves
            if e[0] == "L":
                y = leaves[e[1]].apply(x)
            elif e[0] == "I":
                m = mat(e); mags.append(1 + _mag(m[:3, :]))
                y = x @ m[:3, :3].T + m[:3, 3]
            else:
                y = ref(e[1], ref(e[2], x))
            mags.append(1 + _mag(y))
            return np.asarray(y, dtype=float)

        env = " ".join(_leaf_tok(s, t) for s, t in zip(specs, leaves))
        toks = c["expr"]
        line = f"prog {len(specs)} {env} {len(toks)} {' '.join(str(x) for x in toks)} {_ptok(pts)}"
        fail = None
        sup = supported(expr)
        try:
            res = ev(expr)
            y = np.asarray(res.apply(pts), dtype=float).reshape(-1, 3)
            want = ref(expr, pts).reshape(-1, 3)
            S = max(mags) ** 2 if any(isgen) else max(mags) * (1 + max(_mag(np.asarray(l.as_affine())[:3, :]) for l in leaves if hasattr(l, "as_affine")))
            name = type(res).__name__
            obs = ("named", name, y.ravel().tolist(), RT_ROUND * S)
            d = _far(y, want, RT_ROUND * S)
            if d:
                fail = f"program {' '.join(map(str, toks))}: composed object maps points differently from the nested application of its leaves: {d}"
            # operands are values: an object that was used as an operand of a later compose / inv still maps points
            # as it did when it was made (and so do the leaves)
            if fail is None:
                for e_, o_, y0 in made:
                    d = _far(np.asarray(o_.apply(pts), dtype=float), y0, 0.0)
                    if d:
                        fail = (f"program {' '.join(map(str, toks))}: the intermediate transform "
                                f"{' '.join(map(str, _unparse(e_)))} maps points differently after it was used as an "
                                f"operand of a later composition: {d}")
                        break
        except Exception as e:
            obs = ("err", errname(e))
            if sup:
                fail = f"program {' '.join(map(str, toks))} over {[s.get('cls', s.get('gen')) for s in specs]} raised {type(e).__name__}: {e}"
        ninv = sum(1 for x in toks if x == "I")
        return {"lines": [line], "impl": [obs], "oracle": fail, "nontrivial": len(pts) > 0,
                "tags": ["prog", "with-generic" if any(isgen) else "affine-only", f"inv={min(ninv, 3)}",
                         "supported" if sup else "unsupported"], "mutated": snap.changed()}

    # -- ChainTransform -----------------------------------------------------------------
    def _chain(self, c):
        from nipy.algorithms.registration.chain_transform import ChainTransform
        pts = np.array(c["pts"], dtype=float).reshape(-1, 3)
        snap = Snapshot(pts=pts)
        pre, opt, post = _build(c["pre"]), _build(c["opt"]), _build(c["post"])

        def arg(spec, t):
            return t.as_affine() if (spec and spec.get("as_array")) else t

        fail = None
        line = f"chain {_leaf_tok(c['pre'], pre)} {_leaf_tok(c['opt'], opt)} {_leaf_tok(c['post'], post)} {_ptok(pts)}"
        try:
            ct = ChainTransform(opt, pre=arg(c["pre"], pre), post=arg(c["post"], post))
            y = np.asarray(ct.apply(pts), dtype=float).reshape(-1, 3)
            x1 = pre.apply(pts) if pre is not None else pts
            x2 = opt.apply(x1)
            x3 = post.apply(x2) if post is not None else x2
            S = (1 + _mag(pts, x1, x2, x3)) ** (2 if (c["pre"] and "gen" in c["pre"]) or (c["post"] and "gen" in c["post"]) else 1)
            for t in (pre, opt, post):
                if t is not None and hasattr(t, "as_affine"):
                    S *= 1 + _mag(np.asarray(t.as_affine())[:3, :3])
            obs = ("vals", y.ravel().tolist(), RT_ROUND * S)
            d = _far(y, np.asarray(x3).reshape(-1, 3), RT_ROUND * S)
            if d:
                fail = f"ChainTransform.apply differs from post(opt(pre(pts))): {d}"
            elif _far(ct.param, opt.param, 0):
                fail = "ChainTransform.param is not the optimisable transform's param"
        except Exception as e:
            obs = ("err", errname(e))
            fail = (f"ChainTransform(pre={c['pre'] and c['pre'].get('cls', 'generic')}, opt={c['opt']['cls']}, "
                    f"post={c['post'] and c['post'].get('cls', 'generic')}).apply raised {type(e).__name__}: {e}")
        return {"lines": [line], "impl": [obs], "oracle": fail, "nontrivial": len(pts) > 0,
                "tags": ["chain", "pre=" + ("none" if c["pre"] is None else c["pre"].get("cls", "generic")),
                         "post=" + ("none" if c["post"] is None else c["post"].get("cls", "generic"))],
                "mutated": snap.changed()}

    # -- PolyAffine --------------------------------------------------------------------------
    def _poly(self, c):
        import ctypes
        from harness import cshim
        from nipy.algorithms.registration import polyaffine as PA
        lib = cshim.load("registration")
        lib.apply_polyaffine.restype = None

        def c_apply(xyz, centers, affines, sigma):   # /repo's polyaffine.c instead of the stale .so
            lib.apply_polyaffine(ctypes.py_object(xyz), ctypes.py_object(np.ascontiguousarray(centers)),
                                 ctypes.py_object(np.ascontiguousarray(affines)), ctypes.py_object(sigma))
        PA._apply_polyaffine = c_apply
        pts = np.array(c["pts"], dtype=float).reshape(-1, 3)
        centers = np.array(c["centers"], dtype=float)
        affs = [_build(s) for s in c["affs"]]
        glob = _build(c["glob"])
        other = _build(c["other"])
        snap = Snapshot(pts=pts, centers=centers)
        fail = None
        lines, impl = [], []
        try:
            P = PA.PolyAffine(centers, affs, c["sigma"], glob_affine=glob)
            y = P.apply(pts)
            # model line: weights evaluated at the globally transformed points
            sig = np.zeros(3); sig[:] = c["sigma"]
            gx = pts if glob is None else pts @ glob.as_affine()[:3, :3].T + glob.as_affine()[:3, 3]
            W = np.exp(-0.5 * np.sum(((gx[:, None, :] - centers[None, :, :]) / sig) ** 2, axis=2))
            wt = np.maximum(W.sum(axis=1), 1e-200)
            usable = bool(np.all(W.sum(axis=1) > 1e-150))
            pl = " ".join(f"{frs(pts[i])} {frs(W[i])} {fr(wt[i])}" for i in range(len(pts)))
            gl = "0" if glob is None else "1 " + frs(_a34(glob))
            lines.append(f"poly {gl} {len(affs)} {' '.join(frs(_a34(a)) for a in affs)} {len(pts)} {pl}")
            S = (1 + _mag(pts, gx)) * (1 + max(_mag(np.asarray(a.as_affine())[:3, :]) for a in affs))
            impl.append(("vals", np.asarray(y).ravel().tolist(), 1e-9 * S))
            if usable:
                S2 = S * (1 + _mag(y)) * ((1 + _mag(np.asarray(other.as_affine())[:3, :])) if hasattr(other, "as_affine") else (1 + _mag(y, pts)))
                ox = other.apply(pts)
                # weights at other(x) must not underflow either
                gox = ox if glob is None else ox @ glob.as_affine()[:3, :3].T + glob.as_affine()[:3, 3]
                W2 = np.exp(-0.5 * np.sum(((gox[:, None, :] - centers[None, :, :]) / sig) ** 2, axis=2)).sum(axis=1)
                if np.all(W2 > 1e-150):
                    d = _far(P.compose(other).apply(pts), P.apply(ox), 1e-8 * S2 * (1 + _mag(ox)))
                    if d:
                        fail = f"PolyAffine.compose({c['other'].get('cls', 'generic')}) differs from poly(other(pts)): {d}"
                if fail is None:
                    d = _far(other.compose(P).apply(pts), other.apply(y), 1e-8 * S2)
                    if d:
                        fail = f"{c['other'].get('cls', 'generic')}.compose(PolyAffine) differs from other(poly(pts)): {d}"
        except Exception as e:
            fail = f"PolyAffine case raised {type(e).__name__}: {e}"
        return {"lines": lines, "impl": impl, "oracle": fail, "nontrivial": True,
                "tags": ["poly", f"k={len(affs)}", "glob" if glob is not None else "noglob",
                         "other=" + c["other"].get("cls", "generic")], "mutated": snap.changed()}

    # ------------------------------------------------------------------ comparison
    def compare(self, case, impl_obs, model_out):
        kind = impl_obs[0]
        if kind == "name":
            return None if impl_obs[1] == model_out else f"impl={impl_obs[1]} model={model_out}"
        if kind == "err":
            return None if impl_obs[1] == model_out else f"impl={impl_obs[1]} model={model_out[:80]}"
        if model_out.startswith(("error", "bad-op")):
            return f"impl returned values, model says {model_out}"
        if kind == "vals":
            vals, atol, head = impl_obs[1], impl_obs[2], None
        elif kind in ("named", "flagvals"):
            head, vals, atol = str(impl_obs[1]), impl_obs[2], impl_obs[3]
            parts = model_out.split(" ", 1)
            if parts[0] != head:
                return f"impl={head} model={parts[0]}"
            model_out = parts[1] if len(parts) > 1 else ""
        elif kind == "tagvals":       # optional leading tag, per-value tolerances
            tag, vals, atol = impl_obs[1], impl_obs[2], impl_obs[3]
            if tag is not None:
                parts = model_out.split(" ", 1)
                if parts[0] != tag and not (tag == "ident" and parts[0] == "tiny"):
                    return f"impl={tag} model={parts[0]}"
                model_out = parts[1] if len(parts) > 1 else ""
        elif kind == "headvals":      # "<statuses> | <flags>" prefix, then values
            head, vals, atol = impl_obs[1], impl_obs[2], impl_obs[3]
            if not (model_out + " ").startswith(head + " "):
                return f"impl={head!r} model={model_out[:len(head) + 20]!r}"
            model_out = model_out[len(head):]
        else:
            return "unknown observation kind"
        try:
            mv = parse_rats(model_out)
        except Exception:
            return f"unparsable model output {model_out[:80]!r}"
        if len(mv) != len(vals):
            return f"length impl={len(vals)} model={len(mv)}"
        for k, (a, b) in enumerate(zip(vals, mv)):
            tol = atol[k] if isinstance(atol, (list, tuple)) else atol
            if tol == float("inf"):
                continue
            try:
                fb = float(b)
            except OverflowError:
                fb = float("inf") if b > 0 else float("-inf")
            if not (abs(float(a) - fb) <= tol):
                return f"index {k}: impl={float(a)!r} model={fb!r} (tolerance {tol:.3g})"
        return None

    # ------------------------------------------------------------------ shrinking
    def shrink(self, case):
        """big steps first (each round of the spine's greedy shrinker costs a process pool)"""
        pts = case.get("pts")
        if pts and len(pts) > 1:
            yield {**case, "pts": pts[:1]}
            yield {**case, "pts": pts[-1:]}
        if case["kind"] == "prog":
            e, _ = _parse(case["expr"])
            for sub in e[1:]:
                if isinstance(sub, tuple):
                    yield {**case, "expr": _unparse(sub)}
        if case["kind"] == "chain":
            for key in ("pre", "post"):
                if case[key] is not None:
                    yield {**case, key: None}
        k = case["kind"]
        if k == "mat2vec" and "r2" in case:
            yield {kk: v for kk, v in case.items() if kk != "r2"}
        if k == "tomat":
            for i, x in enumerate(case["t"]):
                if x != 0:
                    t = list(case["t"]); t[i] = 0.0
                    yield {**case, "t": t}
            if case["dtype"] != "double":
                yield {**case, "dtype": "double"}
        if k == "slices":
            if len(case["idx"]) > 1:
                yield {**case, "idx": case["idx"][:1]}
            for i in range(len(case["sl"])):
                if case["sl"][i] != [None, None]:
                    sl = [list(x) for x in case["sl"]]; sl[i] = [None, None]
                    yield {**case, "sl": sl}
        if k == "hist":
            ops = case["ops"]
            if ops:
                yield {**case, "ops": []}
                yield {**case, "ops": ops[:len(ops) // 2]}
                yield {**case, "ops": ops[len(ops) // 2:]}
                for i in range(len(ops)):
                    yield {**case, "ops": ops[:i] + ops[i + 1:]}
            if case["arg"]["a"] != "none":
                yield {**case, "arg": {"a": "none"}}
            if case["radius"] != 100:
                yield {**case, "radius": 100}
        if k == "chain2":
            if case["hist"]:
                yield {**case, "hist": []}
                yield {**case, "hist": case["hist"][-1:]}
            for key in ("pre", "post"):
                if case[key]["s"] != "none":
                    yield {**case, key: {"s": "none"}}
        if k == "shape":
            if case["shape"] != [1, 3]:
                yield {**case, "shape": [1, 3], "vals": case["vals"][:3] if len(case["vals"]) >= 3 else [1.0, 2.0, 3.0]}
            if case["via"] != "apply":
                yield {**case, "via": "apply"}
            if case["layout"] != "C":
                yield {**case, "layout": "C"}
            if case["dtype"] != "float64":
                yield {**case, "dtype": "float64"}
            if case["target"] == "poly":
                if len(case["centers"]) > 1:
                    yield {**case, "centers": case["centers"][:1], "affs": case["affs"][:1]}
                if case["glob"] != "none":
                    yield {**case, "glob": "none"}
                if case["globint"] != c08_w4.INT34[0]:
                    yield {**case, "globint": c08_w4.INT34[0]}
                if case["sigma"] != 1.0:
                    yield {**case, "sigma": 1.0}
                if case["centers_as"] != "float":
                    yield {**case, "centers_as": "float"}
                if case.get("pcomp", "none") != "none":
                    yield {**case, "pcomp": "none"}
                for i, s_ in enumerate(case["affs"]):
                    if any(x != 0 for x in s_["nat"]) or s_["via"] != "param":
                        affs = list(case["affs"])
                        affs[i] = {"cls": s_["cls"], "nat": [0.0] * 12, "radius": 100, "via": "param"}
                        yield {**case, "affs": affs}
            if case["target"] == "chain":
                for key in ("pre", "post"):
                    if case[key] is not None:
                        yield {**case, key: None}
            if any(v != 0 for v in case["vals"]):
                yield {**case, "vals": [0.0] * len(case["vals"])}
        if k == "polyfull":
            if len(case["centers"]) > 1 and len(case["affs"]) == len(case["centers"]):
                yield {**case, "centers": case["centers"][:1], "affs": case["affs"][:1]}
                yield {**case, "centers": case["centers"][:2], "affs": case["affs"][:2]}
            if case["mode"] != "apply":
                yield {**case, "mode": "apply"}
            if case["glob"] is not None:
                yield {**case, "glob": None}
            if case["as_arrays"]:
                yield {**case, "as_arrays": False}
            if case["sigma"] != 1.0:
                yield {**case, "sigma": 1.0}
        keys = [k for k in ("a", "b", "spec", "opt", "pre", "post", "glob", "other", "globspec")
                if isinstance(case.get(k), dict) and "nat" in case[k]]
        for key in keys:        # whole transform -> identity of its class
            s = case[key]
            if any(x != 0 for x in s["nat"]) or s["via"] not in ("param",) or s["radius"] != 100:
                yield {**case, key: {"cls": s["cls"], "nat": [0.0] * 12, "radius": 100, "via": "param"}}
        for key in keys:        # simpler construction route
            s = case[key]
            if s["via"] not in ("param", "raw44"):
                yield {**case, key: {**s, "via": "param"}}
            if s["radius"] != 100:
                yield {**case, key: {**s, "radius": 100}}
        for key in keys:        # parameter groups, then single parameters
            s = case[key]
            if s["via"] == "raw44":
                continue
            for grp in ((0, 1, 2), (3, 4, 5), (6, 7, 8), (9, 10, 11)):
                if any(s["nat"][i] != 0 for i in grp):
                    nat = list(s["nat"])
                    for i in grp:
                        nat[i] = 0.0
                    yield {**case, key: {**s, "nat": nat}}
            if not s["cls"].startswith("Similarity"):
                for i, x in enumerate(s["nat"]):
                    if x != 0:
                        nat = list(s["nat"]); nat[i] = 0.0
                        yield {**case, key: {**s, "nat": nat}}
        if case["kind"] == "poly" and len(case["affs"]) > 1:
            yield {**case, "affs": case["affs"][:1], "centers": case["centers"][:1]}

    def classify(self, case, failure):
        return None


CHECK = C08()
