"""C08 translator: the literal tables / constants / simple formula shapes of
nipy/algorithms/registration/{affine.py, polyaffine.py, polyaffine.c} regenerated from /repo's
*text* into lean/NipyVerif/Gen/C08Tables.lean.

  * module constants `RADIUS`, `MAX_ANGLE`, `SMALL_ANGLE`, `MAX_DIST` (binary64 values, exact),
    `TINY_SIGMA` (polyaffine.py), `TINY` (polyaffine.c);
  * `param_inds` of the six classes;
  * the index tables of `Similarity._set_param` / `Similarity2D._set_param`, and the shape of
    `Affine._get_param` / `Affine._set_param` (divide / multiply by `_precond`, index by `param_inds`);
  * the layout of `preconditioner(radius)` (which slots hold `1/radius`);
  * which `from_matrix44` each class resolves to through the MRO;
  * the size dispatch of `to_matrix44` (6 / 7 / otherwise);
  * the class-selection rules of `Affine.compose` in source order.

The model (`Model/C08.lean`) *defines* `paramInds`, `setPairs`, `preconditioner`, `dispatch`,
the thresholds … from these generated definitions, so `dispatch_total_monotone`, `get_set_param`,
`set_get_param`, … are re-checked against what the code says now.  A shape that is not recognised
raises TieBroken.
"""
from __future__ import annotations

import ast
import math
import os
import re
from fractions import Fraction

from harness.core import REPO, TieBroken

AFF = "nipy/algorithms/registration/affine.py"
POLY_PY = "nipy/algorithms/registration/polyaffine.py"
POLY_C = "nipy/algorithms/registration/polyaffine.c"
CLASSES = ["Affine", "Affine2D", "Rigid", "Rigid2D", "Similarity", "Similarity2D"]


def _src(rel):
    try:
        return open(os.path.join(REPO, rel)).read()
    except OSError as e:
        raise TieBroken(f"cannot read {rel}: {e}")


def _tree(rel):
    try:
        return ast.parse(_src(rel))
    except SyntaxError as e:
        raise TieBroken(f"{rel} does not parse: {e}")


def _num(node, env):
    """restricted evaluation of a constant expression (numbers, + - * / **, names already known,
    np.pi, np.log(x), float(np.finfo(np.double).tiny), list(range(n)), literal lists)"""
    if isinstance(node, ast.Constant) and isinstance(node.value, (int, float)):
        return node.value
    if isinstance(node, ast.Name) and node.id in env:
        return env[node.id]
    if isinstance(node, ast.UnaryOp) and isinstance(node.op, ast.USub):
        return -_num(node.operand, env)
    if isinstance(node, ast.BinOp):
        a, b = _num(node.left, env), _num(node.right, env)
        if isinstance(node.op, ast.Add):
            return a + b
        if isinstance(node.op, ast.Sub):
            return a - b
        if isinstance(node.op, ast.Mult):
            return a * b
        if isinstance(node.op, ast.Div):
            return a / b
        if isinstance(node.op, ast.Pow):
            return a ** b
    if isinstance(node, ast.Attribute) and ast.unparse(node) == "np.pi":
        return math.pi
    if isinstance(node, ast.Call):
        f = ast.unparse(node.func)
        if f == "np.log" and len(node.args) == 1:
            return math.log(_num(node.args[0], env))
        if f == "float" and len(node.args) == 1 and ast.unparse(node.args[0]) in (
                "np.finfo(np.double).tiny", "np.finfo(np.float64).tiny"):
            return 2.2250738585072014e-308
        if f == "list" and len(node.args) == 1 and isinstance(node.args[0], ast.Call) \
                and ast.unparse(node.args[0].func) == "range":
            return list(range(*[_num(x, env) for x in node.args[0].args]))
    if isinstance(node, (ast.List, ast.Tuple)):
        return [_num(x, env) for x in node.elts]
    raise TieBroken(f"unrecognised constant expression `{ast.unparse(node)}`")


def _nat_list(v, what):
    if not (isinstance(v, list) and all(isinstance(x, int) and 0 <= x < 12 for x in v)):
        raise TieBroken(f"{what}: expected a list of indices in 0..11, got {v!r}")
    return v


def _funcs(cls):
    return {f.name: f for f in cls.body if isinstance(f, ast.FunctionDef)}


def _strip_doc(body):
    if body and isinstance(body[0], ast.Expr) and isinstance(body[0].value, ast.Constant) \
            and isinstance(body[0].value.value, str):
        return body[1:]
    return body


def _norm(node):
    return re.sub(r"\s+", "", ast.unparse(node))


def extract():
    tree = _tree(AFF)
    env = {}
    consts = {}
    for node in tree.body:
        if isinstance(node, ast.Assign) and len(node.targets) == 1 and isinstance(node.targets[0], ast.Name):
            name = node.targets[0].id
            if name in ("RADIUS", "MAX_ANGLE", "SMALL_ANGLE", "MAX_DIST", "LOG_MAX_DIST", "TINY"):
                env[name] = consts[name] = _num(node.value, env)
    for k in ("RADIUS", "MAX_ANGLE", "SMALL_ANGLE", "MAX_DIST", "LOG_MAX_DIST", "TINY"):
        if k not in consts:
            raise TieBroken(f"affine.py: constant {k} not found")
    if consts["LOG_MAX_DIST"] != math.log(consts["MAX_DIST"]):
        raise TieBroken("affine.py: LOG_MAX_DIST is not log(MAX_DIST)")

    classes = {n.name: n for n in tree.body if isinstance(n, ast.ClassDef)}
    for c in CLASSES:
        if c not in classes:
            raise TieBroken(f"affine.py: class {c} not found")
    bases = {}
    for c in CLASSES:
        b = [ast.unparse(x) for x in classes[c].bases]
        if len(b) != 1:
            raise TieBroken(f"{c}: expected one base class")
        bases[c] = b[0]

    def mro(c):
        out = [c]
        while bases.get(out[-1]) in classes:
            out.append(bases[out[-1]])
        return out

    def resolve(c, meth):
        for k in mro(c):
            if meth in _funcs(classes[k]):
                return k
        raise TieBroken(f"{c}.{meth} not found")

    # param_inds
    inds = {}
    for c in CLASSES:
        found = None
        for k in mro(c):
            for st in classes[k].body:
                if isinstance(st, ast.Assign) and len(st.targets) == 1 and isinstance(st.targets[0], ast.Name) \
                        and st.targets[0].id == "param_inds":
                    found = _nat_list(_num(st.value, env), f"{k}.param_inds")
            if found is not None:
                break
        if found is None:
            raise TieBroken(f"{c}: no param_inds")
        inds[c] = found

    # _get_param / _set_param of Affine: fixed shapes
    fa = _funcs(classes["Affine"])
    g = [_norm(s) for s in _strip_doc(fa["_get_param"].body)] if "_get_param" in fa else []
    if g != ["param=self._vec12/self._precond", "returnparam[self.param_inds]"]:
        raise TieBroken("Affine._get_param: shape not recognised")
    s = [_norm(x) for x in _strip_doc(fa["_set_param"].body)] if "_set_param" in fa else []
    if s != ["p=np.asarray(p)", "inds=self.param_inds", "self._vec12[inds]=p*self._precond[inds]"]:
        raise TieBroken("Affine._set_param: shape not recognised")
    for c in CLASSES:
        if resolve(c, "_get_param") != "Affine":
            raise TieBroken(f"{c}._get_param is overridden")

    def sim_tables(c):
        f = _funcs(classes[c]).get("_set_param")
        if f is None:
            raise TieBroken(f"{c}._set_param not found")
        body = _strip_doc(f.body)
        if len(body) != 2 or _norm(body[0]) != "p=np.asarray(p)" or not isinstance(body[1], ast.Assign):
            raise TieBroken(f"{c}._set_param: shape not recognised")
        tgt, val = body[1].targets[0], body[1].value
        if not (isinstance(tgt, ast.Subscript) and _norm(tgt.value) == "self._vec12"
                and isinstance(val, ast.BinOp) and isinstance(val.op, ast.Mult)
                and isinstance(val.left, ast.Subscript) and _norm(val.left.value) == "p"
                and isinstance(val.right, ast.Subscript) and _norm(val.right.value) == "self._precond"):
            raise TieBroken(f"{c}._set_param: shape not recognised")
        T = _nat_list(_num(tgt.slice, env), f"{c}._set_param targets")
        S = _num(val.left.slice, env)
        T2 = _nat_list(_num(val.right.slice, env), f"{c}._set_param precond indices")
        if T != T2 or not isinstance(S, list) or len(S) != len(T) or not all(isinstance(x, int) and x >= 0 for x in S):
            raise TieBroken(f"{c}._set_param: index tables inconsistent")
        return T, S

    simT, simS = sim_tables("Similarity")
    sim2T, sim2S = sim_tables("Similarity2D")
    setter = {c: resolve(c, "_set_param") for c in CLASSES}
    # the `param` property must be re-bound in a class that overrides _set_param
    for c in ("Similarity", "Similarity2D"):
        if not any(isinstance(st, ast.Assign) and _norm(st.targets[0]) == "param" and "_set_param" in _norm(st.value)
                   for st in classes[c].body):
            raise TieBroken(f"{c}: param property not re-bound to its _set_param")
    want = {"Affine": "Affine", "Affine2D": "Affine", "Rigid": "Affine", "Rigid2D": "Affine",
            "Similarity": "Similarity", "Similarity2D": "Similarity2D"}
    if setter != want:
        raise TieBroken(f"_set_param resolution changed: {setter}")

    # preconditioner
    pre = next((n for n in tree.body if isinstance(n, ast.FunctionDef) and n.name == "preconditioner"), None)
    if pre is None:
        raise TieBroken("preconditioner not found")
    sym = {}
    layout = None
    for st in _strip_doc(pre.body):
        if isinstance(st, ast.Assign) and isinstance(st.targets[0], ast.Name):
            if _norm(st.value) in ("1.0/radius", "1/radius", "1./radius"):
                sym[st.targets[0].id] = True
            else:
                raise TieBroken("preconditioner: unrecognised assignment")
        elif isinstance(st, ast.Return) and isinstance(st.value, ast.Call) and _norm(st.value.func) == "np.array" \
                and isinstance(st.value.args[0], ast.List):
            layout = []
            for e in st.value.args[0].elts:
                if isinstance(e, ast.Constant) and e.value == 1:
                    layout.append(False)
                elif isinstance(e, ast.Name) and sym.get(e.id):
                    layout.append(True)
                else:
                    raise TieBroken("preconditioner: unrecognised entry")
        else:
            raise TieBroken("preconditioner: shape not recognised")
    if layout is None or len(layout) != 12:
        raise TieBroken("preconditioner: expected 12 entries")

    # from_matrix44 resolution
    kinds = {"Affine": 0, "Rigid": 1, "Similarity": 2}
    fromk = {}
    for c in CLASSES:
        r = resolve(c, "from_matrix44")
        if r not in kinds:
            raise TieBroken(f"{c}.from_matrix44 resolves to {r}")
        fromk[c] = kinds[r]
    for c in CLASSES:
        for m in ("as_affine", "compose", "inv", "copy", "apply", "__init__"):
            if resolve(c, m) != "Affine":
                raise TieBroken(f"{c}.{m} is overridden (the model has one {m} for the family)")

    # to_matrix44 size dispatch
    t44 = next((n for n in tree.body if isinstance(n, ast.FunctionDef) and n.name == "to_matrix44"), None)
    if t44 is None:
        raise TieBroken("to_matrix44 not found")
    sizes = []
    for n in ast.walk(t44):
        if isinstance(n, ast.Compare) and _norm(n.left) == "size" and len(n.ops) == 1 and isinstance(n.ops[0], ast.Eq):
            sizes.append(_num(n.comparators[0], env))
    if sizes != [6, 7]:
        raise TieBroken(f"to_matrix44: size dispatch {sizes} not recognised")
    t44s = _norm(t44)
    for frag in ("T[0:3,0:3]=R", "T[0:3,0:3]=t[6]*R", "S=np.diag(np.exp(threshold(t[6:9],LOG_MAX_DIST)))",
                 "T[0:3,0:3]=np.dot(R,np.dot(S,Q))", "T[0:3,3]=threshold(t[0:3],MAX_DIST)",
                 "R=rotation_vec2mat(t[3:6])", "Q=rotation_vec2mat(t[9:12])"):
        if frag not in t44s:
            raise TieBroken(f"to_matrix44: `{frag}` not found")

    # compose: class selection
    comp = fa.get("compose")
    if comp is None:
        raise TieBroken("Affine.compose not found")
    cs = _norm(comp)
    for frag in ("self_inds=set(self.param_inds)", "other_inds=set(other.param_inds)",
                 "a.from_matrix44(np.dot(self.as_affine(),other_aff))", "other_aff=other.as_affine()"):
        if frag not in cs:
            raise TieBroken(f"Affine.compose: `{frag}` not found")
    rules, els = [], None
    top = next((n for n in ast.walk(comp) if isinstance(n, ast.If) and "issubset" in _norm(n.test)), None)
    node = top
    while node is not None:
        t = _norm(node.test)
        test = {"self_inds.issubset(other_inds)": 0, "other_inds.issubset(self_inds)": 1}.get(t)
        if test is None or len(node.body) != 1:
            raise TieBroken(f"Affine.compose: test `{t}` not recognised")
        res = {"klass=other.__class__": 0, "klass=self.__class__": 1}.get(_norm(node.body[0]))
        if res is None:
            raise TieBroken("Affine.compose: branch result not recognised")
        rules.append((test, res))
        if len(node.orelse) == 1 and isinstance(node.orelse[0], ast.If):
            node = node.orelse[0]
        else:
            if len(node.orelse) != 1:
                raise TieBroken("Affine.compose: else branch not recognised")
            m = re.fullmatch(r"klass=(\w+)", _norm(node.orelse[0]))
            if not m or m.group(1) not in CLASSES:
                raise TieBroken("Affine.compose: fallback class not recognised")
            els = CLASSES.index(m.group(1))
            node = None
    if top is None or els is None:
        raise TieBroken("Affine.compose: class selection not found")

    # polyaffine constants
    m = re.search(r"^TINY_SIGMA\s*=\s*(\S+)", _src(POLY_PY), re.M)
    if not m:
        raise TieBroken("polyaffine.py: TINY_SIGMA not found")
    tiny_sigma = float(m.group(1))
    m = re.search(r"#define\s+TINY\s+(\S+)", _src(POLY_C))
    if not m:
        raise TieBroken("polyaffine.c: TINY not found")
    tiny_c = float(m.group(1))
    csrc = re.sub(r"\s+", "", _src(POLY_C))
    for frag in ("returnexp(-.5*d2);", "if(W<TINY)W=TINY;", "y[i]+=w*x[i];", "aux/=sigma[i];"):
        if frag not in csrc:
            raise TieBroken(f"polyaffine.c: `{frag}` not found")

    return {"consts": consts, "inds": inds, "sim": (simT, simS), "sim2d": (sim2T, sim2S), "precond": layout,
            "fromk": fromk, "rules": rules, "else": els, "tiny_sigma": tiny_sigma, "tiny_c": tiny_c}


def _rat(x):
    f = Fraction(x)
    d = f.denominator
    if d == 1:
        return f"{f.numerator}"
    k = d.bit_length() - 1
    assert 1 << k == d
    return f"({f.numerator} : Rat) / (2 ^ {k} : Nat)"


def lean_text(t=None):
    t = t or extract()
    c = t["consts"]
    L = ["/- GENERATED by harness/props/c08_tables.py from nipy/algorithms/registration/"
         "{affine.py,polyaffine.py,polyaffine.c}.  Do not edit. -/",
         "namespace NipyVerif.Gen.C08",
         "/-- `RADIUS` -/", f"def radius : Rat := {_rat(c['RADIUS'])}",
         "/-- `MAX_ANGLE` (binary64 value, exact) -/", f"def maxAngle : Rat := {_rat(c['MAX_ANGLE'])}",
         "/-- `SMALL_ANGLE` -/", f"def smallAngle : Rat := {_rat(c['SMALL_ANGLE'])}",
         "/-- `MAX_DIST` -/", f"def maxDist : Rat := {_rat(c['MAX_DIST'])}",
         "/-- `TINY_SIGMA` of polyaffine.py -/", f"def tinySigma : Rat := {_rat(t['tiny_sigma'])}",
         "/-- `TINY` of polyaffine.c -/", f"def tinyPoly : Rat := {_rat(t['tiny_c'])}",
         "/-- `param_inds` of each class -/"]
    for k in CLASSES:
        L.append(f"def inds{k} : List Nat := {t['inds'][k]}")
    L += ["/-- `Similarity._set_param`: slots of `_vec12` written, positions of `p` read -/",
          f"def simTargets : List Nat := {t['sim'][0]}", f"def simSources : List Nat := {t['sim'][1]}",
          f"def sim2dTargets : List Nat := {t['sim2d'][0]}", f"def sim2dSources : List Nat := {t['sim2d'][1]}",
          "/-- `preconditioner(radius)`: slot holds `1/radius` (true) or `1` (false) -/",
          "def precondInv : List Bool := [" + ", ".join("true" if b else "false" for b in t["precond"]) + "]",
          "/-- which `from_matrix44` each class resolves to: 0 = Affine (SVD), 1 = Rigid, 2 = Similarity -/"]
    for k in CLASSES:
        L.append(f"def fromKind{k} : Nat := {t['fromk'][k]}")
    L += ["/-- `Affine.compose` class selection in source order: (test, result) with test 0 = "
          "`self_inds ⊆ other_inds`, 1 = `other_inds ⊆ self_inds`; result 0 = other's class, 1 = self's class -/",
          "def dispatchRules : List (Nat × Nat) := [" + ", ".join(f"({a}, {b})" for a, b in t["rules"]) + "]",
          "/-- fallback class (index in Affine, Affine2D, Rigid, Rigid2D, Similarity, Similarity2D) -/",
          f"def dispatchElse : Nat := {t['else']}",
          "end NipyVerif.Gen.C08", ""]
    return "\n".join(L)


if __name__ == "__main__":
    print(lean_text())
