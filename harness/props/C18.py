"""C18 — Gaussian smoothing is linear, centred, normalised and scaled in world units.

Correspondence: `LinearFilter._setup_kernel` (crop box, padded shape, Gaussian
exponents) and `LinearFilter.smooth` (values of the smoothed image) vs the Lean
model (exact rationals, tolerance for FFT round-off); `fwhm2sigma`/`sigma2fwhm`;
refusals.  Oracle: the property's clauses evaluated on the real code against an
independently written direct convolution with the world-unit Gaussian.
"""
from __future__ import annotations

import math
import warnings

import numpy as np

from harness.core import PropertyCheck
from harness.util import Snapshot, close, errname, fr, frs, parse_rats

C_FWHM = math.sqrt(8.0 * math.log(2.0))

# linear parts (dyadic entries): anisotropic, flipped, permuted, oblique / sheared
LINEARS = [
    ("iso", [[1, 0, 0], [0, 1, 0], [0, 0, 1]]),
    ("aniso", [[2, 0, 0], [0, 1, 0], [0, 0, 3]]),
    ("aniso", [[0.5, 0, 0], [0, 1.5, 0], [0, 0, 4]]),
    ("aniso", [[3, 0, 0], [0, 3, 0], [0, 0, 0.75]]),
    ("flip", [[-1, 0, 0], [0, 1, 0], [0, 0, 1]]),
    ("flip", [[-2, 0, 0], [0, -2, 0], [0, 0, 2.5]]),
    ("flip", [[1, 0, 0], [0, -0.5, 0], [0, 0, -1]]),
    ("perm", [[0, 1, 0], [0, 0, 2], [1.5, 0, 0]]),
    ("perm", [[0, 0, -1], [2, 0, 0], [0, 1, 0]]),
    ("oblique", [[1, 0.5, 0], [-0.5, 1, 0], [0, 0, 2]]),
    ("oblique", [[2, 0, 0.5], [0, 1, 0.25], [-0.5, 0.25, 1]]),
    ("oblique", [[1, 1, 0], [0, 1, 1], [0, 0, 1]]),
    ("oblique", [[1.5, -0.5, 0.25], [0.5, 1.5, -0.25], [0, 0.5, 2]]),
    ("oblique", [[-1, 0.25, 0], [0.25, 1, 0.5], [0.5, 0, -2]]),
]
COVS = [
    [[1, 0, 0], [0, 1, 0], [0, 0, 1]],
    [[4, 0, 0], [0, 1, 0], [0, 0, 0.25]],
    [[2, 1, 0], [1, 2, 0], [0, 0, 1]],
    [[2, 0.5, 0.25], [0.5, 1, 0], [0.25, 0, 1.5]],
]
SMALL_RATIOS = [0.3, 0.5, 0.6, 0.75, 0.9, 1.0, 1.25]      # kernel mostly inside the grid
RATIOS = [1.5, 2.0, 2.5, 3.0, 4.0, 6.0]


def _rand_case(rng, tier, sizes):
    shape = [rng.choice(sizes) for _ in range(3)]
    if rng.random() < 0.2:
        shape = [shape[0]] * 3
    kind, lin = rng.choice(LINEARS)
    trans = [rng.choice([0, 0, -3.5, 12, 0.25, -64]) for _ in range(3)]
    aff = [list(map(float, lin[i])) + [float(trans[i])] for i in range(3)] + [[0.0, 0.0, 0.0, 1.0]]
    vs = [math.sqrt(sum(lin[r][c] ** 2 for r in range(3))) for c in range(3)]   # voxel sizes
    r = rng.random()
    if r < 0.12:
        fwhm = rng.choice([1.0, 2.0, 6.0, 8.0, 0.5, 4.0])          # round numbers of world units
    elif r < 0.5:
        fwhm = rng.choice(SMALL_RATIOS) * min(vs)
        if rng.random() < 0.6:       # room for the whole kernel: interior clauses become non-trivial
            shape = [rng.choice([4, 5, 6, 7, 8, 9]) for _ in range(3)]
    elif r < 0.78:
        fwhm = rng.choice(RATIOS) * rng.choice(vs)
    elif r < 0.9:
        fwhm = rng.choice([1.0, 1.5, 3.0]) * max(n * v for n, v in zip(shape, vs))   # ≥ field of view
    else:
        fwhm = [rng.choice(SMALL_RATIOS + RATIOS) * rng.choice(vs) for _ in range(3)]   # one width per world axis
    cov = None   # covariance whitening is outside the statement (and raises for every 3D grid)
    norm = rng.choice(["l1sum"] * 6 + ["l1", "l2"])
    scale = rng.choice([1.0] * 5 + [2.0, 0.5, -1.0, 3.0])
    loc = rng.choice([0.0] * 5 + [1.0, -2.5, 100.0])
    p = [rng.randrange(n) for n in shape]
    if rng.random() < 0.4:
        p = [min(n - 1, n // 2) for n in shape]
    return {"kind": "filter", "shape": shape, "aff": aff, "afftag": kind, "fwhm": fwhm, "cov": cov,
            "norm": norm, "scale": scale, "loc": loc, "p": p, "seed": rng.randrange(1 << 30),
            "shift": [rng.choice([0, 1, 1, 2]) for _ in range(3)],
            "ab": [rng.choice([1.0, 2.0, -0.5, 3.0]), rng.choice([1.0, -1.0, 0.25])]}


_FROZEN = False


def _freeze_once():
    """`smooth` calls gc.collect() three times per image; freezing the objects that exist after the
    imports keeps those collections cheap (no effect on what the code computes)."""
    global _FROZEN
    if not _FROZEN:
        import gc
        import scipy.signal  # noqa: F401
        gc.collect(); gc.freeze()
        _FROZEN = True


def spec_kernel(shape, aff, fwhm, cov):
    """The kernel the property describes, on the implementation's truncated support:
    Gaussian of the given FWHM in world units of the displacement from the centre voxel
    ⌊(n-1)/2⌋, kept where the exponent is ≤ 15 (the implementation's stated cut-off)."""
    shape = tuple(shape)
    A = np.asarray(aff, float)[:3, :3]
    c = (np.array(shape) - 1) // 2
    sig = np.ones(3) * np.asarray(fwhm, float) / C_FWHM
    d = np.indices(shape).reshape(3, -1).T - c
    U = (d @ A.T) / sig
    if cov is not None:
        W = np.linalg.inv(np.linalg.cholesky(np.asarray(cov, float)))
        U = U @ W.T
    e = (U ** 2).sum(1) / 2
    K = np.where(e <= 15, np.exp(-np.minimum(e, 15)), 0.0).reshape(shape)
    return K, e.reshape(shape), c


def direct_smooth(x, K, c, normval, scale, loc):
    from scipy.signal import convolve
    full = convolve(x, K, mode="full", method="direct")
    n = x.shape
    return scale * full[c[0]:c[0] + n[0], c[1]:c[1] + n[1], c[2]:c[2] + n[2]] / normval + loc


class C18(PropertyCheck):
    id = "C18"
    title = "Gaussian smoothing is linear, centred, normalised and scaled in world units"
    lean_modules = ["NipyVerif.Props.C18"]
    driver = "Drivers/C18.lean"
    rule = ("cases are (grid shape, affine, FWHM, covariance, normalisation, scale, location, impulse "
            "position, image seed) tuples from a seeded PRNG plus the exhaustive small list of grid parities; "
            "non-trivial = the cropped kernel is larger than one voxel (smoothing is not the identity); "
            "distinct by full JSON of the case")
    assumptions = [
        "exp is external: the Gaussian values the implementation computed (LinearFilter._kernel) are passed "
        "to the smoothing model as exact dyadic rationals; the kernel model returns exact exponents which the "
        "harness compares with -log of those values (rtol 1e-9)",
        "numpy.fft: irfftn(rfftn(x)*rfftn(k)) is the circular convolution on the padded grid (modelled as the "
        "exact circular sum; FFT round-off absorbed by the 1e-9 tolerance of the correspondence)",
        "sqrt(8 log 2) is a parameter c of the width-conversion theorems; the oracle checks c*c = 8 log 2 "
        "and the half-maximum identity numerically",
        "inv(cholesky(cov)) is a parameter (whitening matrix) of the kernel model",
        "comparisons normsq <= 15 are made exactly in the model and in binary64 in the implementation; cases "
        "with an exponent within 1e-9 of 15 are tagged 'boundary' and skipped",
        "ties of the property to Image/coordmap plumbing (shape, coordmap equality, refusals) are oracle-only",
    ]
    level_note = ("crop symmetry for odd grids is proved at axis level under an explicit symmetric-support "
                  "hypothesis (`…_partial`); the Resels/ReselImage estimators of fwhm.py are outside the statement "
                  "and are not modelled")

    # ------------------------------------------------------------------
    def generate(self, rng, tier):
        cases = []
        quick = tier == "quick"
        # exhaustive over grid parity × kernel-to-grid ratio for the centring clause
        sizes = [2, 3, 4, 5, 6, 7, 8] if quick else [1, 2, 3, 4, 5, 6, 7, 8, 9, 10]
        for n in sizes:
            for fw in ([0.5, 1.0, 2.0, 3.0, 40.0] if quick else [0.3, 0.5, 1.0, 1.5, 2.0, 3.0, 5.0, 12.0, 40.0]):
                shape = [n, max(1, (n + 1) // 2), min(n + 1, 6)] if n % 3 == 0 else [n, n, max(1, n - 1)]
                aff = [[1.0, 0, 0, 0], [0, 1.0, 0, 0], [0, 0, 1.0, 0], [0, 0, 0, 1.0]]
                cases.append({"kind": "filter", "shape": shape, "aff": aff, "afftag": "iso", "fwhm": fw,
                              "cov": None, "norm": "l1sum", "scale": 1.0, "loc": 0.0,
                              "p": [min(s - 1, s // 2) for s in shape], "seed": n * 97 + int(fw * 8),
                              "shift": [1, 0, 1], "ab": [2.0, -1.0]})
        n_f = 420 if quick else 4000
        small = [1, 2, 2, 3, 3, 4, 4, 5, 5, 6, 6, 7, 7, 8, 9]
        for _ in range(n_f):
            cases.append(_rand_case(rng, tier, small))
        for _ in range(10 if quick else 100):   # a tail of larger grids
            cases.append(_rand_case(rng, tier, [7, 8, 9, 10, 11, 12]))
        for _ in range(12 if quick else 120):
            cases.append({"kind": "widths", "x": rng.choice([0.0, 1.0, 6.0, 0.3, 2.5, 1e-3, 1e6, -4.0,
                                                                 rng.randrange(1, 4096) / 64.0])})
        for g in [{"affine": True, "ndim": 4}, {"affine": True, "ndim": 2}, {"affine": False, "ndim": 3},
                  {"affine": True, "ndim": 3}]:
            cases.append({"kind": "guard", **g})
        return cases

    # ------------------------------------------------------------------
    def run_case(self, case):
        warnings.filterwarnings("ignore")
        return getattr(self, "_" + case["kind"])(case)

    def _widths(self, c):
        from nipy.algorithms.kernel_smooth import fwhm2sigma, sigma2fwhm
        x = c["x"]
        cst = float(sigma2fwhm(1.0))
        obs = [float(fwhm2sigma(x)), float(sigma2fwhm(x)), float(sigma2fwhm(fwhm2sigma(x))),
               float(fwhm2sigma(sigma2fwhm(x)))]
        fail = None
        if not close(cst * cst, 8 * math.log(2), 1e-14, 0):
            fail = f"sigma2fwhm(1)^2 = {cst * cst!r}, not 8 log 2"
        elif not (close(obs[2], x, 1e-14, 0) and close(obs[3], x, 1e-14, 0)):
            fail = f"width conversions not mutually inverse at {x!r}: {obs[2]!r}, {obs[3]!r}"
        elif x > 0 and not close(math.exp(-((x / 2) ** 2) / (2 * obs[0] ** 2)), 0.5, 1e-12, 0):
            fail = f"Gaussian of sigma fwhm2sigma({x}) is not at half maximum at distance fwhm/2"
        else:
            arr = np.asarray(fwhm2sigma([x, 2 * x, 7.0]))
            if arr.shape != (3,) or arr[0] != obs[0] or float(sigma2fwhm([x])[0]) != obs[1]:
                fail = "array-like width conversion differs from the scalar one"
        return {"lines": [f"widths {fr(cst)} {fr(x)}"], "impl": [("rats", obs, 1e-13)], "oracle": fail,
                "nontrivial": x != 0, "tags": ["widths"]}

    def _guard(self, c):
        from nipy.algorithms.kernel_smooth import LinearFilter
        from nipy.core.api import AffineTransform, CoordinateMap, CoordinateSystem, Image
        nd = c["ndim"]
        names = "ijkl"[:nd]
        try:
            if c["affine"]:
                cm3 = AffineTransform.from_params("ijk", "xyz", np.eye(4))
                cmi = AffineTransform.from_params(names, "xyzt"[:nd], np.eye(nd + 1))
                lf = LinearFilter(cm3, (3, 3, 3), fwhm=2.0)
                out = lf.smooth(Image(np.zeros((3,) * nd), cmi))
                obs = "ok" if out.shape == (3, 3, 3) else f"shape {out.shape}"
            else:
                cm = CoordinateMap(CoordinateSystem("ijk"), CoordinateSystem("xyz"), lambda x: x * 2.0)
                LinearFilter(cm, (3, 3, 3), fwhm=2.0)
                obs = "ok"
        except Exception as e:
            obs = errname(e)
        return {"lines": [f"guard {1 if c['affine'] else 0} {nd}"], "impl": [("text", obs)], "oracle": None,
                "nontrivial": True, "tags": ["guard"]}

    def _filter(self, c):
        from nipy.algorithms.kernel_smooth import LinearFilter, fwhm2sigma
        from nipy.core.api import AffineTransform, Image
        _freeze_once()
        shape = tuple(c["shape"])
        aff = np.asarray(c["aff"], float)
        cm = AffineTransform.from_params("ijk", "xyz", aff)
        cov = None if c["cov"] is None else np.asarray(c["cov"], float)
        fw = c["fwhm"]
        scale, loc, norm = c["scale"], c["loc"], c["norm"]
        tags = ["filter", "aff=" + c["afftag"], "norm=" + norm,
                "parity=" + "".join("e" if n % 2 == 0 else "o" for n in shape)]
        if isinstance(fw, list):
            tags.append("fwhm-per-axis")
        if cov is not None:
            tags.append("cov")
        if scale != 1.0:
            tags.append("scaled")
        if loc != 0.0:
            tags.append("located")
        res = {"lines": [], "impl": [], "oracle": None, "nontrivial": False, "tags": tags, "mutated": None}

        K, E, cen = spec_kernel(shape, aff, fw, cov)
        if np.any(np.abs(E - 15) < 1e-9):
            tags.append("boundary")
            return res
        try:
            lf = LinearFilter(cm, shape, fwhm=fw, scale=scale, location=loc, cov=cov)
            lf.normalization = norm
        except Exception as e:
            res["oracle"] = f"LinearFilter(shape={shape}, fwhm={fw}) raised {type(e).__name__}: {e}"
            return res
        kimpl = np.asarray(lf._kernel)
        res["nontrivial"] = bool(max(kimpl.shape) > 1)
        supp = np.argwhere(K > 0) - cen
        dlo, dhi = supp.min(0), supp.max(0)
        cropped = bool(np.any(cen + dlo == 0) or np.any(cen + dhi == np.array(shape) - 1))
        tags.append("grid-cropped" if cropped else "kernel-inside")
        if np.all(dhi == 0) and np.all(dlo == 0):
            tags.append("kernel-1voxel")
        normval = {"l1sum": K.sum(), "l1": np.abs(K).sum(), "l2": math.sqrt((K ** 2).sum())}[norm]

        # ---- model lines -------------------------------------------------
        sig = np.ones(3) * np.asarray(fwhm2sigma(fw), float)
        W = np.eye(3) if cov is None else np.linalg.inv(np.linalg.cholesky(cov))
        geom = (f"{shape[0]} {shape[1]} {shape[2]} {frs(aff[:3, :3].ravel())} {frs(aff[:3, 3])} "
                f"{frs(sig)} {frs(W.ravel())}")
        res["lines"].append("kernel " + geom)
        res["impl"].append(("kernel", list(kimpl.shape), kimpl.ravel().tolist(), [int(s) for s in lf.shape]))
        nk = norm if norm != "l2" else "l2 " + fr(float(lf.norms["l2"]))
        khead = (f"smooth {geom} {kimpl.shape[0]} {kimpl.shape[1]} {kimpl.shape[2]} {frs(kimpl.ravel())} "
                 f"{nk} {fr(scale)} {fr(loc)} ")

        rs = np.random.RandomState(c["seed"])
        N = int(np.prod(shape))

        def rand_img(density=0.35):
            return (rs.randint(-4, 5, size=shape) * (rs.rand(*shape) < density)).astype(float)

        fails = []

        def smooth(x, what):
            img = Image(x.copy(), cm)
            snap = Snapshot(data=img.get_fdata(), k=lf._kernel)
            try:
                out = lf.smooth(img)
            except Exception as e:
                fails.append(f"smooth({what}) raised {type(e).__name__}: {e} [shape={shape} fwhm={fw} "
                             f"scale={scale} location={loc}]")
                return None
            m = snap.changed()
            if m and not res["mutated"]:
                res["mutated"] = "LinearFilter.smooth:" + m
            o = np.asarray(out.get_fdata())
            if o.shape != shape:
                fails.append(f"smooth({what}): output shape {o.shape}, input shape {shape}")
                return None
            if not (out.coordmap == cm):
                fails.append(f"smooth({what}): output coordinate map differs from the input's")
            return o

        amp = abs(scale) * 4.0 * (K.sum() / normval) + abs(loc) + 1.0
        tol = 1e-9 * amp

        def same(a, b):
            return bool(np.all(np.abs(a - b) <= tol))

        def first_diff(a, b):
            j = np.unravel_index(int(np.argmax(np.abs(a - b))), a.shape)
            return tuple(int(v) for v in j), float(a[j]), float(b[j])

        # impulse: response = the kernel centred on the impulse
        p = tuple(min(int(v), n - 1) for v, n in zip(c["p"], shape))
        imp = np.zeros(shape); imp[p] = 1.0
        o_imp = smooth(imp, f"unit impulse at {p}")
        if o_imp is not None:
            res["lines"].append(khead + frs(imp.ravel())); res["impl"].append(("img", o_imp.ravel().tolist(), tol))
            want = direct_smooth(imp, K, cen, normval, scale, loc)
            if not same(o_imp, want):
                r = (o_imp - loc) * (1 if scale > 0 else -1)
                q = tuple(int(v) for v in np.unravel_index(int(np.argmax(r)), shape))
                j, a, b = first_diff(o_imp, want)
                if q != p and r[q] > r[p] + tol:
                    fails.append(f"impulse at {p} on grid {shape} (fwhm={fw}, kernel shape {kimpl.shape}): response "
                                 f"peaks at {q}, not at the impulse")
                else:
                    fails.append(f"impulse response at {p} on grid {shape} (fwhm={fw}) is not the world-unit Gaussian "
                                 f"kernel centred on the impulse: out{j}={a!r}, kernel value {b!r}")
        # a random image: equals direct convolution
        x = rand_img()
        o_x = smooth(x, "random image")
        if o_x is not None:
            res["lines"].append(khead + frs(x.ravel())); res["impl"].append(("img", o_x.ravel().tolist(), tol))
            want = direct_smooth(x, K, cen, normval, scale, loc)
            if not same(o_x, want) and not fails:
                j, a, b = first_diff(o_x, want)
                fails.append(f"smooth differs from direct convolution with the Gaussian kernel at voxel {j}: "
                             f"{a!r} vs {b!r} [shape={shape} fwhm={fw} norm={norm}]")
        if o_x is not None and not fails:
            # linearity (affine when location != 0)
            y = rand_img(0.6)
            a, b = c["ab"]
            o_y = smooth(y, "second image")
            o_c = smooth(a * x + b * y, "linear combination")
            if o_y is not None and o_c is not None:
                want = a * (o_x - loc) + b * (o_y - loc) + loc
                if not np.all(np.abs(o_c - want) <= tol * (abs(a) + abs(b) + 1)):
                    j, u, v = first_diff(o_c, want)
                    fails.append(f"smooth is not linear: smooth({a}x+{b}y){j}={u!r}, {a}smooth(x)+{b}smooth(y)={v!r}")
            # shift equivariance: move the content by s voxels, nothing leaves the grid
            s = [min(int(v), n - 1) for v, n in zip(c["shift"], shape)]
            if any(s):
                z = np.zeros(shape)
                core = tuple(slice(0, n - d) for n, d in zip(shape, s))
                z[core] = rand_img(0.5)[core]
                zs = np.zeros(shape)
                zs[tuple(slice(d, n) for n, d in zip(shape, s))] = z[core]
                o_z, o_zs = smooth(z, "image"), smooth(zs, "shifted image")
                if o_z is not None and o_zs is not None:
                    A_ = o_zs[tuple(slice(d, n) for n, d in zip(shape, s))]
                    B_ = o_z[core]
                    if not same(A_, B_):
                        fails.append(f"not shift-equivariant: shifting the image by {s} does not shift the result")
                    tags.append("shift-tested")
            # constants stay constant away from the borders
            lo_i, hi_i = dhi, np.array(shape) - 1 + dlo
            if np.all(lo_i <= hi_i) and norm != "l2":
                o_k = smooth(np.full(shape, 3.0), "constant image")
                if o_k is not None:
                    inner = o_k[tuple(slice(int(l), int(h) + 1) for l, h in zip(lo_i, hi_i))]
                    if not same(inner, np.full(inner.shape, scale * 3.0 + loc)):
                        fails.append(f"constant image 3 is not constant in the interior: "
                                     f"value {float(inner.ravel()[0])!r} [shape={shape} fwhm={fw}]")
                    tags.append("constant-tested")
            # total intensity preserved for content away from the borders
            lo_j, hi_j = -dlo, np.array(shape) - 1 - dhi
            if np.all(lo_j <= hi_j):
                m = np.zeros(shape)
                box = tuple(slice(int(l), int(h) + 1) for l, h in zip(lo_j, hi_j))
                m[box] = rs.randint(1, 5, size=m[box].shape)
                o_m = smooth(m, "interior image")
                if o_m is not None:
                    total = scale * m.sum() * (K.sum() / normval) + loc * N
                    if abs(o_m.sum() - total) > tol * N:
                        fails.append(f"total intensity not preserved for content away from the borders: "
                                     f"{float(o_m.sum())!r} vs {float(total)!r} [shape={shape} fwhm={fw}]")
                    tags.append("mass-tested")
        if fails:
            res["oracle"] = fails[0]
        return res

    # ------------------------------------------------------------------
    def compare(self, case, impl_obs, model_out):
        kind = impl_obs[0]
        if kind == "text":
            return None if impl_obs[1] == model_out else f"impl={impl_obs[1]} model={model_out}"
        if model_out.startswith(("error", "bad-op", "empty", "kernel-shape-mismatch")):
            return f"impl returned values, model says {model_out[:80]}"
        if kind in ("rats", "img"):
            vals, tol = impl_obs[1], impl_obs[2]
            mv = parse_rats(model_out)
            if len(mv) != len(vals):
                return f"length impl={len(vals)} model={len(mv)}"
            for k, (a, b) in enumerate(zip(vals, mv)):
                ok = close(a, b, tol, 0) if kind == "rats" else abs(float(a) - float(b)) <= tol
                if not ok:
                    return f"index {k}: impl={float(a)!r} model={float(b)!r}"
            return None
        if kind == "kernel":
            _, kshape, kvals, pshape = impl_obs
            head, _, tail = model_out.partition(" | ")
            h = [int(t) for t in head.split()]
            if h[3:6] != list(kshape):
                return f"cropped kernel shape impl={kshape} model={h[3:6]} (lo={h[0:3]})"
            if h[9:12] != list(pshape):
                return f"padded FFT shape impl={pshape} model={h[9:12]}"
            es = tail.split()
            if len(es) != len(kvals):
                return f"kernel size impl={len(kvals)} model={len(es)}"
            for k, (v, e) in enumerate(zip(kvals, es)):
                if e == "x":
                    if v != 0.0:
                        return f"kernel[{k}] impl={v!r} model: cut off"
                else:
                    w = math.exp(-float(parse_rats(e)[0]))
                    if not close(v, w, 1e-9, 0):
                        return f"kernel[{k}] impl={v!r} model exp(-{e[:40]})={w!r}"
            return None
        return "unknown observation kind"

    def shrink(self, case):
        if case.get("kind") != "filter":
            return
        sh = case["shape"]
        for i in range(3):
            for new in (sh[i] - 2, sh[i] - 1):
                if new >= 1:
                    c = dict(case); s = list(sh); s[i] = new; c["shape"] = s
                    c["p"] = [min(v, n - 1) for v, n in zip(case["p"], s)]
                    yield c
        if case["cov"] is not None:
            c = dict(case); c["cov"] = None; yield c
        if case["norm"] != "l1sum":
            c = dict(case); c["norm"] = "l1sum"; yield c
        if case["loc"] != 0.0:
            c = dict(case); c["loc"] = 0.0; yield c
        if case["scale"] not in (1.0, 2.0):
            c = dict(case); c["scale"] = 2.0; yield c
        if case["scale"] != 1.0:
            c = dict(case); c["scale"] = 1.0; yield c
        ident = [[1.0, 0, 0, 0], [0, 1.0, 0, 0], [0, 0, 1.0, 0], [0, 0, 0, 1.0]]
        if case["aff"] != ident:
            c = dict(case); c["aff"] = ident; c["afftag"] = "iso"; yield c
        if isinstance(case["fwhm"], list):
            c = dict(case); c["fwhm"] = case["fwhm"][0]; yield c
        elif case["fwhm"] not in (1.0, 2.0, 4.0, 8.0):
            for f in (2.0, 4.0, 8.0):
                c = dict(case); c["fwhm"] = f; yield c

    def classify(self, case, failure):
        return None


CHECK = C18()
