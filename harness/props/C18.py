"""C18 — Gaussian smoothing is linear, centred, normalised and scaled in world units.

Correspondence: `LinearFilter._setup_kernel` (crop box, padded shape, Gaussian
exponents) and `LinearFilter.smooth` (values of the smoothed image) vs the Lean
model (exact rationals, tolerance for FFT round-off); `fwhm2sigma`/`sigma2fwhm`;
refusals.  Oracle: the property's clauses evaluated on the real code against an
independently written direct convolution with the world-unit Gaussian.

Extension round: operation histories on one filter object (`hist`: several stored images, spatial and
pre-transformed, `clean`/`is_fft`, re-assigned normalisation/scale/location/fwhm) against the model's state
machine; `_crop` on arbitrary arrays; the norms table; the computed margins of the "away from the borders"
clauses (tested at exactly the margin and one voxel inside it); the `cov` branch as built; exhaustive
impulse positions on small grids; fwhm.py (`Resels`, `_calc_detlam`, refusals of `ReselImage`).
"""
from __future__ import annotations

import math
import warnings
from fractions import Fraction

import numpy as np

from harness.core import PropertyCheck
from harness.util import Snapshot, close, errname, fr, frs, parse_rats
from harness.props import c18_machine as M

C_FWHM = math.sqrt(8.0 * math.log(2.0))

# linear parts (dyadic entries): anisotropic, flipped, permuted, oblique / sheared
LINEARS = [
    ("iso", [[1, 0, 0], [0, 1, 0], [0, 0, 1]]),
    ("aniso", [[2, 0, 0], [0, 1, 0], [0, 0, 3]]),
    ("aniso", [[0.5, 0, 0], [0, 1.5, 0], [0, 0, 4]]),
    ("aniso", [[3, 0, 0], [0, 3, 0], [0, 0, 0.75]]),
    ("flip", [[-1, 0, 0], [0, 1, 0], [0, 0, 1]]),
    ("flip", [[-2, 0, 0], [0, -2, 0], [0, 0, 2.5]]),
    ("flip", [[1, 0, 0], [0, -0.5, 0], [0, 0, -1]]),
    ("perm", [[0, 1, 0], [0, 0, 2], [1.5, 0, 0]]),
    ("perm", [[0, 0, -1], [2, 0, 0], [0, 1, 0]]),
    ("oblique", [[1, 0.5, 0], [-0.5, 1, 0], [0, 0, 2]]),
    ("oblique", [[2, 0, 0.5], [0, 1, 0.25], [-0.5, 0.25, 1]]),
    ("oblique", [[1, 1, 0], [0, 1, 1], [0, 0, 1]]),
    ("oblique", [[1.5, -0.5, 0.25], [0.5, 1.5, -0.25], [0, 0.5, 2]]),
    ("oblique", [[-1, 0.25, 0], [0.25, 1, 0.5], [0.5, 0, -2]]),
]
COVS = [
    [[1, 0, 0], [0, 1, 0], [0, 0, 1]],
    [[4, 0, 0], [0, 1, 0], [0, 0, 0.25]],
    [[2, 1, 0], [1, 2, 0], [0, 0, 1]],
    [[2, 0.5, 0.25], [0.5, 1, 0], [0.25, 0, 1.5]],
]
SMALL_RATIOS = [0.3, 0.5, 0.6, 0.75, 0.9, 1.0, 1.25]      # kernel mostly inside the grid
RATIOS = [1.5, 2.0, 2.5, 3.0, 4.0, 6.0]


def _rand_case(rng, tier, sizes):
    shape = [rng.choice(sizes) for _ in range(3)]
    if rng.random() < 0.2:
        shape = [shape[0]] * 3
    kind, lin = rng.choice(LINEARS)
    trans = [rng.choice([0, 0, -3.5, 12, 0.25, -64]) for _ in range(3)]
    aff = [list(map(float, lin[i])) + [float(trans[i])] for i in range(3)] + [[0.0, 0.0, 0.0, 1.0]]
    vs = [math.sqrt(sum(lin[r][c] ** 2 for r in range(3))) for c in range(3)]   # voxel sizes
    r = rng.random()
    if r < 0.12:
        fwhm = rng.choice([1.0, 2.0, 6.0, 8.0, 0.5, 4.0])          # round numbers of world units
    elif r < 0.5:
        fwhm = rng.choice(SMALL_RATIOS) * min(vs)
        if rng.random() < 0.6:       # room for the whole kernel: interior clauses become non-trivial
            shape = [rng.choice([4, 5, 6, 7, 8, 9]) for _ in range(3)]
    elif r < 0.78:
        fwhm = rng.choice(RATIOS) * rng.choice(vs)
    elif r < 0.9:
        fwhm = rng.choice([1.0, 1.5, 3.0]) * max(n * v for n, v in zip(shape, vs))   # ≥ field of view
    else:
        fwhm = [rng.choice(SMALL_RATIOS + RATIOS) * rng.choice(vs) for _ in range(3)]   # one width per world axis
    cov = None   # covariance whitening is outside the statement (and raises for every 3D grid)
    norm = rng.choice(["l1sum"] * 6 + ["l1", "l2"])
    scale = rng.choice([1.0] * 5 + [2.0, 0.5, -1.0, 3.0])
    loc = rng.choice([0.0] * 5 + [1.0, -2.5, 100.0])
    p = [rng.randrange(n) for n in shape]
    if rng.random() < 0.4:
        p = [min(n - 1, n // 2) for n in shape]
    return {"kind": "filter", "shape": shape, "aff": aff, "afftag": kind, "fwhm": fwhm, "cov": cov,
            "norm": norm, "scale": scale, "loc": loc, "p": p, "seed": rng.randrange(1 << 30),
            "shift": [rng.choice([0, 1, 1, 2]) for _ in range(3)],
            "ab": [rng.choice([1.0, 2.0, -0.5, 3.0]), rng.choice([1.0, -1.0, 0.25])],
            "xvar": rng.choice(M.IMG_VARIANTS)}


def _geom_part(rng, sizes):
    shape = [rng.choice(sizes) for _ in range(3)]
    kind, lin = rng.choice(LINEARS)
    trans = [rng.choice([0, 0, -3.5, 12, 0.25]) for _ in range(3)]
    aff = [list(map(float, lin[i])) + [float(trans[i])] for i in range(3)] + [[0.0, 0.0, 0.0, 1.0]]
    vs = [math.sqrt(sum(lin[r][c] ** 2 for r in range(3))) for c in range(3)]
    r = rng.random()
    if r < 0.5:
        fwhm = rng.choice(SMALL_RATIOS) * min(vs)
    elif r < 0.85:
        fwhm = rng.choice(RATIOS[:4]) * rng.choice(vs)
    elif r < 0.93:
        fwhm = -rng.choice(RATIOS[:3]) * rng.choice(vs)       # only fwhm**2 enters
    else:
        fwhm = [rng.choice(SMALL_RATIOS + RATIOS[:3]) * rng.choice(vs) for _ in range(rng.choice([3, 3, 4]))]
    return shape, aff, kind, fwhm


def _hist_case(rng, tier):
    """one filter object, several caller images, a history of operations"""
    shape, aff, kind, fwhm = _geom_part(rng, [1, 2, 2, 3, 3, 4, 4, 5])
    imgs = []
    for _ in range(rng.choice([1, 2, 2, 3])):
        imgs.append({"t": "s", "seed": rng.randrange(1 << 30), "nan": rng.choice([0, 0, 0, 1, 2]),
                     "inf": rng.choice([0, 0, 0, 0, 0, 1])})
    clean_ix = [i for i, d in enumerate(imgs) if not d["nan"] and not d["inf"]]
    for _ in range(rng.choice([0, 1, 1, 2])):
        if clean_ix and rng.random() < 0.6:
            imgs.append({"t": "p", "of": rng.choice(clean_ix)})     # transform of the zero-padded image `of`
        else:
            imgs.append({"t": "p", "seed": rng.randrange(1 << 30)})  # transform of an arbitrary buffer
    ops = []

    def smooth_op():
        i = rng.randrange(len(imgs))
        isf = (imgs[i]["t"] == "p") if rng.random() < 0.9 else (imgs[i]["t"] != "p")
        return ["smooth", i, rng.random() < 0.4, isf]
    for _ in range(rng.choice([2, 3, 4, 6, 8])):
        r = rng.random()
        if r < 0.72:
            ops.append(smooth_op())
        elif r < 0.82:
            ops.append(["norm", rng.choice(["l1sum", "l1", "l2", "l2", "l1sum", "L1", "sum"])])
        elif r < 0.9:
            ops.append(["scale", rng.choice([1.0, 2.0, 0.5, -1.0, 0.0])])
        elif r < 0.96:
            ops.append(["loc", rng.choice([0.0, 1.0, -2.5, 64.0])])
        else:
            ops.append(["fwhm", rng.choice([1.0, 100.0, 0.25])])
    firsts = [o for o in ops if o[0] == "smooth"] or [smooth_op()]
    ops.append(list(firsts[0]))                      # A, …, A again
    if rng.random() < 0.5:
        ops.append(list(rng.choice(firsts)))
    return {"kind": "hist", "shape": shape, "aff": aff, "afftag": kind, "fwhm": fwhm,
            "norm": rng.choice(["l1sum"] * 4 + ["l1", "l2"]), "scale": rng.choice([1.0] * 3 + [2.0, -0.5]),
            "loc": rng.choice([0.0] * 3 + [1.0, -8.0]), "imgs": imgs, "ops": ops}


def _crop_case(rng):
    shape = [rng.choice([1, 1, 2, 3, 4, 5]) for _ in range(3)]
    return {"kind": "crop", "shape": shape, "seed": rng.randrange(1 << 30),
            "density": rng.choice([0.0, 0.05, 0.2, 0.5, 1.0]), "tol": rng.choice([1e-10, 0.0, 0.5, 1.0, 2.0]),
            "tiny": rng.random() < 0.3}


def _resel_case(rng):
    kind, lin = rng.choice(LINEARS)
    return {"kind": "resel", "lin": lin, "afftag": kind, "D": rng.choice([3, 3, 3, 2, 1]),
            "f": [rng.choice([0.0, 1.0, 2.5, 6.0, -1.0, 0.125, rng.randrange(1, 640) / 32.0]) for _ in range(4)],
            "seed": rng.randrange(1 << 30), "n": rng.choice([1, 2, 5, 12]),
            "mask": rng.choice(["none", "bool", "float", "zero", "int8", "uint8", "bool-F"])}


def _cov_case(rng):
    shape, aff, kind, fwhm = _geom_part(rng, [1, 2, 3, 3, 3, 4, 5])
    if rng.random() < 0.55:
        shape[1] = 3
    if isinstance(fwhm, list):
        fwhm = fwhm[:3]
    cov = rng.choice(COVS + [[[1, 2, 0], [2, 1, 0], [0, 0, 1]]])      # the last one is not positive definite
    return {"kind": "covk", "shape": shape, "aff": aff, "afftag": kind, "fwhm": fwhm, "cov": cov}


_FROZEN = False


def _freeze_once():
    """`smooth` calls gc.collect() three times per image; freezing the objects that exist after the
    imports keeps those collections cheap (no effect on what the code computes)."""
    global _FROZEN
    if not _FROZEN:
        import gc
        import scipy.signal  # noqa: F401
        gc.collect(); gc.freeze()
        _FROZEN = True


def spec_kernel(shape, aff, fwhm, cov):
    """The kernel the property describes, on the implementation's truncated support:
    Gaussian of the given FWHM in world units of the displacement from the centre voxel
    ⌊(n-1)/2⌋, kept where the exponent is ≤ 15 (the implementation's stated cut-off)."""
    shape = tuple(shape)
    A = np.asarray(aff, float)[:3, :3]
    c = (np.array(shape) - 1) // 2
    sig = np.ones(3) * np.asarray(fwhm, float) / C_FWHM
    d = np.indices(shape).reshape(3, -1).T - c
    U = (d @ A.T) / sig
    if cov is not None:
        W = np.linalg.inv(np.linalg.cholesky(np.asarray(cov, float)))
        U = U @ W.T
    e = (U ** 2).sum(1) / 2
    K = np.where(e <= 15, np.exp(-np.minimum(e, 15)), 0.0).reshape(shape)
    return K, e.reshape(shape), c


def direct_smooth(x, K, c, normval, scale, loc):
    from scipy.signal import convolve
    full = convolve(x, K, mode="full", method="direct")
    n = x.shape
    return scale * full[c[0]:c[0] + n[0], c[1]:c[1] + n[1], c[2]:c[2] + n[2]] / normval + loc


class C18(PropertyCheck):
    id = "C18"
    title = "Gaussian smoothing is linear, centred, normalised and scaled in world units"
    lean_modules = ["NipyVerif.Props.C18", "NipyVerif.Props.C18B", "NipyVerif.Props.C18C", "NipyVerif.Props.C18D",
                    "NipyVerif.Props.C18R"]
    driver = "Drivers/C18.lean"
    rule = ("cases are (grid shape, affine, FWHM, normalisation, scale, location, impulse position, image seed) "
            "tuples from a seeded PRNG plus the exhaustive small list of grid parities, the images handed over as float64 / "
            "float32 / int8 / int16 / int32 / int64 / uint8, C / Fortran / strided / negative-stride / read-only; operation "
            "histories on one filter object (hist: 1-3 spatial images with NaN/inf, 0-2 pre-transformed images, 3-10 operations; "
            "hist2: the object with editable attributes — smooth(clean, is_fft), __call__ / _normsq on point arrays of every "
            "dtype / layout / number of coordinates, _presmooth, assignments of normalization / scale / location / fwhm (scalar, "
            "3-, 4-, too short sequences, negative) / cov (None, four positive definite, one indefinite), re-runs of "
            "_setup_kernel(), pre-transformed images made by _presmooth at first use, image magnitudes 2^-40 … 2^100, the "
            "first request repeated at the end); every impulse position of small grids (all shapes ≤ 5×5×5 in the thorough "
            "tier); `_crop` arrays; `cov` filters; Resels conversions with bool / float / int8 / uint8 / strided masks; refusal "
            "tables.  Non-trivial = the cropped kernel is larger than one voxel (smoothing is not the identity) resp. a "
            "non-empty array / non-zero width; distinct by full JSON of the case")
    assumptions = [
        "exp is external: the Gaussian values the implementation computed (LinearFilter._kernel, at every _setup_kernel) are "
        "passed to the smoothing model as exact dyadic rationals; the kernel / __call__ model returns exact exponents which "
        "the harness compares with -log of those values (rtol 1e-9). The normalisation theorems take E q = exp(-q) as a "
        "parameter with E 0 = 1 and 0 < E <= 1 on [0, inf) (true of the real exponential: exp_neg_meets_kernel_hypotheses; "
        "of its binary64 rounding by monotonicity of a correctly rounded exp — not proved)",
        "numpy.fft: irfftn(rfftn(x)*rfftn(k)) is the circular convolution on the padded grid (modelled as the exact circular "
        "sum; FFT round-off absorbed by the 1e-9 tolerance of the correspondence, relative to |scale|*max|x|*l1sum/norm + "
        "|location|); a pre-transformed image (is_fft=True) is represented in the model by the buffer it is the transform of "
        "and the shape of that buffer",
        "NaN/inf reaching the FFT give no finite output (model answer `nonfinite`); values at the binary64 limit after "
        "nan_to_num(±inf) are `unspecified` in the model (float overflow) and not compared",
        "sqrt(8 log 2) and sqrt(4 log 2) are parameters c, c4 of the rational conversion theorems (the float quotient "
        "fwhm / c is passed in as sigma with every assignment of fwhm); that c^2 = 8 log 2 and that the Gaussian of sigma = "
        "fwhm / c is at half maximum at distance fwhm / 2 is proved over the reals (Props/C18R) and checked numerically by the "
        "oracle; D-th roots (np.power(x, 1/D)) and the l2 norm's square root are passed in, the model returns root**D resp. "
        "the sum of squares for comparison",
        "inv(cholesky(cov)) is a parameter (whitening matrix W, with a positive-definite flag) of the kernel model; theorem "
        "whitening_is_inverse_cov takes the contract W L = L W = 1, L L^T = cov as hypotheses. With `cov`, __call__ / "
        "_normsq on 2-D point arrays whiten as intended (modelled, compared); _setup_kernel's 4-D array goes through np.dot "
        "as built (refusal unless the second grid axis has length 3, then the array NumPy's dot produces: `covkernel` lines; in "
        "a history the object is then `wild` = not modelled until the next successful _setup_kernel) and carries no oracle: "
        "the property's quantifier does not include `cov`",
        "comparisons normsq <= 15 are made exactly in the model and in binary64 in the implementation; cases with an "
        "exponent within 1e-9 of 15 under any width the history builds a kernel with are tagged 'boundary' and skipped; that "
        "exp(-15) is above _crop's tolerance 1e-10 (so the stored kernel's box is the box of {exponent <= 15}) is proved "
        "(exp_neg_cutoff_gt_tol)",
        "__call__ / _normsq on integer point arrays are modelled as built and carry no oracle (outside the statement, which "
        "is about smoothing images): 2-D integer arrays are refused (in-place true division), a 1-D integer point is "
        "silently truncated after the division (model answer `unspecified`)",
        "ties of the property to Image/coordmap plumbing (shape, coordmap equality) are oracle-only; refusals are tables in "
        "the model (argGuard, fwhmGuard, ptsGuard, covGuard, reselImageGuard, iterGuard) compared with the raised exception; "
        "4-D input is refused as built (NotImplementedError), so there is no time axis to leave untouched",
        "Resels.fwhm2resel/resel2fwhm are modelled as built; they are mutually inverse only for wedge = 1 "
        "(theorem resel_inverse_iff_unit_wedge) — outside the statement, whose inverse clause names width/standard "
        "deviation (fwhm2sigma/sigma2fwhm), so no oracle is attached to it",
        "formula-like source (padding, centre voxel, centre index, norms table, cut-off / halving / clamp of __call__, the "
        "scale / location statements of smooth, the output window, _crop's tolerance / corner / box, the four width and resel "
        "formulas, _calc_detlam, constructor defaults) is re-read from /repo's text on every run (Gen/C18Source.lean) and "
        "proved equal to the model for all arguments (Props/C18D); statement shapes the translator does not recognise are a "
        "broken tie",
    ]
    level_note = ("proved for all inputs of the exact model: smooth = direct convolution (the FFT circle as written in the "
                  "source is 3 + off + (n+k) mod 2 points longer than the exact least length needLen = n+k-1-off, which is "
                  "sharp); linearity, scale/location, impulse response and centring, shift equivariance; constants and total "
                  "intensity for every normalisation / scale / location with margins that are sharp for both clauses; no "
                  "norm can vanish; the kernel as the world-unit Gaussian for every invertible affine and, with cov, the "
                  "quadratic form with matrix cov^-1; the object: no operation touches caller data, smooth reads only what "
                  "_setup_kernel built + three settings, fwhm/cov edits are inert for smooth until _setup_kernel and live for "
                  "__call__, re-running _setup_kernel = constructing afresh. Parameters, not proved: exp values (binary64), "
                  "FFT round-off, roots, inv(cholesky). As built and outside the statement: cov in _setup_kernel, integer "
                  "point arrays in __call__, 4-D input (refused), ReselImage / Resels.__iter__ (refusal tables)")

    def translators(self):
        from harness.core import REPO, TieBroken
        from harness.props import c18_translate
        return c18_translate.translate(REPO, TieBroken)

    # ------------------------------------------------------------------
    def generate(self, rng, tier):
        cases = []
        quick = tier == "quick"
        # exhaustive over grid parity × kernel-to-grid ratio for the centring clause
        sizes = [2, 3, 4, 5, 6, 7, 8] if quick else [1, 2, 3, 4, 5, 6, 7, 8, 9, 10]
        for n in sizes:
            for fw in ([0.5, 1.0, 2.0, 3.0, 40.0] if quick else [0.3, 0.5, 1.0, 1.5, 2.0, 3.0, 5.0, 12.0, 40.0]):
                shape = [n, max(1, (n + 1) // 2), min(n + 1, 6)] if n % 3 == 0 else [n, n, max(1, n - 1)]
                aff = [[1.0, 0, 0, 0], [0, 1.0, 0, 0], [0, 0, 1.0, 0], [0, 0, 0, 1.0]]
                cases.append({"kind": "filter", "shape": shape, "aff": aff, "afftag": "iso", "fwhm": fw,
                              "cov": None, "norm": "l1sum", "scale": 1.0, "loc": 0.0,
                              "p": [min(s - 1, s // 2) for s in shape], "seed": n * 97 + int(fw * 8),
                              "shift": [1, 0, 1], "ab": [2.0, -1.0]})
        n_f = 420 if quick else 4000
        small = [1, 2, 2, 3, 3, 4, 4, 5, 5, 6, 6, 7, 7, 8, 9]
        for _ in range(n_f):
            cases.append(_rand_case(rng, tier, small))
        for _ in range(10 if quick else 100):   # a tail of larger grids
            cases.append(_rand_case(rng, tier, [7, 8, 9, 10, 11, 12]))
        for _ in range(12 if quick else 120):
            cases.append({"kind": "widths", "x": rng.choice([0.0, 1.0, 6.0, 0.3, 2.5, 1e-3, 1e6, -4.0,
                                                                 rng.randrange(1, 4096) / 64.0])})
        for g in [{"affine": True, "ndim": 4}, {"affine": True, "ndim": 2}, {"affine": False, "ndim": 3},
                  {"affine": True, "ndim": 3}]:
            cases.append({"kind": "guard", **g})
        # --- extension round -------------------------------------------------------------
        for _ in range(110 if quick else 1500):
            cases.append(_hist_case(rng, tier))
        # --- wave 3: the filter as an object (attribute edits, re-runs of _setup_kernel, __call__/_normsq/_presmooth)
        for _ in range(120 if quick else 2000):
            cases.append(M.gen_hist2(rng, _geom_part, "object"))
        for _ in range(50 if quick else 800):
            cases.append(M.gen_hist2(rng, _geom_part, "points"))
        for _ in range(30 if quick else 400):
            cases.append(_crop_case(rng))
        for _ in range(20 if quick else 250):
            cases.append(_resel_case(rng))
        for _ in range(24 if quick else 300):
            cases.append(_cov_case(rng))
        for _ in range(6 if quick else 40):
            cases.append({"kind": "widthsv", "xs": [rng.choice([0.0, 1.0, 6.0, -4.0, 1e-3, rng.randrange(1, 4096) / 64.0])
                                                      for _ in range(rng.choice([0, 1, 3, 7]))],
                          "nd": rng.choice([1, 1, 2])})
        for kind_, nd_, ish_ in [("list", 3, [3, 3, 3]), ("array", 3, [3, 4, 2]), ("array", 4, [2, 3, 4]),
                                 ("array", 2, [1, 3, 4]), ("image", 1, [1, 1, 3]), ("image", 5, [3, 4, 2]),
                                 ("image", 3, [3, 4, 2]), ("image", 3, [3, 4, 3]), ("image", 3, [1, 4, 2]),
                                 ("image", 3, [1, 1, 1]), ("image", 3, [3, 1, 2]), ("image", 3, [2, 4, 2]),
                                 ("image", 3, [3, 4, 1]), ("image", 3, [4, 4, 2])]:
            cases.append({"kind": "argguard", "arg": kind_, "ndim": nd_, "ish": ish_, "bshape": [3, 4, 2]})
        for ln in [0, 1, 2, 3, 4, 6]:
            cases.append({"kind": "fwhmguard", "len": ln})
        for a, b in [(0, 0), (1, 0), (0, 1), (1, 1), (5, 0), (0, 5), (5, 5), (1, 5), (5, 1)]:
            cases.append({"kind": "reselimage", "nres": a, "nfwhm": b})
        for a, b in [(0, 0), (0, 1), (1, 1)]:
            cases.append({"kind": "reseliter", "ri": a, "hasfwhm": b})
        # exhaustive impulse positions on small grids (all shapes ≤ 5×5×5 in the thorough tier)
        if quick:
            shapes = [[rng.randint(1, 5) for _ in range(3)] for _ in range(10)] + [[5, 5, 5], [4, 4, 4], [1, 1, 1]]
        else:
            shapes = [[a, b, c] for a in range(1, 6) for b in range(1, 6) for c in range(1, 6)]
        for sh in shapes:
            for fw_ in ([rng.choice([0.6, 1.5, 2.5, 4.0, 12.0])] if quick else [0.6, 1.5, 2.5, 4.0, 12.0]):
                k_, lin_ = rng.choice(LINEARS[:7] + LINEARS[9:11])
                cases.append({"kind": "exh", "shape": sh, "fwhm": fw_, "afftag": k_,
                              "aff": [list(map(float, lin_[i])) + [0.0] for i in range(3)] + [[0.0, 0.0, 0.0, 1.0]],
                              "norm": rng.choice(["l1sum", "l1sum", "l1", "l2"]), "scale": rng.choice([1.0, 1.0, -2.0]),
                              "loc": rng.choice([0.0, 0.0, 3.0]), "mp": [rng.randrange(n) for n in sh]})
        return cases

    # ------------------------------------------------------------------
    def run_case(self, case):
        warnings.filterwarnings("ignore")
        return getattr(self, "_" + case["kind"])(case)

    def _widths(self, c):
        from nipy.algorithms.kernel_smooth import fwhm2sigma, sigma2fwhm
        x = c["x"]
        cst = float(sigma2fwhm(1.0))
        obs = [float(fwhm2sigma(x)), float(sigma2fwhm(x)), float(sigma2fwhm(fwhm2sigma(x))),
               float(fwhm2sigma(sigma2fwhm(x)))]
        fail = None
        if not close(cst * cst, 8 * math.log(2), 1e-14, 0):
            fail = f"sigma2fwhm(1)^2 = {cst * cst!r}, not 8 log 2"
        elif not (close(obs[2], x, 1e-14, 0) and close(obs[3], x, 1e-14, 0)):
            fail = f"width conversions not mutually inverse at {x!r}: {obs[2]!r}, {obs[3]!r}"
        elif x > 0 and not close(math.exp(-((x / 2) ** 2) / (2 * obs[0] ** 2)), 0.5, 1e-12, 0):
            fail = f"Gaussian of sigma fwhm2sigma({x}) is not at half maximum at distance fwhm/2"
        else:
            arr = np.asarray(fwhm2sigma([x, 2 * x, 7.0]))
            if arr.shape != (3,) or arr[0] != obs[0] or float(sigma2fwhm([x])[0]) != obs[1]:
                fail = "array-like width conversion differs from the scalar one"
        return {"lines": [f"widths {fr(cst)} {fr(x)}"], "impl": [("rats", obs, 1e-13)], "oracle": fail,
                "nontrivial": x != 0, "tags": ["widths"]}

    def _guard(self, c):
        from nipy.algorithms.kernel_smooth import LinearFilter
        from nipy.core.api import AffineTransform, CoordinateMap, CoordinateSystem, Image
        nd = c["ndim"]
        names = "ijkl"[:nd]
        try:
            if c["affine"]:
                cm3 = AffineTransform.from_params("ijk", "xyz", np.eye(4))
                cmi = AffineTransform.from_params(names, "xyzt"[:nd], np.eye(nd + 1))
                lf = LinearFilter(cm3, (3, 3, 3), fwhm=2.0)
                out = lf.smooth(Image(np.zeros((3,) * nd), cmi))
                obs = "ok" if out.shape == (3, 3, 3) else f"shape {out.shape}"
            else:
                cm = CoordinateMap(CoordinateSystem("ijk"), CoordinateSystem("xyz"), lambda x: x * 2.0)
                LinearFilter(cm, (3, 3, 3), fwhm=2.0)
                obs = "ok"
        except Exception as e:
            obs = errname(e)
        return {"lines": [f"guard {1 if c['affine'] else 0} {nd}"], "impl": [("text", obs)], "oracle": None,
                "nontrivial": True, "tags": ["guard"]}

    def _filter(self, c):
        from nipy.algorithms.kernel_smooth import LinearFilter, fwhm2sigma
        from nipy.core.api import AffineTransform, Image
        _freeze_once()
        shape = tuple(c["shape"])
        aff = np.asarray(c["aff"], float)
        cm = AffineTransform.from_params("ijk", "xyz", aff)
        cov = None if c["cov"] is None else np.asarray(c["cov"], float)
        fw = c["fwhm"]
        scale, loc, norm = c["scale"], c["loc"], c["norm"]
        tags = ["filter", "aff=" + c["afftag"], "norm=" + norm,
                "parity=" + "".join("e" if n % 2 == 0 else "o" for n in shape)]
        if isinstance(fw, list):
            tags.append("fwhm-per-axis")
        if cov is not None:
            tags.append("cov")
        if scale != 1.0:
            tags.append("scaled")
        if loc != 0.0:
            tags.append("located")
        res = {"lines": [], "impl": [], "oracle": None, "nontrivial": False, "tags": tags, "mutated": None}

        K, E, cen = spec_kernel(shape, aff, fw, cov)
        if np.any(np.abs(E - 15) < 1e-9):
            tags.append("boundary")
            return res
        try:
            lf = LinearFilter(cm, shape, fwhm=fw, scale=scale, location=loc, cov=cov)
            lf.normalization = norm
        except Exception as e:
            res["oracle"] = f"LinearFilter(shape={shape}, fwhm={fw}) raised {type(e).__name__}: {e}"
            return res
        kimpl = np.asarray(lf._kernel)
        res["nontrivial"] = bool(max(kimpl.shape) > 1)
        supp = np.argwhere(K > 0) - cen
        dlo, dhi = supp.min(0), supp.max(0)
        cropped = bool(np.any(cen + dlo == 0) or np.any(cen + dhi == np.array(shape) - 1))
        tags.append("grid-cropped" if cropped else "kernel-inside")
        if np.all(dhi == 0) and np.all(dlo == 0):
            tags.append("kernel-1voxel")
        normval = {"l1sum": K.sum(), "l1": np.abs(K).sum(), "l2": math.sqrt((K ** 2).sum())}[norm]

        # ---- model lines -------------------------------------------------
        sig = np.ones(3) * np.asarray(fwhm2sigma(fw), float)
        W = np.eye(3) if cov is None else np.linalg.inv(np.linalg.cholesky(cov))
        geom = (f"{shape[0]} {shape[1]} {shape[2]} {frs(aff[:3, :3].ravel())} {frs(aff[:3, 3])} "
                f"{frs(sig)} {frs(W.ravel())}")
        res["lines"].append("kernel " + geom)
        kc = getattr(lf, "_kcenter", None)     # private attribute: its absence is no failure by itself
        kc = [int(v) for v in kc] if kc is not None else [int(-v) for v in dlo]
        res["impl"].append(("kernel", list(kimpl.shape), kimpl.ravel().tolist(), [int(s) for s in lf.shape], kc))
        # margins of the "away from the borders" clauses, from the implementation's kernel box
        res["lines"].append("margins " + geom)
        res["impl"].append(("text", " ".join(str(v) for v in [kimpl.shape[i] - 1 - kc[i] for i in range(3)] + kc)))
        # the norms table
        res["lines"].append(f"norms {kimpl.shape[0]} {kimpl.shape[1]} {kimpl.shape[2]} {frs(kimpl.ravel())}")
        res["impl"].append(("rats", [float(lf.norms["l1sum"]), float(lf.norms["l1"]), float(lf.norms["l2"]) ** 2], 1e-12))
        # the FFT circle: padded length as built, least length without wrap into the window, the slack
        for ax in range(3):
            n_, k_, o_ = shape[ax], int(kimpl.shape[ax]), kc[ax]
            if 0 <= o_ < k_:
                res["lines"].append(f"padinfo {n_} {k_} {o_}")
                res["impl"].append(("text", f"{int(lf.shape[ax])} {n_ + k_ - 1 - o_} {int(lf.shape[ax]) - (n_ + k_ - 1 - o_)}"))
        if [kimpl.shape[i] - 1 - kc[i] for i in range(3)] != [int(v) for v in dhi] or kc != [int(-v) for v in dlo]:
            res["oracle"] = (f"kernel box of LinearFilter(shape={shape}, fwhm={fw}) is not the support of the world-unit "
                             f"Gaussian about the centre voxel: extents above/below centre {[kimpl.shape[i] - 1 - kc[i] for i in range(3)]}/{kc}, "
                             f"expected {[int(v) for v in dhi]}/{[int(-v) for v in dlo]}")
            return res
        nk = norm if norm != "l2" else "l2 " + fr(float(lf.norms["l2"]))
        khead = (f"smooth {geom} {kimpl.shape[0]} {kimpl.shape[1]} {kimpl.shape[2]} {frs(kimpl.ravel())} "
                 f"{nk} {fr(scale)} {fr(loc)} ")

        rs = np.random.RandomState(c["seed"])
        N = int(np.prod(shape))

        def rand_img(density=0.35):
            return (rs.randint(-4, 5, size=shape) * (rs.rand(*shape) < density)).astype(float)

        fails = []

        xvar = c.get("xvar", "float64")
        if xvar != "float64":
            tags.append("img-" + xvar)

        def smooth(x, what):
            # the same numbers in the case's dtype / memory layout (when they are representable)
            arr = M.as_variant(x.copy(), xvar)
            img = Image(arr, cm)
            snap = Snapshot(data=arr, k=lf._kernel)
            try:
                out = lf.smooth(img)
            except Exception as e:
                fails.append(f"smooth({what}) raised {type(e).__name__}: {e} [shape={shape} fwhm={fw} "
                             f"scale={scale} location={loc}]")
                return None
            m = snap.changed()
            if m and not res["mutated"]:
                res["mutated"] = "LinearFilter.smooth:" + m
            o = np.asarray(out.get_fdata())
            if o.shape != shape:
                fails.append(f"smooth({what}): output shape {o.shape}, input shape {shape}")
                return None
            if not (out.coordmap == cm):
                fails.append(f"smooth({what}): output coordinate map differs from the input's")
            return o

        amp = abs(scale) * 4.0 * (K.sum() / normval) + abs(loc) + 1.0
        tol = 1e-9 * amp

        def same(a, b):
            return bool(np.all(np.abs(a - b) <= tol))

        def first_diff(a, b):
            j = np.unravel_index(int(np.argmax(np.abs(a - b))), a.shape)
            return tuple(int(v) for v in j), float(a[j]), float(b[j])

        # impulse: response = the kernel centred on the impulse
        p = tuple(min(int(v), n - 1) for v, n in zip(c["p"], shape))
        imp = np.zeros(shape); imp[p] = 1.0
        o_imp = smooth(imp, f"unit impulse at {p}")
        if o_imp is not None:
            res["lines"].append(khead + frs(imp.ravel())); res["impl"].append(("img", o_imp.ravel().tolist(), tol))
            want = direct_smooth(imp, K, cen, normval, scale, loc)
            if not same(o_imp, want):
                r = (o_imp - loc) * (1 if scale > 0 else -1)
                q = tuple(int(v) for v in np.unravel_index(int(np.argmax(r)), shape))
                j, a, b = first_diff(o_imp, want)
                if q != p and r[q] > r[p] + tol:
                    fails.append(f"impulse at {p} on grid {shape} (fwhm={fw}, kernel shape {kimpl.shape}): response "
                                 f"peaks at {q}, not at the impulse")
                else:
                    fails.append(f"impulse response at {p} on grid {shape} (fwhm={fw}) is not the world-unit Gaussian "
                                 f"kernel centred on the impulse: out{j}={a!r}, kernel value {b!r}")
        # a random image: equals direct convolution
        x = rand_img()
        o_x = smooth(x, "random image")
        if o_x is not None:
            res["lines"].append(khead + frs(x.ravel())); res["impl"].append(("img", o_x.ravel().tolist(), tol))
            want = direct_smooth(x, K, cen, normval, scale, loc)
            if not same(o_x, want) and not fails:
                j, a, b = first_diff(o_x, want)
                fails.append(f"smooth differs from direct convolution with the Gaussian kernel at voxel {j}: "
                             f"{a!r} vs {b!r} [shape={shape} fwhm={fw} norm={norm}]")
        if o_x is not None and not fails:
            # pre-transformed input (is_fft=True): same answer as the plain call, the same answer when
            # asked twice, and the caller's transform is left alone
            buf = np.zeros(tuple(int(v) for v in lf.shape))
            buf[:shape[0], :shape[1], :shape[2]] = x
            fimg = Image(np.fft.rfftn(buf), cm)
            fsnap = Snapshot(fft_data=fimg.get_fdata())
            outs_f = []
            for rep in (1, 2):
                try:
                    outs_f.append(np.asarray(lf.smooth(fimg, is_fft=True).get_fdata()))
                except Exception as e:
                    fails.append(f"smooth(pre-transformed image, is_fft=True) raised {type(e).__name__}: {e} [shape={shape}]")
                    break
            m = fsnap.changed()
            if m:
                res["mutated"] = res["mutated"] or "LinearFilter.smooth(is_fft=True):" + m
            if len(outs_f) == 2 and not fails:
                tags.append("isfft-tested")
                if outs_f[0].shape != shape or not same(outs_f[0], o_x):
                    fails.append(f"smooth(rfftn(padded x), is_fft=True) differs from smooth(x): shape {outs_f[0].shape}"
                                 + ("" if outs_f[0].shape != shape else " at voxel %s: %r vs %r" % first_diff(outs_f[0], o_x))
                                 + f" [shape={shape} fwhm={fw}]")
                elif not same(outs_f[1], outs_f[0]):
                    j, u, v = first_diff(outs_f[1], outs_f[0])
                    fails.append(f"smoothing the same pre-transformed image twice gives different results (voxel {j}: "
                                 f"{v!r} then {u!r}); the first call overwrote the caller's data [shape={shape} fwhm={fw}]")
                elif m:
                    fails.append(f"smooth(is_fft=True) changed the caller's image data [shape={shape} fwhm={fw}]")
        if o_x is not None and not fails:
            # linearity (affine when location != 0)
            y = rand_img(0.6)
            a, b = c["ab"]
            o_y = smooth(y, "second image")
            o_c = smooth(a * x + b * y, "linear combination")
            if o_y is not None and o_c is not None:
                want = a * (o_x - loc) + b * (o_y - loc) + loc
                if not np.all(np.abs(o_c - want) <= tol * (abs(a) + abs(b) + 1)):
                    j, u, v = first_diff(o_c, want)
                    fails.append(f"smooth is not linear: smooth({a}x+{b}y){j}={u!r}, {a}smooth(x)+{b}smooth(y)={v!r}")
            # shift equivariance: move the content by s voxels, nothing leaves the grid
            s = [min(int(v), n - 1) for v, n in zip(c["shift"], shape)]
            if any(s):
                z = np.zeros(shape)
                core = tuple(slice(0, n - d) for n, d in zip(shape, s))
                z[core] = rand_img(0.5)[core]
                zs = np.zeros(shape)
                zs[tuple(slice(d, n) for n, d in zip(shape, s))] = z[core]
                o_z, o_zs = smooth(z, "image"), smooth(zs, "shifted image")
                if o_z is not None and o_zs is not None:
                    A_ = o_zs[tuple(slice(d, n) for n, d in zip(shape, s))]
                    B_ = o_z[core]
                    if not same(A_, B_):
                        fails.append(f"not shift-equivariant: shifting the image by {s} does not shift the result")
                    tags.append("shift-tested")
            # constants stay constant away from the borders
            lo_i, hi_i = dhi, np.array(shape) - 1 + dlo
            if np.all(lo_i <= hi_i) and norm != "l2":
                o_k = smooth(np.full(shape, 3.0), "constant image")
                if o_k is not None:
                    inner = o_k[tuple(slice(int(l), int(h) + 1) for l, h in zip(lo_i, hi_i))]
                    if not same(inner, np.full(inner.shape, scale * 3.0 + loc)):
                        fails.append(f"constant image 3 is not constant in the interior: "
                                     f"value {float(inner.ravel()[0])!r} [shape={shape} fwhm={fw}]")
                    tags.append("constant-tested")
                    # one voxel inside the margin the clause does not apply (recorded, not a violation)
                    lo1, hi1 = np.maximum(lo_i - 1, 0), np.minimum(hi_i + 1, np.array(shape) - 1)
                    if np.any(lo1 < lo_i) or np.any(hi1 > hi_i):
                        ring = np.ones(shape, bool)
                        ring[tuple(slice(int(l), int(h) + 1) for l, h in zip(lo_i, hi_i))] = False
                        keep = np.zeros(shape, bool)
                        keep[tuple(slice(int(l), int(h) + 1) for l, h in zip(lo1, hi1))] = True
                        ring &= keep
                        off = np.abs(o_k[ring] - (scale * 3.0 + loc)) > tol
                        tags.append("constant-inside-margin-" + ("all-differ" if off.all() else "some-same" if off.any() else "same"))
            # total intensity preserved for content away from the borders
            lo_j, hi_j = -dlo, np.array(shape) - 1 - dhi
            if np.all(lo_j <= hi_j):
                m = np.zeros(shape)
                box = tuple(slice(int(l), int(h) + 1) for l, h in zip(lo_j, hi_j))
                m[box] = rs.randint(1, 5, size=m[box].shape)
                o_m = smooth(m, "interior image")
                if o_m is not None:
                    total = scale * m.sum() * (K.sum() / normval) + loc * N
                    if abs(o_m.sum() - total) > tol * N:
                        fails.append(f"total intensity not preserved for content away from the borders: "
                                     f"{float(o_m.sum())!r} vs {float(total)!r} [shape={shape} fwhm={fw}]")
                    tags.append("mass-tested")
                    # a unit mass one voxel outside the content box: may lose mass (recorded, not a violation)
                    for ax in range(3):
                        q = [int(v) for v in lo_j]
                        q[ax] -= 1
                        if q[ax] >= 0:
                            u1 = np.zeros(shape); u1[tuple(q)] = 1.0
                            o_u = smooth(u1, "unit mass inside the margin")
                            if o_u is not None:
                                lost = abs(o_u.sum() - (scale * (K.sum() / normval) + loc * N)) > tol * N
                                tags.append("mass-inside-margin-" + ("lost" if lost else "kept"))
                            break
        if fails:
            res["oracle"] = fails[0]
        return res

    # ------------------------------------------------------------------
    # extension round
    @staticmethod
    def _geom(shape, aff, fw):
        from nipy.algorithms.kernel_smooth import fwhm2sigma
        f3 = fw[:3] if isinstance(fw, list) else fw
        sig = np.ones(3) * np.asarray(fwhm2sigma(f3), float)
        return (f"{shape[0]} {shape[1]} {shape[2]} {frs(aff[:3, :3].ravel())} {frs(aff[:3, 3])} "
                f"{frs(sig)} {frs(np.eye(3).ravel())}")

    @staticmethod
    def _tok(v):
        v = float(v)
        return "nan" if v != v else "inf" if v == math.inf else "-inf" if v == -math.inf else fr(v)

    def _hist(self, c):
        from nipy.algorithms.kernel_smooth import LinearFilter
        from nipy.core.api import AffineTransform, Image
        _freeze_once()
        shape = tuple(c["shape"])
        aff = np.asarray(c["aff"], float)
        cm = AffineTransform.from_params("ijk", "xyz", aff)
        fw = c["fwhm"]
        f3 = fw[:3] if isinstance(fw, list) else fw
        tags = ["hist", "aff=" + c["afftag"]]
        res = {"lines": [], "impl": [], "oracle": None, "nontrivial": False, "tags": tags, "mutated": None}
        K, E, cen = spec_kernel(shape, aff, f3, None)
        if np.any(np.abs(E - 15) < 1e-9):
            tags.append("boundary")
            return res
        try:
            lf = LinearFilter(cm, shape, fwhm=fw, scale=c["scale"], location=c["loc"])
            lf.normalization = c["norm"]
        except Exception as e:
            res["oracle"] = f"LinearFilter(shape={shape}, fwhm={fw}) raised {type(e).__name__}: {e}"
            return res
        kimpl = np.asarray(lf._kernel)
        res["nontrivial"] = bool(max(kimpl.shape) > 1)
        P = tuple(int(v) for v in lf.shape)
        N = int(np.prod(shape))
        datas, toks, bufs = [], [], []
        for d in c["imgs"]:
            if d["t"] == "s":
                rs = np.random.RandomState(d["seed"])
                x = (rs.randint(-4, 5, size=shape) * (rs.rand(*shape) < 0.5)).astype(float)
                for _ in range(d["nan"]):
                    x.flat[rs.randint(N)] = np.nan
                for _ in range(d["inf"]):
                    x.flat[rs.randint(N)] = rs.choice([np.inf, -np.inf])
                datas.append(x); bufs.append(None)
                toks.append("s " + " ".join(self._tok(v) for v in x.ravel()))
            else:
                if "of" in d:
                    buf = np.zeros(P)
                    buf[:shape[0], :shape[1], :shape[2]] = datas[d["of"]]
                else:
                    rs = np.random.RandomState(d["seed"])
                    buf = (rs.randint(-4, 5, size=P) * (rs.rand(*P) < 0.3)).astype(float)
                datas.append(np.fft.rfftn(buf)); bufs.append(buf)
                toks.append("p " + frs(buf.ravel()))
        images = [Image(d, cm) for d in datas]
        snap = Snapshot(**{f"img{i}": im.get_fdata() for i, im in enumerate(images)})
        outs, optoks = [], []
        seen = {}
        fails = []
        sig = [c["norm"], c["scale"], c["loc"]]
        for k, op in enumerate(c["ops"]):
            if op[0] == "smooth":
                _, i, cl, isf = op
                optoks.append(f"smooth {i} {int(cl)} {int(isf)}")
                try:
                    o = np.asarray(lf.smooth(images[i], clean=bool(cl), is_fft=bool(isf)).get_fdata())
                    if o.shape != shape:
                        fails.append(f"op {k}: smooth returned shape {o.shape} for grid {shape}")
                        ob = "shape"
                    elif not np.all(np.isfinite(o)):
                        ob = "nonfinite"
                    else:
                        ob = ("v", o.ravel().tolist(), 1e-9 * (1.0 + float(np.abs(o).max())))
                except Exception as e:
                    ob = errname(e)
                outs.append(ob)
                tags.append("hist-isfft" if isf else "hist-clean" if cl else "hist-plain")
                if isinstance(ob, str) and ob.startswith("error"):
                    tags.append("hist-" + ob)
                # the same request under the same settings must give the same answer, whatever happened between
                key = (i, bool(cl), bool(isf), tuple(sig))
                if key in seen:
                    k0, o0 = seen[key]
                    if isinstance(ob, str) != isinstance(o0, str) or (isinstance(ob, str) and ob != o0) or (
                            not isinstance(ob, str) and not np.all(np.abs(np.array(ob[1]) - np.array(o0[1])) <= ob[2])):
                        fails.append(f"smooth(image {i}, clean={bool(cl)}, is_fft={bool(isf)}) answered differently at "
                                     f"operations {k0} and {k} of one history on the same filter object "
                                     f"[shape={shape} fwhm={fw} ops={c['ops']}]")
                    tags.append("hist-repeat")
                else:
                    seen[key] = (k, ob)
            else:
                optoks.append(f"{op[0]} {op[1] if op[0] == 'norm' else fr(op[1])}")
                if op[0] == "norm":
                    lf.normalization = op[1]; sig[0] = op[1]
                elif op[0] == "scale":
                    lf.scale = op[1]; sig[1] = op[1]
                elif op[0] == "loc":
                    lf.location = op[1]; sig[2] = op[1]
                else:
                    lf.fwhm = op[1]
                outs.append("unit")
        # a pre-transformed copy of image j must smooth like image j
        for (i, cl, isf, sg), (k, ob) in seen.items():
            d = c["imgs"][i]
            if isf and d["t"] == "p" and "of" in d and not isinstance(ob, str):
                for cl2 in (False, True):
                    other = seen.get((d["of"], cl2, False, sg))
                    if other and not isinstance(other[1], str):
                        if not np.all(np.abs(np.array(ob[1]) - np.array(other[1][1])) <= ob[2]):
                            fails.append(f"smooth(rfftn(padded image {d['of']}), is_fft=True) (op {k}) differs from "
                                         f"smooth(image {d['of']}) (op {other[0]}) [shape={shape} fwhm={fw}]")
                        tags.append("hist-isfft-vs-plain")
        m = snap.changed()
        if m:
            res["mutated"] = "LinearFilter.smooth:" + m
            fails.append(f"a history of smooth calls changed the caller's image data ({m}, "
                         f"{'pre-transformed' if c['imgs'][int(m[3:])]['t'] == 'p' else 'spatial'}) "
                         f"[shape={shape} fwhm={fw} ops={c['ops']}]")
        finals = []
        for im, d, b in zip(images, c["imgs"], bufs):
            dat = np.asarray(im.get_fdata())
            if d["t"] == "s":
                finals.append(("s", "s " + " ".join(self._tok(v) for v in dat.ravel())))
            else:
                finals.append(("p", np.fft.irfftn(dat, s=P).ravel().tolist(), 1e-9 * (1.0 + float(np.abs(b).max()))))
        fattr = fw[0] if isinstance(fw, list) else fw
        line = (f"hist {self._geom(shape, aff, fw)} {kimpl.shape[0]} {kimpl.shape[1]} {kimpl.shape[2]} "
                f"{frs(kimpl.ravel())} {fr(float(lf.norms['l2']))} {c['norm']} {fr(c['scale'])} {fr(c['loc'])} {fr(fattr)} "
                f"{len(toks)} {' '.join(toks)} {len(optoks)} {' '.join(optoks)}")
        res["lines"].append(line)
        res["impl"].append(("hist", outs, finals))
        if fails:
            res["oracle"] = fails[0]
        return res

    def _hist2(self, c):
        _freeze_once()
        return M.run_hist2(c)

    def _crop(self, c):
        from nipy.algorithms.kernel_smooth import _crop
        shape = tuple(c["shape"])
        rs = np.random.RandomState(c["seed"])
        X = (rs.randint(-3, 4, size=shape) * (rs.rand(*shape) < c["density"])).astype(float)
        if c["tiny"]:
            X = X * 1e-10
        snap = Snapshot(X=X)
        out, m = _crop(X, tol=c["tol"], return_corner=True)
        out2 = _crop(X, tol=c["tol"])
        fail = None
        if np.asarray(out2).shape != np.asarray(out).shape or not np.array_equal(out, out2):
            fail = "_crop(X) and _crop(X, return_corner=True)[0] differ"
        return {"lines": [f"crop {shape[0]} {shape[1]} {shape[2]} {frs(X.ravel())} {fr(c['tol'])}"],
                "impl": [("crop", [int(v) for v in m], list(np.asarray(out).shape), np.asarray(out).ravel().tolist())],
                "oracle": fail, "nontrivial": bool(np.any(np.abs(X) > c["tol"])),
                "tags": ["crop", "crop-empty" if not np.any(np.abs(X) > c["tol"]) else "crop-box"],
                "mutated": ("_crop:" + snap.changed()) if snap.changed() else None}

    def _covk(self, c):
        from nipy.algorithms.kernel_smooth import LinearFilter, fwhm2sigma
        from nipy.core.api import AffineTransform
        shape = tuple(c["shape"])
        aff = np.asarray(c["aff"], float)
        cm = AffineTransform.from_params("ijk", "xyz", aff)
        cov = np.asarray(c["cov"], float)
        fw = c["fwhm"]
        try:
            W = np.linalg.inv(np.linalg.cholesky(cov)); pd = 1
        except np.linalg.LinAlgError:
            W = np.eye(3); pd = 0
        sig = np.ones(3) * np.asarray(fwhm2sigma(fw), float)
        geom = (f"{shape[0]} {shape[1]} {shape[2]} {frs(aff[:3, :3].ravel())} {frs(aff[:3, 3])} "
                f"{frs(sig)} {frs(W.ravel())}")
        snap = Snapshot(cov=cov)
        try:
            lf = LinearFilter(cm, shape, fwhm=fw, cov=cov)
            k = np.asarray(lf._kernel)
            obs = ("covk", list(k.shape), [int(v) for v in getattr(lf, "_kcenter", ())] or None, [int(v) for v in lf.shape],
                   k.ravel().tolist())
            tag = "cov-accepted-n1=3"
        except Exception as e:
            obs = ("covk", errname(e))
            tag = "cov-refused-" + errname(e)[6:]
        return {"lines": [f"covkernel {pd} {geom}"], "impl": [obs], "oracle": None, "nontrivial": True,
                "tags": ["covk", tag], "mutated": ("LinearFilter:" + snap.changed()) if snap.changed() else None}

    def _widthsv(self, c):
        from nipy.algorithms.kernel_smooth import fwhm2sigma, sigma2fwhm
        xs = list(c["xs"])
        arr = np.asarray(xs, float)
        if c["nd"] == 2:
            arr = arr.reshape(1, -1)
        arg = arr if c["nd"] == 2 else xs                     # a plain list and a 2-D array
        snap = Snapshot(a=arr)
        a, b = np.asarray(fwhm2sigma(arg)), np.asarray(sigma2fwhm(arg))
        fail = None
        if a.shape != arr.shape or b.shape != arr.shape:
            fail = f"width conversion of an array of shape {arr.shape} returned shapes {a.shape}, {b.shape}"
        elif len(xs) and not (np.allclose(sigma2fwhm(a), arr, rtol=1e-14, atol=0) and np.allclose(fwhm2sigma(b), arr, rtol=1e-14, atol=0)):
            fail = f"array width conversions not mutually inverse on {xs}"
        cst = float(sigma2fwhm(1.0))
        return {"lines": [f"widthsv {fr(cst)} {len(xs)} {frs(xs)}".rstrip()],
                "impl": [("rats", a.ravel().tolist() + b.ravel().tolist(), 1e-13)], "oracle": fail,
                "nontrivial": len(xs) > 0, "tags": ["widthsv"],
                "mutated": ("fwhm2sigma:" + snap.changed()) if snap.changed() else None}

    def _argguard(self, c):
        from nipy.algorithms.kernel_smooth import LinearFilter
        from nipy.core.api import AffineTransform, Image
        bshape = tuple(c["bshape"]); ish = tuple(c["ish"]); nd = c["ndim"]
        cm3 = AffineTransform.from_params("ijk", "xyz", np.eye(4))
        lf = LinearFilter(cm3, bshape, fwhm=2.0)
        full = {1: ish[2:], 2: ish[1:], 3: ish, 4: (2,) + ish, 5: (1, 2) + ish}[nd]
        if c["arg"] == "list":
            arg = np.ones(ish).tolist()
        elif c["arg"] == "array":
            arg = np.ones(full)
        else:
            arg = Image(np.ones(full), AffineTransform.from_params("ijklm"[:nd], "xyztu"[:nd], np.eye(nd + 1)))
        try:
            out = lf.smooth(arg)
            obs = "ok" if out.shape == bshape else f"shape {out.shape}"
        except Exception as e:
            obs = errname(e)
        return {"lines": [f"argguard {c['arg']} {nd} {ish[0]} {ish[1]} {ish[2]} {bshape[0]} {bshape[1]} {bshape[2]}"],
                "impl": [("text", obs)], "oracle": None, "nontrivial": True, "tags": ["argguard", "arg-" + obs]}

    def _fwhmguard(self, c):
        from nipy.algorithms.kernel_smooth import LinearFilter
        from nipy.core.api import AffineTransform
        cm3 = AffineTransform.from_params("ijk", "xyz", np.eye(4))
        try:
            LinearFilter(cm3, (3, 3, 3), fwhm=(2.0 if c["len"] == 0 else [2.0 + k for k in range(c["len"])]))
            obs = "ok"
        except Exception as e:
            obs = errname(e)
        return {"lines": [f"fwhmguard {c['len']}"], "impl": [("text", obs)], "oracle": None, "nontrivial": True,
                "tags": ["fwhmguard"]}

    def _reselimage(self, c):
        from nipy.algorithms.fwhm import ReselImage
        from nipy.core.api import AffineTransform
        cm3 = AffineTransform.from_params("ijk", "xyz", np.eye(4))
        mk = lambda n: None if n == 0 else np.ones((n, 1, 1)) * 2.0   # noqa: E731
        try:
            ReselImage(resels=mk(c["nres"]), fwhm=mk(c["nfwhm"]), coordmap=cm3)
            obs = "ok"
        except Exception as e:
            obs = errname(e)
        return {"lines": [f"reselimage {c['nres']} {c['nfwhm']}"], "impl": [("text", obs)], "oracle": None,
                "nontrivial": True, "tags": ["reselimage"]}

    def _reseliter(self, c):
        from nipy.algorithms.fwhm import ReselImage, Resels
        from nipy.core.api import AffineTransform
        cm3 = AffineTransform.from_params("ijk", "xyz", np.eye(4))
        one = np.ones((1, 1, 1)) * 2.0
        try:
            if c["ri"]:
                obj = ReselImage(resels=one, fwhm=one, coordmap=cm3)
            else:
                obj = Resels(cm3, fwhm=one if c["hasfwhm"] else None, resels=one if c["hasfwhm"] else None)
            obs = "self" if obj.__iter__() is obj else "other"
        except Exception as e:
            obs = errname(e)
        return {"lines": [f"reseliter {c['ri']} {c['hasfwhm']}"], "impl": [("text", obs)], "oracle": None,
                "nontrivial": True, "tags": ["reseliter"]}

    def _resel(self, c):
        from nipy.algorithms.fwhm import Resels, _calc_detlam
        from nipy.core.api import AffineTransform
        lin = np.asarray(c["lin"], float)
        aff = np.eye(4); aff[:3, :3] = lin; aff[:3, 3] = [3.0, -1.5, 8.0]
        cm = AffineTransform.from_params("ijk", "xyz", aff)
        D = c["D"]
        rs = np.random.RandomState(c["seed"])
        res_arr = rs.randint(0, 64, size=c["n"]) / 16.0
        mask = {"none": None, "bool": rs.rand(c["n"]) < 0.6, "zero": np.zeros(c["n"], bool),
                "float": rs.choice([0.0, 0.7, 1.0, 2.5, -1.5], size=c["n"]),
                # selectors as small integers: 0/1, signed scores, unsigned with a large entry (weights, as built)
                "int8": rs.choice([0, 1, 1, -1, 2], size=c["n"]).astype(np.int8),
                "uint8": rs.choice([0, 1, 1, 255], size=c["n"]).astype(np.uint8),
                "bool-F": (rs.rand(2 * c["n"]) < 0.6)[::2]}[c["mask"]]
        R = Resels(cm, D=D, resels=res_arr, mask=mask)
        c4 = float(np.sqrt(4 * np.log(2.0)))
        w = float(R.wedge)
        lines, impl = [], []
        lines.append("wedge " + frs(lin.ravel())); impl.append(("rats", [w ** D], 1e-12))

        def root_of(r):
            v = float(np.power(r, 1.0 / D)) if r == r else float("nan")
            return v if (v == v and v != math.inf and v > 0) else 0.0      # pos_recipr maps all of these to 0
        for f in c["f"]:
            r_ = float(R.fwhm2resel(f))
            lines.append(f"f2r {fr(c4)} {fr(w)} {D} {fr(f)}"); impl.append(("rats", [r_], 1e-12))
            for rr in (r_, -f, float(f)):
                back = float(R.resel2fwhm(rr))
                root = root_of(rr)
                lines.append(f"r2f {fr(c4)} {fr(w)} {D} {fr(root)}")
                impl.append(("rats", [back, rr if rr > 0 else 0.0], 1e-12))
        snap = Snapshot(resels=res_arr, mask=mask if mask is not None else 0)
        tot, fwhm_, nvox = R.integrate()
        with np.errstate(all="ignore"):
            mean = np.float64(tot) / nvox
        root = root_of(float(mean))
        mtxt = "0" if mask is None else "1 " + frs(np.asarray(mask, float))
        lines.append(f"integrate {fr(c4)} {fr(w)} {fr(root)} {c['n']} {frs(res_arr)} {mtxt}")
        impl.append(("integ", float(tot), int(nvox), float(fwhm_)))
        six = [float(v) for v in rs.randint(-16, 17, size=6) / 4.0]
        lines.append("detlam " + frs(six)); impl.append(("rats", [float(_calc_detlam(*six))], 1e-13))
        return {"lines": lines, "impl": impl, "oracle": None, "nontrivial": True,
                "tags": ["resel", "resel-D=%d" % D, "resel-mask=" + c["mask"]],
                "mutated": ("Resels.integrate:" + snap.changed()) if snap.changed() else None}

    def _exh(self, c):
        """every impulse position of a small grid: the response is the kernel centred on the impulse"""
        from nipy.algorithms.kernel_smooth import LinearFilter
        from nipy.core.api import AffineTransform, Image
        _freeze_once()
        shape = tuple(c["shape"])
        aff = np.asarray(c["aff"], float)
        cm = AffineTransform.from_params("ijk", "xyz", aff)
        fw, norm, scale, loc = c["fwhm"], c["norm"], c["scale"], c["loc"]
        tags = ["exh", "aff=" + c["afftag"]]
        res = {"lines": [], "impl": [], "oracle": None, "nontrivial": False, "tags": tags, "mutated": None}
        K, E, cen = spec_kernel(shape, aff, fw, None)
        if np.any(np.abs(E - 15) < 1e-9):
            tags.append("boundary")
            return res
        try:
            lf = LinearFilter(cm, shape, fwhm=fw, scale=scale, location=loc)
            lf.normalization = norm
        except Exception as e:
            res["oracle"] = f"LinearFilter(shape={shape}, fwhm={fw}) raised {type(e).__name__}: {e}"
            return res
        kimpl = np.asarray(lf._kernel)
        res["nontrivial"] = bool(max(kimpl.shape) > 1)
        normval = {"l1sum": K.sum(), "l1": np.abs(K).sum(), "l2": math.sqrt((K ** 2).sum())}[norm]
        tol = 1e-9 * (abs(scale) * (K.sum() / normval) + abs(loc) + 1.0)
        geom = self._geom(shape, aff, fw)
        nk = norm if norm != "l2" else "l2 " + fr(float(lf.norms["l2"]))
        khead = (f"smooth {geom} {kimpl.shape[0]} {kimpl.shape[1]} {kimpl.shape[2]} {frs(kimpl.ravel())} "
                 f"{nk} {fr(scale)} {fr(loc)} ")
        n = np.array(shape)
        Kpad = np.zeros(tuple(3 * n))            # K placed so that index (n + d + cen) holds K[cen + d]
        Kpad[n[0]:2 * n[0], n[1]:2 * n[1], n[2]:2 * n[2]] = K
        mp = tuple(c["mp"])
        npos = 0
        for p in np.ndindex(*shape):
            imp = np.zeros(shape); imp[p] = 1.0
            try:
                o = np.asarray(lf.smooth(Image(imp, cm)).get_fdata())
            except Exception as e:
                res["oracle"] = f"smooth(unit impulse at {p}) on grid {shape} raised {type(e).__name__}: {e}"
                return res
            # want[i] = K[cen + i - p]
            st = n + cen - np.array(p)
            want = scale * Kpad[st[0]:st[0] + n[0], st[1]:st[1] + n[1], st[2]:st[2] + n[2]] / normval + loc
            npos += 1
            if o.shape != shape or not np.all(np.abs(o - want) <= tol):
                j = np.unravel_index(int(np.argmax(np.abs(o - want))), shape) if o.shape == shape else None
                res["oracle"] = (f"impulse at {tuple(int(v) for v in p)} on grid {shape} (fwhm={fw}, kernel shape {kimpl.shape}): "
                                 f"response is not the world-unit Gaussian centred on the impulse"
                                 + (f" (voxel {tuple(int(v) for v in j)}: {float(o[j])!r} vs {float(want[j])!r})" if j else f" (shape {o.shape})"))
                return res
            if p == mp or p == tuple(n - 1):
                res["lines"].append(khead + frs(imp.ravel())); res["impl"].append(("img", o.ravel().tolist(), tol))
        tags.append("exh-positions=%d" % (1 if npos == 1 else 8 if npos <= 8 else 27 if npos <= 27 else 64 if npos <= 64 else 125))
        return res

    # ------------------------------------------------------------------
    def compare(self, case, impl_obs, model_out):
        kind = impl_obs[0]
        if kind == "text":
            return None if impl_obs[1] == model_out else f"impl={impl_obs[1]} model={model_out}"
        if kind == "hist2":
            return M.compare_hist2(impl_obs, model_out)
        if kind not in ("hist", "covk") and model_out.startswith(("error", "bad-op", "empty", "kernel-shape-mismatch")):
            return f"impl returned values, model says {model_out[:80]}"
        if kind in ("rats", "img"):
            vals, tol = impl_obs[1], impl_obs[2]
            mv = parse_rats(model_out)
            if len(mv) != len(vals):
                return f"length impl={len(vals)} model={len(mv)}"
            for k, (a, b) in enumerate(zip(vals, mv)):
                ok = close(a, b, tol, 0) if kind == "rats" else abs(float(a) - float(b)) <= tol
                if not ok:
                    return f"index {k}: impl={float(a)!r} model={float(b)!r}"
            return None
        if kind == "kernel":
            _, kshape, kvals, pshape = impl_obs[:4]
            head, _, tail = model_out.partition(" | ")
            h = [int(t) for t in head.split()]
            if h[3:6] != list(kshape):
                return f"cropped kernel shape impl={kshape} model={h[3:6]} (lo={h[0:3]})"
            if h[9:12] != list(pshape):
                return f"padded FFT shape impl={pshape} model={h[9:12]}"
            if h[6:9] != list(impl_obs[4]):
                return f"kernel centre index impl={impl_obs[4]} model={h[6:9]}"
            es = tail.split()
            if len(es) != len(kvals):
                return f"kernel size impl={len(kvals)} model={len(es)}"
            for k, (v, e) in enumerate(zip(kvals, es)):
                if e == "x":
                    if v != 0.0:
                        return f"kernel[{k}] impl={v!r} model: cut off"
                else:
                    w = math.exp(-float(parse_rats(e)[0]))
                    if not close(v, w, 1e-9, 0):
                        return f"kernel[{k}] impl={v!r} model exp(-{e[:40]})={w!r}"
            return None
        if kind == "hist":
            _, outs, finals = impl_obs
            left, sep, right = model_out.partition(" || ")
            if not sep:
                return f"model says {model_out[:80]}"
            mouts, mimgs = left.split(" ; "), right.split(" ; ")
            if len(mouts) != len(outs) or len(mimgs) != len(finals):
                return f"history length impl={len(outs)}/{len(finals)} model={len(mouts)}/{len(mimgs)}"
            for k, (o, m) in enumerate(zip(outs, mouts)):
                m = m.strip()
                if m == "unspecified":
                    continue
                if isinstance(o, str):
                    if o != m:
                        return f"op {k}: impl={o} model={m[:60]}"
                    continue
                if not m.startswith("v "):
                    return f"op {k}: impl returned values, model says {m[:60]}"
                mv = parse_rats(m[2:])
                if len(mv) != len(o[1]):
                    return f"op {k}: length impl={len(o[1])} model={len(mv)}"
                for j, (a, b) in enumerate(zip(o[1], mv)):
                    if abs(float(a) - float(b)) > o[2]:
                        return f"op {k} index {j}: impl={float(a)!r} model={float(b)!r}"
            for k, (f, m) in enumerate(zip(finals, mimgs)):
                m = m.strip()
                if f[0] == "s":
                    if f[1] != m:
                        return f"caller image {k} after the history: impl differs from the model (unchanged)"
                else:
                    mv = parse_rats(m[2:])
                    if len(mv) != len(f[1]):
                        return f"caller image {k}: length impl={len(f[1])} model={len(mv)}"
                    for j, (a, b) in enumerate(zip(f[1], mv)):
                        if abs(float(a) - float(b)) > f[2]:
                            return (f"caller's pre-transformed image {k} after the history: buffer index {j} "
                                    f"impl={float(a)!r} model (unchanged)={float(b)!r}")
            return None
        if kind == "crop":
            _, m, kshape, vals = impl_obs
            head, _, tail = model_out.partition(" | ")
            try:
                h = [int(t) for t in head.split()]
            except ValueError:
                return f"model says {model_out[:80]}"
            if h[0:3] != list(m) or h[3:6] != list(kshape):
                return f"crop corner/shape impl={m}/{kshape} model={h[0:3]}/{h[3:6]}"
            mv = parse_rats(tail)
            if len(mv) != len(vals) or any(float(a) != float(b) for a, b in zip(vals, mv)):
                return f"cropped values differ: impl={vals[:6]} model={[float(v) for v in mv[:6]]}"
            return None
        if kind == "covk":
            if len(impl_obs) == 2:
                return None if impl_obs[1] == model_out else f"impl={impl_obs[1]} model={model_out[:80]}"
            _, kshape, kc, pshape, kvals = impl_obs
            head, sep, tail = model_out.partition(" | ")
            if not sep:
                return f"impl built a kernel of shape {kshape}, model says {model_out[:80]}"
            h = [int(t) for t in head.split()]
            if h[0:3] != list(kshape) or (kc is not None and h[3:6] != list(kc)) or h[6:9] != list(pshape):
                return f"cov kernel shape/centre/padded impl={kshape}/{kc}/{pshape} model={h[0:3]}/{h[3:6]}/{h[6:9]}"
            es = tail.split()
            if len(es) != len(kvals):
                return f"kernel size impl={len(kvals)} model={len(es)}"
            for k, (v, e) in enumerate(zip(kvals, es)):
                if e == "x":
                    if v != 0.0 and abs(-math.log(v) - 15) > 1e-6:
                        return f"cov kernel[{k}] impl={v!r} model: cut off"
                else:
                    ef = float(parse_rats(e)[0])
                    if not close(v, math.exp(-ef), 1e-9, 0) and not (v == 0.0 and abs(ef - 15) < 1e-6):
                        return f"cov kernel[{k}] impl={v!r} model exp(-{ef!r})"
            return None
        if kind == "integ":
            _, tot, nvox, fw_ = impl_obs
            t = model_out.split()
            if len(t) != 4:
                return f"model says {model_out[:80]}"
            if not close(tot, Fraction(t[0]), 1e-12, 1e-12):
                return f"integrate total impl={tot!r} model={float(Fraction(t[0]))!r}"
            if int(t[1]) != nvox:
                return f"integrate nvoxel impl={nvox} model={t[1]}"
            if not close(fw_, Fraction(t[3]), 1e-12, 1e-12):
                return f"integrate fwhm impl={fw_!r} model={float(Fraction(t[3]))!r}"
            return None
        return "unknown observation kind"

    def shrink(self, case):
        kind = case.get("kind")
        if kind == "hist2":
            ops, imgs = case["ops"], case["imgs"]
            for k in range(len(ops)):
                if len(ops) > 1:
                    c = dict(case); c["ops"] = ops[:k] + ops[k + 1:]; yield c
            for i, d in enumerate(imgs):
                if d["t"] == "s" and (d.get("nan") or d.get("inf") or d.get("mag") or d.get("var") != "float64"):
                    c = dict(case)
                    c["imgs"] = [({**e, "nan": 0, "inf": 0, "mag": 0, "var": "float64"} if t == i else e) for t, e in enumerate(imgs)]
                    yield c
            for k, o in enumerate(ops):
                if o[0] == "call" and (o[2]["n"] > 1 or o[2]["layout"] != "rows"):
                    c = dict(case)
                    c["ops"] = [([o2[0], o2[1], {**o2[2], "n": 1, "layout": "rows"}] if t == k else o2) for t, o2 in enumerate(ops)]
                    yield c
            sh = case["shape"]
            for i in range(3):
                if sh[i] > 1:
                    c = dict(case); s_ = list(sh); s_[i] = sh[i] - 1; c["shape"] = s_; yield c
            ident = [[1.0, 0, 0, 0], [0, 1.0, 0, 0], [0, 0, 1.0, 0], [0, 0, 0, 1.0]]
            if case["aff"] != ident:
                c = dict(case); c["aff"] = ident; c["afftag"] = "iso"; yield c
            return
        if kind not in ("filter", "hist", "exh"):
            return
        if kind == "hist":
            ops, imgs = case["ops"], case["imgs"]
            for k in range(len(ops)):
                if len(ops) > 1:
                    c = dict(case); c["ops"] = ops[:k] + ops[k + 1:]; yield c
            used = {o[1] for o in ops if o[0] == "smooth"}
            used |= {imgs[i]["of"] for i in used if "of" in imgs[i]}
            for i in range(len(imgs)):
                if i not in used and len(imgs) > 1:
                    ren = lambda t: t - 1 if t > i else t   # noqa: E731
                    c = dict(case)
                    c["imgs"] = [({**d, "of": ren(d["of"])} if "of" in d else d) for t, d in enumerate(imgs) if t != i]
                    c["ops"] = [([o[0], ren(o[1])] + o[2:]) if o[0] == "smooth" else o for o in ops]
                    yield c
            for i, d in enumerate(imgs):
                if d.get("nan") or d.get("inf"):
                    c = dict(case); c["imgs"] = [({**e, "nan": 0, "inf": 0} if t == i else e) for t, e in enumerate(imgs)]
                    yield c
        sh = case["shape"]
        for i in range(3):
            for new in (sh[i] - 2, sh[i] - 1):
                if new >= 1:
                    c = dict(case); s = list(sh); s[i] = new; c["shape"] = s
                    for key in ("p", "mp"):
                        if key in case:
                            c[key] = [min(v, n - 1) for v, n in zip(case[key], s)]
                    yield c
        if case.get("cov") is not None:
            c = dict(case); c["cov"] = None; yield c
        if case["norm"] != "l1sum":
            c = dict(case); c["norm"] = "l1sum"; yield c
        if case["loc"] != 0.0:
            c = dict(case); c["loc"] = 0.0; yield c
        if case["scale"] not in (1.0, 2.0):
            c = dict(case); c["scale"] = 2.0; yield c
        if case["scale"] != 1.0:
            c = dict(case); c["scale"] = 1.0; yield c
        ident = [[1.0, 0, 0, 0], [0, 1.0, 0, 0], [0, 0, 1.0, 0], [0, 0, 0, 1.0]]
        if case["aff"] != ident:
            c = dict(case); c["aff"] = ident; c["afftag"] = "iso"; yield c
        if isinstance(case["fwhm"], list):
            c = dict(case); c["fwhm"] = case["fwhm"][0]; yield c
        elif case["fwhm"] not in (1.0, 2.0, 4.0, 8.0):
            for f in (2.0, 4.0, 8.0):
                c = dict(case); c["fwhm"] = f; yield c

    def classify(self, case, failure):
        return None


CHECK = C18()
