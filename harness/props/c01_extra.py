"""C01 — additional case kinds (second wave): equality / similar_to / equivalent, axmap /
input_axis_index / io_axis_indices, coordinate_system.py (CoordinateSystem checks, index, equality,
similar_to, product, CoordSysMaker, API predicates, safe_dtype, can_cast gate and shape rule of
_checked_values).  Each function returns the dict `run_case` returns."""
from __future__ import annotations

import itertools
import random
import warnings
from fractions import Fraction

import numpy as np

from harness.util import errname, fr

DT_NP = {"b1": np.bool_, "i1": np.int8, "i2": np.int16, "i4": np.int32, "i8": np.int64,
         "u1": np.uint8, "u2": np.uint16, "u4": np.uint32, "u8": np.uint64,
         "f2": np.float16, "f4": np.float32, "f8": np.float64, "c8": np.complex64, "c16": np.complex128,
         "O": object, "S": np.dtype("U4")}
NUM_CODES = [c for c in DT_NP if c != "S"]
CS_CODES = [c for c in NUM_CODES if c != "b1"]
NAME_POOL = ["i", "j", "k", "l", "m", "x", "y", "z", "t", "u", "v", "w", "p", "q", "r", "s",
             "phase", "freq", "slice", "time", "ax_0", "B-2"]


def _enc(s):
    return "s:" + s


def dt_code(dt):
    dt = np.dtype(dt)
    for c, t in DT_NP.items():
        if c != "S" and dt == np.dtype(t):
            return c
    if dt.kind in "USV":
        return "S"
    return "other:" + dt.name


def cs_line(names, name, dt):
    return f"{_enc(name)} {dt} {len(names)}" + "".join(" " + _enc(n) for n in names)


def cs_obs(cs):
    return cs_line(list(cs.coord_names), cs.name, dt_code(cs.coord_dtype))


def _res(f):
    """('ok', value) or ('err', 'error:…')"""
    try:
        with warnings.catch_warnings():
            warnings.simplefilter("ignore")
            return "ok", f()
    except Exception as e:
        return "err", errname(e)


def _names(rng, n, avoid=()):
    out = []
    while len(out) < n:
        c = rng.choice(NAME_POOL) if rng.random() < 0.8 else f"n{rng.randrange(50)}"
        if c not in out and c not in avoid:
            out.append(c)
    return out


# ----------------------------------------------------------------------
# coordinate_system.py
# ----------------------------------------------------------------------
def run_cs(case):
    from nipy.core.reference import coordinate_system as csm
    from nipy.core.reference import coordinate_map as cmm
    CS = csm.CoordinateSystem
    rng = random.Random(case["seed"])
    lines, impl, oracle, tags = [], [], None, ["cs"]

    def add(line, obs, tag):
        lines.append(line)
        impl.append({"status": "txt", "txt": obs})
        tags.append(tag)

    def cs_or_err(f):
        k, v = _res(f)
        return ("cs " + cs_obs(v)) if k == "ok" else v

    sub = case["sub"]
    if sub == "new":
        for _ in range(6):
            n = rng.choice([0, 1, 2, 3, 4, 5])
            names = _names(rng, n)
            if n >= 2 and rng.random() < 0.25:
                names[rng.randrange(1, n)] = names[0]
            name = rng.choice(["", "voxels", "world", "a_name"])
            dt = rng.choice(CS_CODES * 3 + ["b1", "S"])
            k, v = _res(lambda: CS(names, name, DT_NP[dt]))
            obs = v if k == "err" else "cs " + cs_obs(v)
            if k == "ok":
                want = np.dtype([(nm, DT_NP[dt]) for nm in names])
                if v.ndim != n or v.dtype != want:
                    oracle = f"CoordinateSystem({names}).ndim / .dtype do not describe the named coordinates"
            add(f"cs new {cs_line(names, name, dt)}", obs, "cs-new")
    elif sub == "index":
        n = rng.randint(1, 5)
        names = _names(rng, n)
        c = CS(names, "d", np.float64)
        for s in names + ["nosuch"]:
            k, v = _res(lambda: c.index(s))
            add(f"cs index {cs_line(names, 'd', 'f8')} {_enc(s)}", str(v), "cs-index")
    elif sub == "cmp":
        for _ in range(6):
            n = rng.randint(0, 4)
            names = _names(rng, n)
            a = (names, rng.choice(["", "w"]), rng.choice(CS_CODES))
            w = rng.choice(["same", "same", "name", "dtype", "perm", "coord", "dim"])
            bn, bname, bdt = list(a[0]), a[1], a[2]
            if w == "name":
                bname = bname + "2"
            elif w == "dtype":
                bdt = rng.choice([c for c in CS_CODES if c != bdt])
            elif w == "perm" and n >= 2:
                while bn == names:
                    rng.shuffle(bn)
            elif w == "coord" and n >= 1:
                bn[rng.randrange(n)] = "other"
            elif w == "dim":
                bn = bn + ["extra"]
            A, B = CS(a[0], a[1], DT_NP[a[2]]), CS(bn, bname, DT_NP[bdt])
            eq, ne, sim = (A == B), (A != B), A.similar_to(B)
            if bool(eq) == bool(ne):
                oracle = "CoordinateSystem: == and != agree"
            # the gate of composition: systems are equal exactly when coordinate names (in order), name and dtype are
            same = (list(a[0]) == list(bn) and a[1] == bname and (a[2] == bdt or n == 0))
            if bool(eq) != same and len(bn) > 0:
                oracle = (f"CoordinateSystem({a[0]}, {a[1]!r}, {a[2]}) == CoordinateSystem({bn}, {bname!r}, {bdt}) "
                          f"is {bool(eq)}: coordinate systems that differ would be accepted as matching (or equal "
                          f"ones refused) when maps are composed")
            add(f"cs cmp {cs_line(*a)} {cs_line(bn, bname, bdt)}",
                f"eq {str(bool(eq)).lower()} sim {str(bool(sim)).lower()}", "cs-cmp")
    elif sub == "prod":
        for _ in range(4):
            k = rng.choice([0, 1, 2, 2, 3, 4])
            used, specs = [], []
            for _j in range(k):
                n = rng.randint(0, 3)
                nm = _names(rng, n, used if rng.random() < 0.85 else ())
                used += nm
                specs.append((nm, rng.choice(["", "in", "w"]), rng.choice(CS_CODES)))
            name = rng.choice([None, None, "product", "another_name", ""])
            extra = rng.random() < 0.1
            kw = {}
            if name is not None:
                kw["name"] = name
            if extra:
                kw["nome"] = "typo"
            objs = [CS(a, b, DT_NP[c]) for a, b, c in specs]
            kp, vp = _res(lambda: csm.product(*objs, **kw))
            if kp == "ok":
                # the product system lists the factors' coordinates block after block, under the requested name,
                # with a dtype every factor's coordinates cast to safely
                if list(vp.coord_names) != sum((list(o.coord_names) for o in objs), []) or \
                   vp.name != ("product" if name is None else name) or \
                   not all(np.can_cast(o.coord_dtype, vp.coord_dtype) for o in objs):
                    oracle = (f"product of coordinate systems {[cs_obs(o) for o in objs]} (name={name!r}) is "
                              f"{cs_obs(vp)}")
            obs = cs_or_err(lambda: csm.product(*objs, **kw))
            add(f"cs prod {k} " + " ".join(cs_line(*sp) for sp in specs) +
                (" none" if name is None else " " + _enc(name)) + (" 1" if extra else " 0"), obs, "cs-prod")
            lines[-1] = lines[-1].replace("  ", " ")
    elif sub == "maker":
        n = rng.randint(0, 5)
        names = _names(rng, n)
        if n >= 3 and rng.random() < 0.2:
            names[-1] = names[0]
        mname = rng.choice(["", "a_name"])
        mdt = rng.choice(CS_CODES * 3 + ["b1"])
        mk = csm.CoordSysMaker(names, mname, DT_NP[mdt])
        if not csm.is_coordsys_maker(mk) or csm.is_coordsys(mk):
            oracle = "CoordSysMaker is not recognised by is_coordsys_maker"
        for N in range(-2, n + 3):
            nm = rng.choice([None, None, "other"])
            dt = rng.choice([None, None, None] + CS_CODES + ["b1"])
            kw = {}
            if nm is not None:
                kw["name"] = nm
            if dt is not None:
                kw["coord_dtype"] = DT_NP[dt]
            obs = cs_or_err(lambda: mk(N, **kw))
            add(f"cs maker {cs_line(names, mname, mdt)} {N} {'none' if nm is None else _enc(nm)} "
                f"{'none' if dt is None else dt}", obs, "cs-maker")
    elif sub == "isapi":
        A = cmm.AffineTransform.identity("ij")
        objs = {"cs": CS("ij"), "maker": csm.CoordSysMaker("ijk"), "affine": A,
                "cmap": cmm._as_coordinate_map(A), "other": 3}
        for kind, o in objs.items():
            add(f"cs isapi {kind}", f"{str(bool(csm.is_coordsys(o))).lower()} "
                                    f"{str(bool(csm.is_coordsys_maker(o))).lower()}", "cs-isapi")
    elif sub == "safe":
        if case.get("row") is not None:
            a = case["row"]
            for b in NUM_CODES:
                add(f"cs cancast {a} {b}", str(bool(np.can_cast(np.dtype(DT_NP[a]), np.dtype(DT_NP[b])))).lower(),
                    "cs-cancast")
                k, v = _res(lambda: csm.safe_dtype(DT_NP[a], DT_NP[b]))
                add(f"cs safe 2 {a} {b}", dt_code(v) if k == "ok" else v, "cs-safe")
        for _ in range(6):
            k = rng.choice([0, 1, 2, 3, 3, 4, 5])
            ds = [rng.choice(NUM_CODES * 4 + ["S"]) for _j in range(k)]
            kk, v = _res(lambda: csm.safe_dtype(*[DT_NP[d] for d in ds]))
            if kk == "ok" and "S" not in ds and not all(np.can_cast(np.dtype(DT_NP[d]), v) for d in ds):
                oracle = f"safe_dtype{tuple(ds)} = {v}: not every given dtype casts safely to it"
            add(f"cs safe {k} " + " ".join(ds), dt_code(v) if kk == "ok" else v, "cs-safe")
            lines[-1] = lines[-1].rstrip()
    elif sub == "shape":
        for _ in range(8):
            nin, nout = rng.randint(1, 4), rng.randint(1, 4)
            csdt = rng.choice(CS_CODES)
            pdt = rng.choice(NUM_CODES)
            w = rng.choice(["scalar", "vec", "vec", "batch", "batch", "batch3", "batch3", "batch4", "empty", "wrongwidth",
                            "transposed"])
            shape = {"scalar": (), "vec": (nin,), "batch": (rng.randint(1, 4), nin),
                     "batch3": (rng.randint(1, 3), rng.randint(2, 3), nin),
                     "batch4": (rng.randint(2, 3), rng.randint(1, 2), rng.randint(2, 3), nin), "empty": (0, nin),
                     "wrongwidth": (rng.randint(1, 3), nin + rng.choice([-1, 1])),
                     "transposed": (nin, rng.randint(1, 3))}[w]
            shape = tuple(max(0, v) for v in shape)
            M = np.zeros((nout + 1, nin + 1), dtype=DT_NP[csdt] if csdt != "O" else object)
            M[:-1, :] = [[rng.choice([0, 1, 1, 2]) for _ in range(nin + 1)] for _ in range(nout)]
            M[-1, -1] = 1
            A = cmm.AffineTransform(CS(_names(rng, nin), "d", DT_NP[csdt]), CS(_names(rng, nout), "r", DT_NP[csdt]), M)
            x = np.zeros(shape, dtype=DT_NP[pdt] if pdt != "O" else object)
            if x.size:
                x[...] = np.array([rng.choice([0, 1, 2, 3]) for _ in range(x.size)]).reshape(shape)
            # memory layout of the batch (a meshgrid transposed, an index array from np.indices(...).T, a slice):
            # the value at batch position (i, j, ..) is the map at the point stored there, whatever the strides
            lay = rng.choice(["C", "C", "F", "F", "strided"]) if x.ndim >= 2 and x.size else "C"
            if lay == "F":
                x = np.asfortranarray(x)
            elif lay == "strided":
                big = np.zeros(tuple(2 * d for d in x.shape), dtype=x.dtype)
                sl = tuple(slice(0, 2 * d, 2) for d in x.shape)
                big[sl] = x
                x = big[sl]
            k, v = _res(lambda: A(x))
            if k == "ok" and x.ndim >= 2 and x.size and x.shape[-1] == nin:
                # a batch of points is evaluated point by point (exact small integers)
                rows = np.asarray(x).reshape(-1, nin)
                outs = np.asarray(v).reshape(-1, nout)
                Mi = [[int(np.real(M[i, j])) for j in range(nin + 1)] for i in range(nout)]
                for rr, oo in zip(rows, outs):
                    xi = [int(np.real(t)) for t in rr]
                    want = [sum(Mi[i][j] * xi[j] for j in range(nin)) + Mi[i][nin] for i in range(nout)]
                    if [int(np.real(t)) for t in oo] != want or np.shape(v) != tuple(shape[:-1]) + (nout,):
                        oracle = (f"evaluating the batch of shape {shape} does not give, row by row, the value of the "
                                  f"map at each point (point {xi}: got {[str(t) for t in oo]}, expected {want})")
                        break
            obs = v if k == "err" else "shape " + " ".join(str(s) for s in np.shape(v))
            add(f"cs shape {nin} {nout} {csdt} {pdt} {len(shape)} " + " ".join(str(s) for s in shape), obs.rstrip(),
                "cs-shape:" + w)
            lines[-1] = lines[-1].rstrip()
            if k == "ok" and w in ("batch", "batch3", "batch4", "vec", "empty"):
                # the same through a general CoordinateMap and through a nested list
                kg, G = _res(lambda: cmm._as_coordinate_map(A))     # (sympy refuses the singular object matrix)
                k2, v2 = _res(lambda: G(x)) if kg == "ok" else ("ok", v)
                if k2 != "ok" or np.shape(v2) != np.shape(v):
                    oracle = f"CoordinateMap.__call__ on shape {shape} disagrees with AffineTransform.__call__"
                if pdt in ("i8", "f8", "b1") and x.size:
                    k3, v3 = _res(lambda: A(x.tolist()))
                    if k3 != "ok" or np.shape(v3) != np.shape(v):
                        oracle = f"AffineTransform.__call__ on a nested list of shape {shape} fails"
    else:
        raise KeyError(sub)
    return {"lines": lines, "impl": impl, "oracle": oracle, "nontrivial": True, "tags": sorted(set(tags)),
            "mutated": None}


# ----------------------------------------------------------------------
# matrices for eq / axis cases
# ----------------------------------------------------------------------
def _vals(rng, kind):
    if kind == "int":
        return str(rng.choice([-3, -2, -1, 0, 0, 1, 1, 2, 3]))
    if kind == "frac":
        return rng.choice(["-2", "-1", "0", "0", "1", "2", "1/3", "-2/3", "1/2", "3/5"])
    return rng.choice(["-3", "-2", "-1", "0", "0", "1", "1", "2", "3", "1/2", "-1/2", "3/2", "1/4", "5/2"])


def rand_map(rng, nin, nout, kind, dom_names=None, rng_names=None):
    dt = {"float": "f8", "int": "i8", "frac": "O"}[kind]
    dn = dom_names or _names(rng, nin)
    rn = rng_names or _names(rng, nout, dn if rng.random() < 0.7 else ())
    mat = [[_vals(rng, kind) for _ in range(nin + 1)] for _ in range(nout)] + [["0"] * nin + ["1"]]
    return {"dom": {"names": dn, "name": rng.choice(["", "d", "voxels"]), "dt": dt},
            "rng": {"names": rn, "name": rng.choice(["", "r", "world"]), "dt": dt}, "kind": kind, "mat": mat}


def structured_map(rng, nin, nout, share):
    """float map whose linear part is mostly a scaled partial permutation (what axmap is meant for), sometimes
    with an extra entry, an all-zero row / column, or ties; `share`: domain and range share some names"""
    dn = _names(rng, nin)
    rn = _names(rng, nout, dn)
    if share:
        for _ in range(rng.randint(1, 2)):
            rn[rng.randrange(nout)] = rng.choice(dn)
        if len(set(rn)) != len(rn):
            rn = _names(rng, nout, dn)
            rn[rng.randrange(nout)] = rng.choice(dn)
    lin = [["0"] * nin for _ in range(nout)]
    rows = list(range(nout))
    rng.shuffle(rows)
    for j in range(nin):
        if j < nout and rng.random() < 0.85:
            lin[rows[j]][j] = rng.choice(["1", "2", "-1", "-3", "1/2", "4", "-1/4"])
    r = rng.random()
    if r < 0.25:
        lin[rng.randrange(nout)][rng.randrange(nin)] = rng.choice(["1", "-2", "1/2", "1/1048576"])
    elif r < 0.35:
        lin = [[_vals(rng, "float") for _ in range(nin)] for _ in range(nout)]
    mat = [lin[i] + [_vals(rng, "float")] for i in range(nout)] + [["0"] * nin + ["1"]]
    return {"dom": {"names": dn, "name": "", "dt": "f8"}, "rng": {"names": rn, "name": "", "dt": "f8"},
            "kind": "float", "mat": mat}
